//! appended to src/tokinizer/mod.rs as `verif_k_local`: gives the harness crate-wide access to the
//! rule functions (their modules are private to `tokinizer`) and to Tokinizer's private methods.
#![allow(unused, dead_code)]
use super::*;
pub(crate) use super::rule_tokinizer::rules::cleanup_rules::*;
pub(crate) use super::rule_tokinizer::rules::date_rules::*;
pub(crate) use super::rule_tokinizer::rules::date_time_rules::*;
pub(crate) use super::rule_tokinizer::rules::duration_rules::*;
pub(crate) use super::rule_tokinizer::rules::dynamic_type_rules::*;
pub(crate) use super::rule_tokinizer::rules::money_rules::*;
pub(crate) use super::rule_tokinizer::rules::number_rules::*;
pub(crate) use super::rule_tokinizer::rules::percent_rules::*;

pub(crate) fn missing_token_adder(t: &mut Tokinizer) { t.missing_token_adder() }
pub(crate) fn run_rule_tokinizer(t: &mut Tokinizer) { super::rule_tokinizer::rule_tokinizer(t) }
