//! C04 / C01(a) — session cursor and the execute_session loop.
use super::*;
use crate::smartcalc::verif_k_local::mk_calc;

use crate::session::verif_k_local::{position_of, session_with_lines};

/// C01(a) / C04(a): execute_session from the state set_text is specified to leave (n lines, cursor 0),
/// arbitrary per-line outcomes (execute_text stubbed): status true, exactly n slots, cursor ends on the last line.
pub fn execute_session_slots() {
    let calc = mk_calc(blank_config());
    let n: usize = vany();
    vassume(n >= 1 && n <= 4);
    let s = session_with_lines(n, 0);
    let r = calc.execute_session(&s);
    assert!(r.status);
    assert!(r.lines.len() == n);
    assert!(position_of(&s) == n - 1);
    vcover!(n == 4);
    vcover!(n == 1);
    core::mem::forget(r); core::mem::forget(s); core::mem::forget(calc);
}

/// execute_session on a session without text: status false, no slots, no panic
pub fn execute_session_empty() {
    let calc = mk_calc(blank_config());
    let s = session_with_lines(0, 0);
    let r = calc.execute_session(&s);
    assert!(!r.status);
    assert!(r.lines.len() == 0);
    vcover!(true);
    core::mem::forget(r); core::mem::forget(s); core::mem::forget(calc);
}

/// native witness for engine M's set_text finding: a session re-used for a second, shorter text
pub fn k_replay_session_reuse() {
    let calc = crate::SmartCalc::default();
    let mut s = Session::new();
    s.set_language("en".to_string());
    s.set_text("1\n2\n3".to_string());
    let r1 = calc.execute_session(&s);
    assert!(r1.status && r1.lines.len() == 3);
    s.set_text("4\n5".to_string());
    let r2 = calc.execute_session(&s);
    assert!(r2.status);
    assert!(r2.lines.len() == 2);
}
