//! C04 / C01(a) — session cursor and the execute_session loop.
use super::*;
use crate::smartcalc::verif_k_local::mk_calc;

use crate::session::verif_k_local::{position_of, session_with_lines};

/// C01(a) / C04(a): execute_session from the state set_text is specified to leave (n lines, cursor 0),
/// arbitrary per-line outcomes (execute_text stubbed): status true, exactly n slots, cursor ends on the last line.
pub fn execute_session_slots() {
    let calc = mk_calc(blank_config());
    let n: usize = vany();
    vassume(n >= 1 && n <= 4);
    let s = session_with_lines(n, 0);
    let r = calc.execute_session(&s);
    assert!(r.status);
    assert!(r.lines.len() == n);
    assert!(position_of(&s) == n - 1);
    vcover!(n == 4);
    vcover!(n == 1);
    core::mem::forget(r); core::mem::forget(s); core::mem::forget(calc);
}

/// execute_session on a session without text: status false, no slots, no panic
pub fn execute_session_empty() {
    let calc = mk_calc(blank_config());
    let s = session_with_lines(0, 0);
    let r = calc.execute_session(&s);
    assert!(!r.status);
    assert!(r.lines.len() == 0);
    vcover!(true);
    core::mem::forget(r); core::mem::forget(s); core::mem::forget(calc);
}

/// native witness for engine M's set_text finding: a session re-used for a second, shorter text
pub fn k_replay_session_reuse() {
    let calc = crate::SmartCalc::default();
    let mut s = Session::new();
    s.set_language("en".to_string());
    s.set_text("1\n2\n3".to_string());
    let r1 = calc.execute_session(&s);
    assert!(r1.status && r1.lines.len() == 3);
    s.set_text("4\n5".to_string());
    let r2 = calc.execute_session(&s);
    assert!(r2.status);
    assert!(r2.lines.len() == 2);
    // the same text given again is a new evaluation of all of its lines
    s.set_text("4\n5".to_string());
    let r3 = calc.execute_session(&s);
    assert!(r3.status && r3.lines.len() == 2);
    let out = |r: &crate::smartcalc::ExecuteResult, i: usize| match &r.lines[i] { Some(l) => match &l.result { Ok(x) => x.output.clone(), Err(e) => e.clone() }, None => String::new() };
    assert!(out(&r3, 0) == "4" && out(&r3, 1) == "5");
    // and so is the same text after a text with the same number of lines
    s.set_text("6\n7".to_string());
    let _ = calc.execute_session(&s);
    s.set_text("6\n7".to_string());
    let r4 = calc.execute_session(&s);
    assert!(r4.lines.len() == 2 && out(&r4, 1) == "7");
}

/// native witness for the rule-application specs: an API rule that declines its first call and accepts later ones;
/// a decline must not disable the rule for later evaluations on the same calculator
#[cfg(not(kani))]
pub fn k_replay_api_rule() {
    use crate::{RuleTrait, SmartCalc, SmartCalcConfig};
    struct Flaky { calls: core::cell::Cell<u32> }
    impl RuleTrait for Flaky {
        fn name(&self) -> String { "flaky".to_string() }
        fn call(&self, _: &SmartCalcConfig, fields: &alloc::collections::BTreeMap<String, TokenType>) -> Option<TokenType> {
            self.calls.set(self.calls.get() + 1);
            if self.calls.get() == 1 { return None; }
            match fields.get("n") { Some(TokenType::Number(n, _)) => Some(TokenType::Number(n * 2.0, NumberType::Decimal)), _ => None }
        }
    }
    let mut calc = SmartCalc::default();
    assert!(calc.add_rule("en".to_string(), alloc::vec!["{NUMBER:n} foo".to_string()], Rc::new(Flaky { calls: core::cell::Cell::new(0) })));
    let first = calc.execute("en", "10 foo");
    let second = calc.execute("en", "10 foo");
    let out = |r: &crate::smartcalc::ExecuteResult| match &r.lines[0] { Some(l) => match &l.result { Ok(x) => x.output.clone(), Err(e) => e.clone() }, None => String::new() };
    assert!(out(&first) == "10");
    assert!(out(&second) == "20");
}
#[cfg(kani)]
pub fn k_replay_api_rule() {}

/// native replay of a registration sequence (engine M c18_ops order: per language en/xx, per rule 0..2: add, delete;
/// then add_type fam, add_item fam 1, add_item fam 2) + which rule names coincide; oracle: a reference list model
#[cfg(not(kani))]
pub fn k_replay_registration() {
    use crate::{RuleTrait, SmartCalc, SmartCalcConfig};
    use crate::tokinizer::RuleType;
    struct Named(String);
    impl RuleTrait for Named {
        fn name(&self) -> String { self.0.clone() }
        fn call(&self, _: &SmartCalcConfig, _: &alloc::collections::BTreeMap<String, TokenType>) -> Option<TokenType> { None }
    }
    let n: u8 = vany();
    vassume(n >= 1 && n <= 6);
    let mut seq = [0u8; 6];
    let mut i = 0usize;
    while i < n as usize { seq[i] = vany(); vassume(seq[i] < 15); i += 1; }
    let e01: bool = vany(); let e02: bool = vany(); let e12: bool = vany();
    vassume(!(e01 && e02) || e12);
    let name_of = |k: usize| -> String { match k { 0 => "n0".to_string(), 1 => if e01 { "n0".to_string() } else { "n1".to_string() }, _ => if e02 { "n0".to_string() } else if e12 { if e01 { "n0".to_string() } else { "n1".to_string() } } else { "n2".to_string() } } };
    let rules: [Rc<dyn RuleTrait>; 3] = [Rc::new(Named(name_of(0))), Rc::new(Named(name_of(1))), Rc::new(Named(name_of(2)))];
    let mut calc = SmartCalc::default();
    let mut model: Vec<usize> = Vec::new();           // rule indices registered for "en", in order
    let mut fam: Option<Vec<usize>> = None;
    i = 0;
    while i < n as usize {
        let op = seq[i] as usize;
        if op < 12 {
            let lang = if op < 6 { "en" } else { "xx" };
            let r = (op % 6) / 2;
            if op % 2 == 0 {
                let got = calc.add_rule(lang.to_string(), Vec::new(), rules[r].clone());
                assert!(got == (lang == "en"));
                if got { model.push(r); }
            } else {
                let got = calc.delete_rule(lang.to_string(), name_of(r));
                let pos = if lang == "en" { model.iter().position(|k| name_of(*k) == name_of(r)) } else { None };
                assert!(got == pos.is_some());
                if let Some(p) = pos { model.remove(p); }
            }
        } else if op == 12 {
            let got = calc.add_dynamic_type("fam");
            assert!(got == fam.is_none());
            if got { fam = Some(Vec::new()); }
        } else {
            let idx = op - 12;
            let got = calc.add_dynamic_type_item("fam", idx, "{value} u", Vec::new(), "{value}", "{value}", alloc::vec![alloc::format!("u{}", idx)], None, None, None);
            let want = match &fam { Some(v) => !v.contains(&idx), None => false };
            assert!(got == want);
            if got { fam.as_mut().unwrap().push(idx); }
        }
        // the calculator's own tables equal the model's
        let cfg = crate::smartcalc::verif_k_local::config_of(&calc);
        let api: Vec<&Rc<dyn RuleTrait>> = cfg.rule.get("en").unwrap().iter().filter_map(|x| match x { RuleType::API { rule, .. } => Some(rule), _ => None }).collect();
        assert!(api.len() == model.len());
        let mut k = 0usize;
        while k < api.len() { assert!(Rc::ptr_eq(api[k], &rules[model[k]])); k += 1; }
        match (&fam, cfg.types.get("fam")) {
            (None, None) => (),
            (Some(v), Some(t)) => { assert!(t.len() == v.len()); for x in v.iter() { assert!(t.contains_key(x)); } }
            _ => assert!(false),
        }
        i += 1;
    }
}
#[cfg(kani)]
pub fn k_replay_registration() {}

/// native witness for the set_text line-splitting spec: (n, n-1 separator kinds, n "line is empty" flags);
/// the text "l0<sep>l1..." with lines "1" or "" must give n slots, Some("1") resp. None, in order
#[cfg(not(kani))]
pub fn k_replay_set_text_lines() {
    let n: u8 = vany();
    vassume(n >= 1 && n <= 6);
    let mut seps = [0u8; 6];
    let mut i = 1usize;
    while i < n as usize { seps[i] = vany(); i += 1; }
    let mut empty = [false; 6];
    i = 0;
    while i < n as usize { empty[i] = vany(); i += 1; }
    let mut text = String::new();
    i = 0;
    while i < n as usize {
        if i > 0 { text.push_str(if seps[i] == 1 { "\r\n" } else { "\n" }); }
        if !empty[i] { text.push_str("1"); }
        i += 1;
    }
    let calc = crate::SmartCalc::default();
    let r = calc.execute("en", text);
    assert!(r.status);
    assert!(r.lines.len() == n as usize);
    i = 0;
    while i < n as usize {
        match &r.lines[i] {
            Some(x) => assert!(!empty[i] && x.result.as_ref().map(|v| v.output.as_str()) == Ok("1")),
            None => assert!(empty[i]),
        }
        i += 1;
    }
}
#[cfg(kani)]
pub fn k_replay_set_text_lines() {}

/// update_currency natively: (0 = currency codes, 1 = aliases, 2 = an unknown name; the new rate): for EVERY configured
/// code / alias on a fresh calculator: success, and afterwards the rate table differs from the old one at exactly that
/// currency, where it holds the new rate; an unknown name fails and changes nothing
#[cfg(not(kani))]
pub fn k_replay_update_currency() {
    let kind: u8 = vany(); let rate: f64 = vany();
    vassume(kind <= 2);
    let names: Vec<(String, Option<Rc<CurrencyInfo>>)> = {
        let calc = crate::SmartCalc::default();
        let cfg = crate::smartcalc::verif_k_local::config_of(&calc);
        match kind {
            0 => cfg.currency.iter().map(|(k, v)| (k.to_uppercase(), Some(v.clone()))).collect(),
            1 => cfg.currency_alias.iter().map(|(k, v)| (k.to_uppercase(), Some(v.clone()))).collect(),
            _ => alloc::vec![("zzzz".to_string(), None)],
        }
    };
    for (name, target) in names.iter() {
        let mut calc = crate::SmartCalc::default();
        let before: Vec<(String, f64)> = crate::smartcalc::verif_k_local::config_of(&calc).currency_rate.iter().map(|(k, v)| (k.code.clone(), *v)).collect();
        let ok = calc.update_currency(name, rate);
        assert!(ok == target.is_some());
        let cfg = crate::smartcalc::verif_k_local::config_of(&calc);
        for (code, old) in before.iter() {
            let now = cfg.currency_rate.iter().find(|(k, _)| &k.code == code).map(|(_, v)| *v).expect("rate kept");
            match target { Some(t) if &t.code == code => assert!(now == rate || (now.is_nan() && rate.is_nan())), _ => assert!(now == *old) }
        }
        if let Some(t) = target { assert!(cfg.currency_rate.iter().any(|(k, v)| k.code == t.code && (*v == rate || rate.is_nan()))); }
    }
}
#[cfg(kani)]
pub fn k_replay_update_currency() {}

/// one API rule with two patterns natively: it declines its first pattern's match and accepts the second's
#[cfg(not(kani))]
pub fn k_replay_api_rule2() {
    use crate::{RuleTrait, SmartCalc, SmartCalcConfig};
    struct Two;
    impl RuleTrait for Two {
        fn name(&self) -> String { "two".to_string() }
        fn call(&self, _: &SmartCalcConfig, fields: &alloc::collections::BTreeMap<String, TokenType>) -> Option<TokenType> {
            match fields.get("m") { Some(TokenType::Number(m, _)) => Some(TokenType::Number(m + 100.0, NumberType::Decimal)), _ => None }
        }
    }
    let mut calc = SmartCalc::default();
    assert!(calc.add_rule("en".to_string(), alloc::vec!["{NUMBER:n} foo".to_string(), "foo {NUMBER:m}".to_string()], Rc::new(Two)));
    let r = calc.execute("en", "1 foo 2");
    let out = match &r.lines[0] { Some(l) => match &l.result { Ok(x) => x.output.clone(), Err(e) => e.clone() }, None => String::new() };
    assert!(out == "103");
}
#[cfg(kani)]
pub fn k_replay_api_rule2() {}

/// history independence of unit conversion natively: a user-defined family with an offset step; the same conversion
/// must give the same answer whatever was converted before on the same calculator
#[cfg(not(kani))]
pub fn k_replay_unit_history() {
    let mk = || {
        let mut calc = crate::SmartCalc::default();
        calc.set_decimal_seperator(".".to_string());
        calc.set_thousand_separator(",".to_string());
        assert!(calc.add_dynamic_type("temp"));
        assert!(calc.add_dynamic_type_item("temp", 1, "{value} C", alloc::vec!["{NUMBER:value} celsius"], "{value} + 273", "{value}", alloc::vec!["celsius".to_string()], None, None, None));
        assert!(calc.add_dynamic_type_item("temp", 2, "{value} K", alloc::vec!["{NUMBER:value} kelvin"], "{value}", "{value} - 273", alloc::vec!["kelvin".to_string()], None, None, None));
        calc
    };
    let out = |r: &crate::smartcalc::ExecuteResult| match &r.lines[0] { Some(l) => match &l.result { Ok(x) => x.output.clone(), Err(e) => e.clone() }, None => String::new() };
    let fresh = mk();
    let want = out(&fresh.execute("en", "20 celsius to kelvin"));
    let used = mk();
    let _ = used.execute("en", "100 celsius to kelvin");
    let got = out(&used.execute("en", "20 celsius to kelvin"));
    assert!(got == want);
    let used2 = mk();
    let _ = used2.execute("en", "7 kelvin to celsius");
    let got2 = out(&used2.execute("en", "20 celsius to kelvin"));
    assert!(got2 == want);
}
#[cfg(kani)]
pub fn k_replay_unit_history() {}

/// a user-defined unit natively: (the amount is held by a variable): '12 foo to bar' / 'amount = 12' + 'amount foo to bar'
#[cfg(not(kani))]
pub fn k_replay_unit_recognition() {
    let by_var: u8 = vany();
    let mut calc = crate::SmartCalc::default();
    calc.set_decimal_seperator(".".to_string());
    calc.set_thousand_separator(",".to_string());
    assert!(calc.add_dynamic_type("fam"));
    assert!(calc.add_dynamic_type_item("fam", 1, "{value} foo", alloc::vec!["{NUMBER:value} foo"], "{value} / 2", "{value}", alloc::vec!["foo".to_string()], None, None, None));
    assert!(calc.add_dynamic_type_item("fam", 2, "{value} bar", alloc::vec!["{NUMBER:value} bar"], "{value}", "{value} * 2", alloc::vec!["bar".to_string()], None, None, None));
    let out = |r: &crate::smartcalc::ExecuteResult, i: usize| match &r.lines[i] { Some(l) => match &l.result { Ok(x) => x.output.clone(), Err(e) => e.clone() }, None => String::new() };
    let direct = calc.execute("en", "12 foo to bar");
    let want = out(&direct, 0);
    assert!(want == "6 bar");
    if by_var == 1 {
        let r = calc.execute("en", "amount = 12\namount foo to bar");
        assert!(out(&r, 1) == want);
    }
}
#[cfg(kani)]
pub fn k_replay_unit_recognition() {}

/// the format setters natively: (index of the setter): called in both orders with values that collide with the current ones
#[cfg(not(kani))]
pub fn k_replay_setters() {
    let _which: u8 = vany();
    let mut a = crate::SmartCalc::default();          // default: ',' decimal, '.' thousands
    a.set_thousand_separator(",".to_string());
    a.set_decimal_seperator(".".to_string());
    let mut b = crate::SmartCalc::default();
    b.set_decimal_seperator(".".to_string());
    b.set_thousand_separator(",".to_string());
    for calc in [&a, &b].iter() {
        let cfg = crate::smartcalc::verif_k_local::config_of(calc);
        assert!(cfg.decimal_seperator == "." && cfg.thousand_separator == ",");
    }
    let mut c = crate::SmartCalc::default();
    c.set_number_configuration(7, false, false);
    c.set_percentage_configuration(0, false, true);
    c.set_money_configuration(true, false);
    let cfg = crate::smartcalc::verif_k_local::config_of(&c);
    assert!(cfg.number_config.decimal_digits == 7 && !cfg.number_config.remove_fract_if_zero && !cfg.number_config.use_fract_rounding);
    assert!(cfg.percentage_config.decimal_digits == 0 && !cfg.percentage_config.remove_fract_if_zero && cfg.percentage_config.use_fract_rounding);
    assert!(cfg.money_config.remove_fract_if_zero && !cfg.money_config.use_fract_rounding);
}
#[cfg(kani)]
pub fn k_replay_setters() {}

/// a re-used session keeps its variables across set_language natively
#[cfg(not(kani))]
pub fn k_replay_set_language() {
    let calc = crate::SmartCalc::default();
    let mut session = Session::new();
    session.set_language("en".to_string());
    session.set_text("rate = 5".to_string());
    let _ = calc.execute_session(&session);
    session.set_language("tr".to_string());
    session.set_text("rate * 2".to_string());
    let r = calc.execute_session(&session);
    let out = match &r.lines[0] { Some(l) => match &l.result { Ok(x) => x.output.clone(), Err(e) => e.clone() }, None => String::new() };
    assert!(out == "10");
}
#[cfg(kani)]
pub fn k_replay_set_language() {}

/// one API rule, two places of the line match its pattern: both are rewritten, each from its own number
#[cfg(not(kani))]
pub fn k_replay_api_rule_places() {
    use crate::{RuleTrait, SmartCalc, SmartCalcConfig};
    struct Places;
    impl RuleTrait for Places {
        fn name(&self) -> String { "places".to_string() }
        fn call(&self, config: &SmartCalcConfig, fields: &alloc::collections::BTreeMap<String, TokenType>) -> Option<TokenType> {
            match fields.get("n") { Some(TokenType::Number(n, _)) => Some(TokenType::Money(n * 10.0, config.get_currency("usd".to_string())?)), _ => None }
        }
    }
    let mut calc = SmartCalc::default();
    assert!(calc.add_rule("en".to_string(), alloc::vec!["{NUMBER:n} foo".to_string()], Rc::new(Places)));
    let r = calc.execute("en", "1 foo + 2 foo");
    let out = match &r.lines[0] { Some(l) => match &l.result { Ok(x) => x.output.clone(), Err(e) => e.clone() }, None => String::new() };
    assert!(out == "$30,00");
}
#[cfg(kani)]
pub fn k_replay_api_rule_places() {}

/// a user-defined family whose steps do not commute natively: (source index, target index): a to b equals the declared
/// programs applied one after the other
#[cfg(not(kani))]
pub fn k_replay_unit_chain() {
    let a: u8 = vany(); let b: u8 = vany();
    vassume(a >= 1 && a <= 4 && b >= 1 && b <= 4);
    let mut calc = crate::SmartCalc::default();
    calc.set_decimal_seperator(".".to_string());
    calc.set_thousand_separator(",".to_string());
    assert!(calc.add_dynamic_type("chain"));
    let names = ["", "ua", "ub", "uc", "ud"];
    let up = ["", "{value} * 2 + 1", "{value} * 3", "{value} + 5", "{value}"];
    let down = ["", "{value}", "{value} * 2 + 1", "{value} * 3", "{value} + 5"];
    for i in 1..5usize {
        assert!(calc.add_dynamic_type_item("chain", i, &alloc::format!("{{value}} {}", names[i]), alloc::vec![&alloc::format!("{{NUMBER:value}} {}", names[i])[..]], up[i], down[i], alloc::vec![names[i].to_string()], Some(0), None, None));
    }
    let f_up = |i: usize, v: f64| match i { 1 => v * 2.0 + 1.0, 2 => v * 3.0, 3 => v + 5.0, _ => v };
    let f_down = |i: usize, v: f64| match i { 2 => v * 2.0 + 1.0, 3 => v * 3.0, 4 => v + 5.0, _ => v };
    for amount in [1.0f64, 4.0].iter() {
        let mut want = *amount;
        let (mut i, t) = (a as usize, b as usize);
        while i != t {
            if i < t { want = f_up(i, want); i += 1; } else { want = f_down(i, want); i -= 1; }
        }
        let r = calc.execute("en", alloc::format!("{} {} to {}", amount, names[a as usize], names[b as usize]));
        let out = match &r.lines[0] { Some(l) => match &l.result { Ok(x) => x.output.clone(), Err(e) => e.clone() }, None => String::new() };
        assert!(out == alloc::format!("{} {}", want, names[b as usize]));
    }
}
#[cfg(kani)]
pub fn k_replay_unit_chain() {}

/// a rule whose pattern names an expected text natively: (three letters of the expected text, three letters of the
/// line's word): the rule fires exactly when the two are equal ignoring case
#[cfg(not(kani))]
pub fn k_replay_text_field() {
    use crate::{RuleTrait, SmartCalc, SmartCalcConfig};
    struct Coin;
    impl RuleTrait for Coin {
        fn name(&self) -> String { "coin".to_string() }
        fn call(&self, _: &SmartCalcConfig, fields: &alloc::collections::BTreeMap<String, TokenType>) -> Option<TokenType> {
            match fields.get("count") { Some(TokenType::Number(n, _)) => Some(TokenType::Number(n * 1000.0, NumberType::Decimal)), _ => None }
        }
    }
    let mut e = String::new(); let mut t = String::new();
    let mut i = 0;
    while i < 3 { let c: u8 = vany(); vassume(b"qxzjQXZJ".contains(&c)); e.push(c as char); i += 1; }
    i = 0;
    while i < 3 { let c: u8 = vany(); vassume(b"qxzjQXZJ".contains(&c)); t.push(c as char); i += 1; }
    let mut calc = SmartCalc::default();
    calc.set_decimal_seperator(".".to_string());
    calc.set_thousand_separator(",".to_string());
    assert!(calc.add_rule("en".to_string(), alloc::vec![alloc::format!("{{NUMBER:count}} {{TEXT:coin:{}}}", e)], Rc::new(Coin)));
    let r = calc.execute("en", alloc::format!("3 {}", t));
    let got = match &r.lines[0] { Some(l) => match &l.result { Ok(x) => match core::ops::Deref::deref(&x.ast) { SmartCalcAstType::Item(it) => it.get_underlying_number(), _ => f64::NAN }, Err(_) => f64::NAN }, None => f64::NAN };
    let fires = got == 3000.0;
    assert!(fires == (e.to_lowercase() == t.to_lowercase()));
}
#[cfg(kani)]
pub fn k_replay_text_field() {}
