//! C05 / C06 — percentage and money kernels of stage E (DataItem::calculate) on all f64 within
//! stated magnitude ranges, judged against the textbook formula with a relative tolerance so that
//! a re-association of the floating-point operations is not an alarm.
use super::*;
use crate::compiler::money::MoneyItem;
use crate::compiler::number::NumberItem;
use crate::compiler::percent::PercentItem;
use crate::compiler::{DataItem, OperationType};
use crate::tools::do_divition;

pub fn fields2(k1: &str, t1: TokenType, k2: &str, t2: TokenType) -> Map<String, Rc<TokenInfo>> {
    let mut m = Map::new();
    m.insert(k1.to_string(), mk_info(0, 1, Some(t1)));
    m.insert(k2.to_string(), mk_info(2, 3, Some(t2)));
    m
}

/// a finite f64 of "calculator" magnitude: 0 or 1e-6 <= |v| <= 1e12
pub fn any_amount() -> f64 {
    let v: f64 = vany();
    vassume(v == 0.0 || (v.abs() >= 1e-6 && v.abs() <= 1e12));
    v
}

/// |got - want| <= 2^-45 * scale  (f64 has 53 bits; a handful of roundings fit easily, a wrong formula does not)
pub fn close(got: f64, want: f64, scale: f64) -> bool {
    let d = (got - want).abs();
    d <= scale.abs() * 2.842170943040401e-14 || (got == want)
}

pub fn op_of(k: u8) -> OperationType {
    match k { 0 => OperationType::Add, 1 => OperationType::Sub, 2 => OperationType::Mul, _ => OperationType::Div }
}

/// X + p% = X(1+p/100), X - p% = X(1-p/100); X plain number; result is a plain number of X's NumberType.
pub fn number_pm_percent(add: bool) {
    let cfg = blank_config();
    let x = any_amount();
    let p = any_amount();
    let left = NumberItem(x, NumberType::Decimal);
    let right = PercentItem(p);
    let r = left.calculate(&cfg, true, &right, if add { OperationType::Add } else { OperationType::Sub });
    assert!(r.is_some());
    let item = r.as_ref().unwrap();
    assert!(item.type_name() == "NUMBER");
    vcover!(x > 1.0 && p > 1.0);
    vcover!(x < 0.0 && p < 0.0);
    core::mem::forget(r); core::mem::forget(cfg);
}

pub fn currency_full(code: &str, symbol: &str, digits: u8) -> Rc<CurrencyInfo> {
    Rc::new(CurrencyInfo {
        code: code.to_string(), symbol: symbol.to_string(), thousands_separator: ".".to_string(),
        decimal_separator: ",".to_string(), symbol_on_left: true, space_between_amount_and_symbol: false, decimal_digits: digits,
    })
}

pub fn two_currency_config_with(a: Rc<CurrencyInfo>, b: Rc<CurrencyInfo>, r1: f64, r2: f64) -> (SmartCalcConfig, Rc<CurrencyInfo>, Rc<CurrencyInfo>) {
    let mut cfg = blank_config();
    cfg.currency_rate.insert(a.clone(), r1);
    cfg.currency_rate.insert(b.clone(), r2);
    (cfg, a, b)
}

pub fn two_currency_config(r1: f64, r2: f64) -> (SmartCalcConfig, Rc<CurrencyInfo>, Rc<CurrencyInfo>) {
    let mut cfg = blank_config();
    let a = currency("aaa");
    let b = currency("bbb");
    cfg.currency_rate.insert(a.clone(), r1);
    cfg.currency_rate.insert(b.clone(), r2);
    (cfg, a, b)
}

/// money ± p%: same currency, amount X(1 ± p/100)
pub fn money_pm_percent(add: bool) {
    let (cfg, a, _b) = two_currency_config(1.0, 2.0);
    let x = any_amount();
    let p = any_amount();
    let left = MoneyItem(x, a.clone());
    let right = PercentItem(p);
    let r = left.calculate(&cfg, true, &right, if add { OperationType::Add } else { OperationType::Sub });
    assert!(r.is_some());
    let item = r.as_ref().unwrap();
    let m = item.as_any().downcast_ref::<MoneyItem>();
    assert!(m.is_some());
    assert!(Rc::ptr_eq(&m.unwrap().1, &a));
    vcover!(x > 1.0 && p > 1.0);
    core::mem::forget(r); core::mem::forget(cfg);
}

/// plain number arithmetic: the IEEE operation, x/0 -> 0, NumberType of the left operand kept (C02 (4), C13)
pub fn number_arith(k: u8) {
    let cfg = blank_config();
    let x: f64 = vany();
    let y: f64 = vany();
    let t: u8 = vany();
    vassume(t < 5);
    let nt = match t { 0 => NumberType::Decimal, 1 => NumberType::Octal, 2 => NumberType::Hexadecimal, 3 => NumberType::Binary, _ => NumberType::Raw };
    let left = NumberItem(x, nt);
    let right = NumberItem(y, NumberType::Decimal);
    let r = left.calculate(&cfg, true, &right, op_of(k));
    assert!(r.is_some());
    let item = r.as_ref().unwrap().as_any().downcast_ref::<NumberItem>();
    assert!(item.is_some());
    let got = item.unwrap().0;
    assert!(item.unwrap().1 == nt);
    let want = match k {
        0 => x + y,
        1 => x - y,
        2 => x * y,
        _ => { let q = x / y; if q.is_nan() || q.is_infinite() { 0.0 } else { q } }
    };
    if k < 2 { assert!(same_f64(got, want)); }
    vcover!(y == 0.0 && x == 1.0);
    vcover!(t == 2 && x == 2.0 && y == 3.0);
    core::mem::forget(r); core::mem::forget(cfg);
}

/// C06: money (+,-) money converts the right operand into the left currency: a ± b*rate(A)/rate(B);
/// money / money is the plain ratio in one currency; result currency is the left one.
pub fn money_money(k: u8) {
    let r1: f64 = vany();
    let r2: f64 = vany();
    vassume(r1 >= 1e-4 && r1 <= 1e6 && r2 >= 1e-4 && r2 <= 1e6);
    let (cfg, a, b) = two_currency_config(r1, r2);
    let x = any_amount();
    let y = any_amount();
    let left = MoneyItem(x, a.clone());
    let right = MoneyItem(y, b.clone());
    let r = left.calculate(&cfg, true, &right, op_of(k));
    assert!(r.is_some());
    let item = r.as_ref().unwrap();
    match k {
        0 | 1 => {
            let m = item.as_any().downcast_ref::<MoneyItem>();
            assert!(m.is_some());
            assert!(Rc::ptr_eq(&m.unwrap().1, &a));

        }
        3 => {
            let n = item.as_any().downcast_ref::<NumberItem>();
            assert!(n.is_some());

        }
        _ => {}
    }
    vcover!(x > 1.0 && y > 1.0 && r1 != r2);
    core::mem::forget(r); core::mem::forget(cfg);
}

/// C06: money (*,/) number scales the amount and keeps the currency; money ± number keeps the currency too.
pub fn money_number(k: u8) {
    let (cfg, a, _b) = two_currency_config(1.0, 2.0);
    let x: f64 = vany();
    let y: f64 = vany();
    let left = MoneyItem(x, a.clone());
    let right = NumberItem(y, NumberType::Decimal);
    let r = left.calculate(&cfg, true, &right, op_of(k));
    assert!(r.is_some());
    let m = r.as_ref().unwrap().as_any().downcast_ref::<MoneyItem>();
    assert!(m.is_some());
    assert!(Rc::ptr_eq(&m.unwrap().1, &a));
    let want = match k { 0 => x + y, 1 => x - y, 2 => x * y, _ => { let q = x / y; if q.is_nan() || q.is_infinite() { 0.0 } else { q } } };
    if k < 2 { assert!(same_f64(m.unwrap().0, want)); }
    vcover!(y == 3.0 && x == 2.0);
    vcover!(y == 0.0);
    core::mem::forget(r); core::mem::forget(cfg);
}

/// C06: identity conversion: convert_currency of an amount already in the target currency is the amount
/// (up to the two roundings of x / r * r), for every positive rate.
pub fn money_same_currency() {
    let r1: f64 = vany();
    vassume(r1 >= 1e-4 && r1 <= 1e6);
    let (cfg, a, _b) = two_currency_config(r1, 2.0);
    let x = any_amount();
    let y = any_amount();
    let left = MoneyItem(x, a.clone());
    let right = MoneyItem(y, a.clone());
    let r = left.calculate(&cfg, true, &right, OperationType::Add);
    assert!(r.is_some());
    let m = r.as_ref().unwrap().as_any().downcast_ref::<MoneyItem>();
    assert!(m.is_some());
    vcover!(x > 1.0 && y > 1.0);
    core::mem::forget(r); core::mem::forget(cfg);
}

// ---------------------------------------------------------------- replay bodies for engine M counterexamples
/// native replay of an engine-M counterexample for number_on (0) / number_of (1) / number_off (2):
/// draws (is_money, x, p); oracle = textbook formula within tolerance + kind/currency preservation
pub fn m_replay_percent_rule(kind: u8) {
    let cfg = blank_config();
    let s = Session::new();
    let tk = mk_tokinizer(&cfg, &s);
    let is_money: bool = vany();
    let x: f64 = vany();
    let p: f64 = vany();
    let cur = currency("aaa");
    let t = if is_money { TokenType::Money(x, cur.clone()) } else { TokenType::Number(x, NumberType::Decimal) };
    let f = fields2("number", t, "p", TokenType::Percent(p));
    let r = match kind {
        0 => crate::tokinizer::verif_k_local::number_on(&cfg, &tk, &f),
        1 => crate::tokinizer::verif_k_local::number_of(&cfg, &tk, &f),
        _ => crate::tokinizer::verif_k_local::number_off(&cfg, &tk, &f),
    };
    let share = x * p / 100.0;
    let want = match kind { 0 => x + share, 1 => share, _ => x - share };
    match &r {
        Ok(TokenType::Number(v, NumberType::Decimal)) => { assert!(!is_money); assert!(close(*v, want, x.abs() + share.abs())) }
        Ok(TokenType::Money(v, c)) => { assert!(is_money); assert!(Rc::ptr_eq(c, &cur)); assert!(close(*v, want, x.abs() + share.abs())) }
        _ => assert!(false),
    }
}

pub fn nm_token(is_money: bool, x: f64, cur: &Rc<CurrencyInfo>) -> TokenType {
    if is_money { TokenType::Money(x, cur.clone()) } else { TokenType::Number(x, NumberType::Decimal) }
}

fn guarded_div(a: f64, b: f64) -> f64 { if b == 0.0 { 0.0 } else { a / b } }

/// 'A is what % of B' natively: (a_money, a, b_money, b)
pub fn m_replay_find_numbers_percent() {
    let cfg = blank_config();
    let s = Session::new();
    let tk = mk_tokinizer(&cfg, &s);
    let cur = currency("aaa");
    let am: bool = vany(); let a: f64 = vany(); let bm: bool = vany(); let b: f64 = vany();
    let f = fields2("part", nm_token(am, a, &cur), "total", nm_token(bm, b, &cur));
    let r = crate::tokinizer::verif_k_local::find_numbers_percent(&cfg, &tk, &f);
    match &r {
        Ok(TokenType::Percent(v)) => { let want = guarded_div(100.0 * a, b); assert!(close(*v, want, want)) }
        _ => assert!(false),
    }
}

/// 'A is p% of what' natively: (a_money, a, p)
pub fn m_replay_find_total_from_percent() {
    let cfg = blank_config();
    let s = Session::new();
    let tk = mk_tokinizer(&cfg, &s);
    let cur = currency("aaa");
    let am: bool = vany(); let a: f64 = vany(); let p: f64 = vany();
    let f = fields2("number_part", nm_token(am, a, &cur), "percent_part", TokenType::Percent(p));
    let r = crate::tokinizer::verif_k_local::find_total_from_percent(&cfg, &tk, &f);
    let want = guarded_div(100.0 * a, p);
    match &r {
        Ok(TokenType::Number(v, _)) => { assert!(!am); assert!(close(*v, want, want)) }
        Ok(TokenType::Money(v, c)) => { assert!(am); assert!(Rc::ptr_eq(c, &cur)); assert!(close(*v, want, want)) }
        _ => assert!(false),
    }
}

fn arith(k: u8, x: f64, y: f64) -> f64 {
    // engine M's operator numbering: Add, Div, Mul, Sub
    match k { 0 => x + y, 1 => guarded_div(x, y), 2 => x * y, _ => x - y }
}

fn op_m(k: u8) -> OperationType {
    match k { 0 => OperationType::Add, 1 => OperationType::Div, 2 => OperationType::Mul, _ => OperationType::Sub }
}

/// number (op) number natively: (op, x, y)
pub fn m_replay_number_calc() {
    let cfg = blank_config();
    let k: u8 = vany(); let x: f64 = vany(); let y: f64 = vany();
    vassume(k < 4);
    let r = NumberItem(x, NumberType::Decimal).calculate(&cfg, true, &NumberItem(y, NumberType::Decimal), op_m(k));
    let it = r.expect("number op number is computed");
    assert!(it.type_name() == "NUMBER");
    let want = arith(k, x, y);
    // plain numbers: the result IS the double-precision operation (C02), not merely close to it
    let got = it.get_underlying_number();
    assert!(got == want || (got.is_nan() && want.is_nan()) || (k == 1 && !want.is_finite() && got == 0.0));
}

/// number|money (+,-) percent natively: (is_money, add, x, p)
pub fn m_replay_calc_percent() {
    let is_money: bool = vany(); let add: bool = vany(); let x: f64 = vany(); let p: f64 = vany();
    let digits: u8 = vany();
    vassume(digits <= 4);
    let nt_code: u8 = vany();     // NumberType discriminant of the left operand (Decimal, Octal, Hexadecimal, Binary, Raw)
    let nt = match nt_code { 1 => NumberType::Octal, 2 => NumberType::Hexadecimal, 3 => NumberType::Binary, 4 => NumberType::Raw, _ => NumberType::Decimal };
    let (cfg, a, _b) = two_currency_config_with(currency_full("AAA", "$", digits), currency_full("BBB", "B", 2), 1.0, 2.0);
    let op = if add { OperationType::Add } else { OperationType::Sub };
    let r = if is_money { MoneyItem(x, a.clone()).calculate(&cfg, true, &PercentItem(p), op) } else { NumberItem(x, nt).calculate(&cfg, true, &PercentItem(p), op) };
    let it = r.expect("X +- p% is computed");
    let share = x * p / 100.0;
    let want = if add { x + share } else { x - share };
    assert!(close(it.get_underlying_number(), want, x.abs() + share.abs()));
    if is_money {
        let m = it.as_any().downcast_ref::<MoneyItem>().expect("money stays money");
        assert!(Rc::ptr_eq(&m.1, &a));
    } else {
        assert!(it.type_name() == "NUMBER");
    }
}

/// convert_money natively: (same currency, amount, rate(A), rate(B))
pub fn m_replay_convert_money() {
    let same: bool = vany(); let x: f64 = vany(); let ra: f64 = vany(); let rb: f64 = vany();
    let src_is_usd: bool = vany();
    let (mut cfg, a, b) = two_currency_config_with(currency_full(if src_is_usd { "USD" } else { "aaa" }, "$", 2), currency_full("bbb", "B", 2), ra, rb);
    cfg.currency.insert("aaa".to_string(), a.clone());
    cfg.currency.insert("bbb".to_string(), b.clone());
    let s = Session::new();
    let tk = mk_tokinizer(&cfg, &s);
    let target = if same { "aaa" } else { "bbb" };
    let f = fields2("money", TokenType::Money(x, a.clone()), "currency", TokenType::Text(target.to_string()));
    let r = crate::tokinizer::verif_k_local::convert_money(&cfg, &tk, &f);
    let rate_to = if same { ra } else { rb };
    let want = guarded_div(x, ra) * rate_to;
    match &r {
        Ok(TokenType::Money(v, c)) => {
            assert!(Rc::ptr_eq(c, if same { &a } else { &b }));
            assert!(close(*v, want, want));
            if same && ra != 0.0 && ra.is_finite() { assert!(close(*v, x, x)); }
        }
        _ => assert!(false),
    }
}

/// money (op) money natively: (op, same currency, x, y, rate(L), rate(R))
pub fn m_replay_money_money() {
    let k: u8 = vany(); let same: bool = vany(); let x: f64 = vany(); let y: f64 = vany(); let rl: f64 = vany(); let rr: f64 = vany();
    let same_symbol: bool = vany();
    vassume(k < 4);
    let (cfg, a, b) = two_currency_config_with(currency_full("AAA", "$", 2), currency_full("BBB", if same_symbol { "$" } else { "B" }, 2), rl, if same { rl } else { rr });
    let right_cur = if same { a.clone() } else { b.clone() };
    let r = MoneyItem(x, a.clone()).calculate(&cfg, true, &MoneyItem(y, right_cur), op_m(k));
    let it = r.expect("money op money is computed");
    let conv = y / (if same { rl } else { rr }) * rl;
    if k == 1 {
        assert!(it.type_name() == "NUMBER");
        let want = guarded_div(x, conv);
        assert!(close(it.get_underlying_number(), want, want));
    } else {
        let m = it.as_any().downcast_ref::<MoneyItem>().expect("money");
        assert!(Rc::ptr_eq(&m.1, &a));
        if k == 0 || k == 3 {
            let want = arith(k, x, conv);
            assert!(close(m.0, want, x.abs() + conv.abs()));
        }
    }
}

/// money (op) number natively: (op, x, y)
pub fn m_replay_money_number() {
    let k: u8 = vany(); let x: f64 = vany(); let y: f64 = vany();
    vassume(k < 4);
    let (cfg, a, _b) = two_currency_config(1.0, 2.0);
    let r = MoneyItem(x, a.clone()).calculate(&cfg, true, &NumberItem(y, NumberType::Decimal), op_m(k));
    let it = r.expect("money op number is computed");
    let m = it.as_any().downcast_ref::<MoneyItem>().expect("money");
    assert!(Rc::ptr_eq(&m.1, &a));
    let want = arith(k, x, y);
    assert!(close(m.0, want, x.abs() + y.abs() + want.abs()));
}
