//! C10 / C11 / C13 / C14 — native replay bodies (own oracles) for engine-M counterexamples, and
//! chrono model-validation harnesses for engine K.
use super::*;
use crate::compiler::duration::DurationItem;
use crate::compiler::number::NumberItem;
use crate::compiler::{DataItem, OperationType};
use crate::constants::ConstantType;
use chrono::Duration;
use core::ops::Deref;

const MAX_TD: i64 = i64::MAX / 1000;

fn unit_word(code: u8) -> &'static str {
    match code { 1 => "days", 2 => "weeks", 3 => "months", 4 => "years", 5 => "seconds", 6 => "minutes", _ => "hours" }
}

fn unit_len(code: u8) -> i64 {
    match code { 1 => 86400, 2 => 604800, 3 => 30 * 86400, 4 => 365 * 86400, 5 => 1, 6 => 60, _ => 3600 }
}

fn real_config() -> SmartCalcConfig { SmartCalcConfig::default() }

fn en_tokinizer<'a>(cfg: &'a SmartCalcConfig, s: &'a Session) -> Tokinizer<'a> {
    let mut t = mk_tokinizer(cfg, s);
    t.language = "en".to_string();
    t
}

/// duration_parse natively: (ConstantType code 1..7, count as f64)
pub fn m_replay_duration_parse() {
    let code: u8 = vany(); let x: f64 = vany();
    vassume(code >= 1 && code <= 7);
    let cfg = real_config();
    let s = Session::new();
    let tk = en_tokinizer(&cfg, &s);
    let f = crate::verif_k::c05::fields2("duration", TokenType::Number(x, NumberType::Decimal), "type", TokenType::Text(unit_word(code).to_string()));
    let r = crate::tokinizer::verif_k_local::duration_parse(&cfg, &tk, &f);
    let n = x as i64;
    let want: i128 = if code == 3 { (((n / 12) as i128) * 365 + ((n % 12) as i128) * 30) * 86400 } else { (n as i128) * (unit_len(code) as i128) };
    match &r {
        Ok(TokenType::Duration(d)) => assert!(d.num_seconds() as i128 == want),
        _ => assert!(false),
    }
}

/// as_duration natively: (ConstantType code of the target unit, D seconds)
pub fn m_replay_as_duration() {
    let code: u8 = vany(); let d: i64 = vany();
    vassume(code >= 1 && code <= 7 && d >= -MAX_TD && d <= MAX_TD);
    let cfg = real_config();
    let s = Session::new();
    let tk = en_tokinizer(&cfg, &s);
    let f = crate::verif_k::c05::fields2("source", TokenType::Duration(Duration::seconds(d)), "type", TokenType::Text(unit_word(code).to_string()));
    let r = crate::tokinizer::verif_k_local::as_duration(&cfg, &tk, &f);
    let u = unit_len(code);
    match &r {
        Ok(TokenType::Duration(got)) => assert!(got.num_seconds() == (d.abs() / u) * u),
        _ => assert!(false),
    }
}

/// duration (+|-) duration natively
pub fn m_replay_duration_calc() {
    let add: bool = vany(); let a: i64 = vany(); let b: i64 = vany();
    vassume(a.abs() <= MAX_TD / 4 && b.abs() <= MAX_TD / 4);
    let cfg = blank_config();
    let r = DurationItem(Duration::seconds(a)).calculate(&cfg, true, &DurationItem(Duration::seconds(b)), if add { OperationType::Add } else { OperationType::Sub });
    let it = r.expect("duration arithmetic is computed");
    let got = it.as_any().downcast_ref::<DurationItem>().expect("duration").get_duration().num_seconds();
    assert!(got == if add { a + b } else { a - b });
}

/// combine_durations natively: (how many parts 2..6, six durations)
pub fn m_replay_combine_durations() {
    let n: u8 = vany();
    vassume(n >= 2 && n <= 6);
    let cfg = blank_config();
    let s = Session::new();
    let tk = mk_tokinizer(&cfg, &s);
    let mut f: Map<String, Rc<TokenInfo>> = Map::new();
    let mut total: i64 = 0;
    let mut i = 0u8;
    while i < 6 {
        let d: i64 = vany();
        vassume(d.abs() <= MAX_TD / 16);
        if i < n {
            f.insert(alloc::format!("{}", i + 1), mk_info(i as usize, i as usize + 1, Some(TokenType::Duration(Duration::seconds(d)))));
            total += d;
        }
        i += 1;
    }
    let r = crate::tokinizer::verif_k_local::combine_durations(&cfg, &tk, &f);
    match &r {
        Ok(TokenType::Duration(got)) => assert!(got.num_seconds() == total),
        _ => assert!(false),
    }
}

/// DurationItem::print natively (English): the printed parts sum to |D|, counts >= 1, descending units
pub fn m_replay_duration_print() {
    let d: i64 = vany();
    vassume(d >= -MAX_TD && d <= MAX_TD);
    let cfg = real_config();
    let mut s = Session::new();
    s.set_language("en".to_string());
    let text = DurationItem(Duration::seconds(d)).print(&cfg, &s);
    let mut total: i128 = 0;
    let mut last_unit: i64 = i64::MAX;
    let mut it = text.split(' ');
    loop {
        let count = match it.next() { Some(c) if !c.is_empty() => c, _ => break };
        let word = it.next().expect("unit word");
        let c: i64 = count.parse().expect("count");
        let u: i64 = match word { "year" | "years" => 365 * 86400, "month" | "months" => 30 * 86400, "week" | "weeks" => 604800,
            "day" | "days" => 86400, "hour" | "hours" => 3600, "minute" | "minutes" => 60, "second" | "seconds" => 1, _ => panic!("unit word {}", word) };
        assert!(c >= 1);
        assert!(u < last_unit);
        if last_unit != i64::MAX { assert!((c as i128) * (u as i128) < last_unit as i128); }
        assert!((c == 1) == !word.ends_with('s'));
        last_unit = u;
        total += (c as i128) * (u as i128);
    }
    assert!(total == (d as i128).abs());
}

/// DurationItem::as_time natively: |D| mod 24 h
pub fn m_replay_as_time() {
    use chrono::Timelike;
    let d: i64 = vany();
    vassume(d >= -MAX_TD && d <= MAX_TD);
    let t = DurationItem(Duration::seconds(d)).as_time();
    assert!(t.num_seconds_from_midnight() as i64 == d.abs() % 86400);
}

/// NumberItem::print of a based / raw number natively: (NumberType discriminant, value)
pub fn m_replay_number_print() {
    let k: u8 = vany(); let x: f64 = vany();
    vassume(k >= 1 && k <= 4);
    vassume(x == x.trunc() && x.abs() <= 9007199254740992.0);
    let cfg = blank_config();
    let s = Session::new();
    let nt = match k { 1 => NumberType::Octal, 2 => NumberType::Hexadecimal, 3 => NumberType::Binary, _ => NumberType::Raw };
    let out = NumberItem(x, nt).print(&cfg, &s);
    let n = x as i64;
    let back = match k {
        1 => i64::from_str_radix(out.trim_start_matches("0o"), 8),
        2 => i64::from_str_radix(out.trim_start_matches("0x"), 16),
        3 => i64::from_str_radix(out.trim_start_matches("0b"), 2),
        _ => out.parse::<i64>(),
    };
    if k != 4 { vassume(n >= 0); }
    assert!(back == Ok(n));
}

/// number_type_convert natively: (keyword index, value)
pub fn m_replay_number_type_convert() {
    let w: u8 = vany(); let x: f64 = vany();
    vassume(w < 5 && x.is_finite());
    let word = ["hex", "hexadecimal", "octal", "binary", "decimal"][w as usize];
    let cfg = blank_config();
    let s = Session::new();
    let tk = mk_tokinizer(&cfg, &s);
    let f = crate::verif_k::c05::fields2("number", TokenType::Number(x, NumberType::Decimal), "type", TokenType::Text(word.to_string()));
    let r = crate::tokinizer::verif_k_local::number_type_convert(&cfg, &tk, &f);
    let want_t = match w { 0 | 1 => NumberType::Hexadecimal, 2 => NumberType::Octal, 3 => NumberType::Binary, _ => NumberType::Decimal };
    match &r {
        Ok(TokenType::Number(v, t)) => { assert!(*t == want_t); assert!(*v == x.round()); }
        _ => assert!(false),
    }
}

use crate::compiler::time::TimeItem;
use chrono::{NaiveDate, NaiveDateTime, NaiveTime, Timelike};

fn dt(days_from_ce0: i64, sod: u32) -> NaiveDateTime {
    // day 0 = 0001-01-01
    let date = NaiveDate::from_num_days_from_ce_opt((days_from_ce0 + 1) as i32).expect("date in range");
    NaiveDateTime::new(date, NaiveTime::from_num_seconds_from_midnight_opt(sod, 0).expect("time"))
}

/// time (+|-) duration natively: (add, second of day, D seconds); oracle: clock moved by D mod 24 h
pub fn m_replay_time_calc() {
    let add: bool = vany(); let sod: u32 = vany(); let d: i64 = vany();
    vassume(sod < 86400 && d >= -MAX_TD && d <= MAX_TD);
    let cfg = blank_config();
    let t = dt(738000, sod);
    let r = TimeItem(t, tz0()).calculate(&cfg, true, &DurationItem(Duration::seconds(d)), if add { OperationType::Add } else { OperationType::Sub });
    let it = r.expect("time +- duration is computed");
    let got = it.as_any().downcast_ref::<TimeItem>().expect("time").get_time();
    let step = (d % 86400 + 86400) % 86400;               // d mod 24 h, sign-aware
    let want = (sod as i64 + if add { step } else { 86400 - step }) % 86400;
    assert!(got.num_seconds_from_midnight() as i64 == want);
}

/// time_with_timezone natively: (second of day, source offset minutes, target offset minutes)
pub fn m_replay_time_with_timezone() {
    let sod: u32 = vany(); let cur: i32 = vany(); let tgt: i32 = vany();
    vassume(sod < 86400 && cur.abs() <= 14 * 60 && tgt.abs() <= 14 * 60);
    let cfg = blank_config();
    let s = Session::new();
    let tk = mk_tokinizer(&cfg, &s);
    let t = dt(738000, sod);
    let f = crate::verif_k::c05::fields2("time", TokenType::Time(t, TimeOffset { name: "SRC".to_string(), offset: cur }), "timezone", TokenType::Timezone("tgt".to_string(), tgt));
    let r = crate::tokinizer::verif_k_local::time_with_timezone(&cfg, &tk, &f);
    match &r {
        Ok(TokenType::Time(nt, off)) => {
            assert!(off.offset == tgt);
            let src_wall = t + Duration::minutes(cur as i64);
            let dst_wall = *nt + Duration::minutes(tgt as i64);
            assert!(src_wall == dst_wall);
        }
        _ => assert!(false),
    }
}

/// from_unixtime then to_unixtime natively
pub fn m_replay_unixtime() {
    let x: f64 = vany();
    vassume(x >= -62135596800.0 && x <= 253402300799.0);
    let cfg = blank_config();
    let s = Session::new();
    let tk = mk_tokinizer(&cfg, &s);
    let mut f: Map<String, Rc<TokenInfo>> = Map::new();
    f.insert("number".to_string(), mk_info(0, 1, Some(TokenType::Number(x, NumberType::Decimal))));
    let r = crate::tokinizer::verif_k_local::from_unixtime(&cfg, &tk, &f);
    let d = match r { Ok(TokenType::DateTime(d, _)) => d, _ => { assert!(false); return; } };
    assert!(d.timestamp() == x as i64);
    let mut g: Map<String, Rc<TokenInfo>> = Map::new();
    g.insert("data".to_string(), mk_info(0, 1, Some(TokenType::DateTime(d, tz0()))));
    match crate::tokinizer::verif_k_local::to_unixtime(&cfg, &tk, &g) {
        Ok(TokenType::Number(v, NumberType::Raw)) => assert!(v == (x as i64) as f64),
        _ => assert!(false),
    }
}

/// to_unixtime natively: (kind 0 time / 1 date / 2 date-time, day number, second of day)
pub fn m_replay_to_unixtime() {
    let k: u8 = vany(); let days: i64 = vany(); let sod: u32 = vany();
    vassume(k < 3 && days >= 0 && days <= 3652058 && sod < 86400);
    let cfg = blank_config();
    let s = Session::new();
    let tk = mk_tokinizer(&cfg, &s);
    let t = dt(days, if k == 1 { 0 } else { sod });
    let tok = match k { 0 => TokenType::Time(t, tz0()), 1 => TokenType::Date(t.date(), tz0()), _ => TokenType::DateTime(t, tz0()) };
    let mut g: Map<String, Rc<TokenInfo>> = Map::new();
    g.insert("data".to_string(), mk_info(0, 1, Some(tok)));
    let want = (days - 719162) * 86400 + if k == 1 { 0 } else { sod as i64 };
    match crate::tokinizer::verif_k_local::to_unixtime(&cfg, &tk, &g) {
        Ok(TokenType::Number(v, NumberType::Raw)) => assert!(v == want as f64),
        _ => assert!(false),
    }
}

/// 'A to B' on two dates natively
pub fn m_replay_to_duration_dates() {
    let a: i64 = vany(); let b: i64 = vany();
    vassume(a >= 0 && a <= 3652058 && b >= 0 && b <= 3652058);
    let cfg = blank_config();
    let s = Session::new();
    let tk = mk_tokinizer(&cfg, &s);
    let f = crate::verif_k::c05::fields2("source", TokenType::Date(dt(a, 0).date(), tz0()), "target", TokenType::Date(dt(b, 0).date(), tz0()));
    match crate::tokinizer::verif_k_local::to_duration(&cfg, &tk, &f) {
        Ok(TokenType::Duration(d)) => assert!(d.num_seconds() == (a - b).abs() * 86400),
        _ => assert!(false),
    }
}

/// 'T1 to T2' on two times natively: (day, second of day) x 2
pub fn m_replay_to_duration_times() {
    let d1: i64 = vany(); let s1: u32 = vany(); let d2: i64 = vany(); let s2: u32 = vany();
    vassume(d1 >= 0 && d1 <= 3652058 && d2 >= 0 && d2 <= 3652058 && s1 < 86400 && s2 < 86400);
    let cfg = blank_config();
    let s = Session::new();
    let tk = mk_tokinizer(&cfg, &s);
    let f = crate::verif_k::c05::fields2("source", TokenType::Time(dt(d1, s1), tz0()), "target", TokenType::Time(dt(d2, s2), tz0()));
    match crate::tokinizer::verif_k_local::to_duration(&cfg, &tk, &f) {
        Ok(TokenType::Duration(d)) => assert!(d.num_seconds() == ((d1 - d2) * 86400 + s1 as i64 - s2 as i64).abs()),
        _ => assert!(false),
    }
}
