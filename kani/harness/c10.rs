//! C10 / C11 / C13 / C14 — native replay bodies (own oracles) for engine-M counterexamples, and
//! chrono model-validation harnesses for engine K.
use super::*;
use crate::compiler::duration::DurationItem;
use crate::compiler::number::NumberItem;
use crate::compiler::{DataItem, OperationType};
use crate::constants::ConstantType;
use chrono::Duration;
use core::ops::Deref;
use crate::tokinizer::{TokenInfo, TokenInfoStatus, Tokinizer};
use core::cell::{Cell, RefCell};

const MAX_TD: i64 = i64::MAX / 1000;

fn unit_word(code: u8) -> &'static str {
    match code { 1 => "days", 2 => "weeks", 3 => "months", 4 => "years", 5 => "seconds", 6 => "minutes", _ => "hours" }
}

fn unit_len(code: u8) -> i64 {
    match code { 1 => 86400, 2 => 604800, 3 => 30 * 86400, 4 => 365 * 86400, 5 => 1, 6 => 60, _ => 3600 }
}

fn real_config() -> SmartCalcConfig { SmartCalcConfig::default() }

fn en_tokinizer<'a>(cfg: &'a SmartCalcConfig, s: &'a Session) -> Tokinizer<'a> {
    let mut t = mk_tokinizer(cfg, s);
    t.language = "en".to_string();
    t
}

/// duration_parse natively: (ConstantType code 1..7, count as f64)
pub fn m_replay_duration_parse() {
    let code: u8 = vany(); let x: f64 = vany();
    vassume(code >= 1 && code <= 7);
    let cfg = real_config();
    let s = Session::new();
    let tk = en_tokinizer(&cfg, &s);
    let f = crate::verif_k::c05::fields2("duration", TokenType::Number(x, NumberType::Decimal), "type", TokenType::Text(unit_word(code).to_string()));
    let r = crate::tokinizer::verif_k_local::duration_parse(&cfg, &tk, &f);
    let n = x as i64;
    let want: i128 = if code == 3 { (((n / 12) as i128) * 365 + ((n % 12) as i128) * 30) * 86400 } else { (n as i128) * (unit_len(code) as i128) };
    match &r {
        Ok(TokenType::Duration(d)) => assert!(d.num_seconds() as i128 == want),
        _ => assert!(false),
    }
}

/// as_duration natively: (ConstantType code of the target unit, D seconds)
pub fn m_replay_as_duration() {
    let code: u8 = vany(); let d: i64 = vany();
    vassume(code >= 1 && code <= 7 && d >= -MAX_TD && d <= MAX_TD);
    let cfg = real_config();
    let s = Session::new();
    let tk = en_tokinizer(&cfg, &s);
    let f = crate::verif_k::c05::fields2("source", TokenType::Duration(Duration::seconds(d)), "type", TokenType::Text(unit_word(code).to_string()));
    let r = crate::tokinizer::verif_k_local::as_duration(&cfg, &tk, &f);
    let u = unit_len(code);
    match &r {
        Ok(TokenType::Duration(got)) => assert!(got.num_seconds() == (d.abs() / u) * u),
        _ => assert!(false),
    }
}

/// duration (+|-) duration natively
pub fn m_replay_duration_calc() {
    let add: bool = vany(); let a: i64 = vany(); let b: i64 = vany();
    vassume(a.abs() <= MAX_TD / 4 && b.abs() <= MAX_TD / 4);
    let cfg = blank_config();
    let r = DurationItem(Duration::seconds(a)).calculate(&cfg, true, &DurationItem(Duration::seconds(b)), if add { OperationType::Add } else { OperationType::Sub });
    let it = r.expect("duration arithmetic is computed");
    let got = it.as_any().downcast_ref::<DurationItem>().expect("duration").get_duration().num_seconds();
    assert!(got == if add { a + b } else { a - b });
}

/// combine_durations natively: (how many parts 2..6, six durations)
pub fn m_replay_combine_durations() {
    let n: u8 = vany();
    vassume(n >= 2 && n <= 6);
    let cfg = blank_config();
    let s = Session::new();
    let tk = mk_tokinizer(&cfg, &s);
    let mut f: Map<String, Rc<TokenInfo>> = Map::new();
    let mut total: i64 = 0;
    let mut i = 0u8;
    while i < 6 {
        let d: i64 = vany();
        vassume(d.abs() <= MAX_TD / 16);
        if i < n {
            f.insert(alloc::format!("{}", i + 1), mk_info(i as usize, i as usize + 1, Some(TokenType::Duration(Duration::seconds(d)))));
            total += d;
        }
        i += 1;
    }
    let r = crate::tokinizer::verif_k_local::combine_durations(&cfg, &tk, &f);
    match &r {
        Ok(TokenType::Duration(got)) => assert!(got.num_seconds() == total),
        _ => assert!(false),
    }
}

/// DurationItem::print natively (English): the printed parts sum to |D|, counts >= 1, descending units
pub fn m_replay_duration_print() {
    let d: i64 = vany();
    vassume(d >= -MAX_TD && d <= MAX_TD);
    let cfg = real_config();
    let mut s = Session::new();
    s.set_language("en".to_string());
    let text = DurationItem(Duration::seconds(d)).print(&cfg, &s);
    let mut total: i128 = 0;
    let mut last_unit: i64 = i64::MAX;
    let mut it = text.split(' ');
    loop {
        let count = match it.next() { Some(c) if !c.is_empty() => c, _ => break };
        let word = it.next().expect("unit word");
        let c: i64 = count.parse().expect("count");
        let u: i64 = match word { "year" | "years" => 365 * 86400, "month" | "months" => 30 * 86400, "week" | "weeks" => 604800,
            "day" | "days" => 86400, "hour" | "hours" => 3600, "minute" | "minutes" => 60, "second" | "seconds" => 1, _ => panic!("unit word {}", word) };
        assert!(c >= 1);
        assert!(u < last_unit);
        if last_unit != i64::MAX { assert!((c as i128) * (u as i128) < last_unit as i128); }
        assert!((c == 1) == !word.ends_with('s'));
        last_unit = u;
        total += (c as i128) * (u as i128);
    }
    assert!(total == (d as i128).abs());
}

/// DurationItem::as_time natively: |D| mod 24 h
pub fn m_replay_as_time() {
    use chrono::Timelike;
    let d: i64 = vany();
    vassume(d >= -MAX_TD && d <= MAX_TD);
    let t = DurationItem(Duration::seconds(d)).as_time();
    assert!(t.num_seconds_from_midnight() as i64 == d.abs() % 86400);
}

/// NumberItem::print of a based / raw number natively: (NumberType discriminant, value)
pub fn m_replay_number_print() {
    let k: u8 = vany(); let x: f64 = vany();
    vassume(k >= 1 && k <= 4);
    vassume(x == x.trunc() && x.abs() <= 9007199254740992.0);
    let s = Session::new();
    let nt = match k { 1 => NumberType::Octal, 2 => NumberType::Hexadecimal, 3 => NumberType::Binary, _ => NumberType::Raw };
    let n = x as i64;
    if k != 4 { vassume(n >= 0); }
    // under the default number settings and under settings that keep two fraction digits: a based number and a
    // timestamp are integers and print as their digits whatever the decimal-number settings say
    for keep_fraction in [false, true].iter() {
        let mut cfg = blank_config();
        if *keep_fraction { cfg.number_config.decimal_digits = 2; cfg.number_config.remove_fract_if_zero = false; cfg.number_config.use_fract_rounding = true; }
        let out = NumberItem(x, nt).print(&cfg, &s);
        let back = match k {
            1 => i64::from_str_radix(out.trim_start_matches("0o"), 8),
            2 => i64::from_str_radix(out.trim_start_matches("0x"), 16),
            3 => i64::from_str_radix(out.trim_start_matches("0b"), 2),
            _ => out.parse::<i64>(),
        };
        assert!(back == Ok(n));
    }
}

/// radix print under floating-point rounding natively: (NumberType code, the solver's N): the solver's error terms
/// over-approximate double arithmetic, so the witness is looked for among N and the integers where doubles are
/// sparsest (odd integers of 2^52..2^53, the top of the i32 / u32 ranges)
#[cfg(not(kani))]
pub fn m_replay_number_print_margin() {
    let k: u8 = vany(); let x: f64 = vany();
    vassume(k >= 1 && k <= 3 && x == x.trunc() && x >= 0.0 && x <= 9007199254740992.0);
    let cfg = blank_config();
    let s = Session::new();
    let nt = match k { 1 => NumberType::Octal, 2 => NumberType::Hexadecimal, _ => NumberType::Binary };
    let mut cands: Vec<f64> = alloc::vec![x, 2147483647.0, 4294967295.0, 4503599627370495.0, 9007199254740991.0, 9007199254740989.0];
    let mut i = 0u32;
    while i < 64 { cands.push(4503599627370497.0 + 2.0 * (i as f64) * 70368744177.0); i += 1; }
    for c in cands.iter() {
        if *c > 9007199254740992.0 { continue; }
        let out = NumberItem(*c, nt).print(&cfg, &s);
        let back = match k { 1 => i64::from_str_radix(out.trim_start_matches("0o"), 8), 2 => i64::from_str_radix(out.trim_start_matches("0x"), 16), _ => i64::from_str_radix(out.trim_start_matches("0b"), 2) };
        assert!(back == Ok(*c as i64));
    }
}
#[cfg(kani)]
pub fn m_replay_number_print_margin() {}

/// number_type_convert natively: (keyword index, value)
pub fn m_replay_number_type_convert() {
    let w: u8 = vany(); let x: f64 = vany();
    vassume(w < 5 && x.is_finite());
    let word = ["hex", "hexadecimal", "octal", "binary", "decimal"][w as usize];
    let cfg = blank_config();
    let s = Session::new();
    let tk = mk_tokinizer(&cfg, &s);
    let f = crate::verif_k::c05::fields2("number", TokenType::Number(x, NumberType::Decimal), "type", TokenType::Text(word.to_string()));
    let r = crate::tokinizer::verif_k_local::number_type_convert(&cfg, &tk, &f);
    let want_t = match w { 0 | 1 => NumberType::Hexadecimal, 2 => NumberType::Octal, 3 => NumberType::Binary, _ => NumberType::Decimal };
    match &r {
        Ok(TokenType::Number(v, t)) => { assert!(*t == want_t); assert!(*v == x.round()); }
        _ => assert!(false),
    }
}

use crate::compiler::time::TimeItem;
use chrono::{NaiveDate, NaiveDateTime, NaiveTime, Timelike};

fn dt(days_from_ce0: i64, sod: u32) -> NaiveDateTime {
    // day 0 = 0001-01-01
    let date = NaiveDate::from_num_days_from_ce_opt((days_from_ce0 + 1) as i32).expect("date in range");
    NaiveDateTime::new(date, NaiveTime::from_num_seconds_from_midnight_opt(sod, 0).expect("time"))
}

/// time (+|-) duration natively: (add, second of day, D seconds); oracle: clock moved by D mod 24 h
pub fn m_replay_time_calc() {
    let add: bool = vany(); let sod: u32 = vany(); let d: i64 = vany();
    vassume(sod < 86400 && d >= -MAX_TD && d <= MAX_TD);
    let cfg = blank_config();
    let t = dt(738000, sod);
    let r = TimeItem(t, tz0()).calculate(&cfg, true, &DurationItem(Duration::seconds(d)), if add { OperationType::Add } else { OperationType::Sub });
    let it = r.expect("time +- duration is computed");
    let got = it.as_any().downcast_ref::<TimeItem>().expect("time").get_time();
    let step = (d % 86400 + 86400) % 86400;               // d mod 24 h, sign-aware
    let want = (sod as i64 + if add { step } else { 86400 - step }) % 86400;
    assert!(got.num_seconds_from_midnight() as i64 == want);
}

/// time_with_timezone natively: (second of day, source offset minutes, target offset minutes)
pub fn m_replay_time_with_timezone() {
    let sod: u32 = vany(); let cur: i32 = vany(); let tgt: i32 = vany();
    vassume(sod < 86400 && cur.abs() <= 14 * 60 && tgt.abs() <= 14 * 60);
    let cfg = blank_config();
    let s = Session::new();
    let tk = mk_tokinizer(&cfg, &s);
    let t = dt(738000, sod);
    let f = crate::verif_k::c05::fields2("time", TokenType::Time(t, TimeOffset { name: "SRC".to_string(), offset: cur }), "timezone", TokenType::Timezone("tgt".to_string(), tgt));
    let r = crate::tokinizer::verif_k_local::time_with_timezone(&cfg, &tk, &f);
    match &r {
        Ok(TokenType::Time(nt, off)) => {
            assert!(off.offset == tgt);
            let src_wall = t + Duration::minutes(cur as i64);
            let dst_wall = *nt + Duration::minutes(tgt as i64);
            assert!(src_wall == dst_wall);
        }
        _ => assert!(false),
    }
}

/// from_unixtime then to_unixtime natively
pub fn m_replay_unixtime() {
    let x: f64 = vany();
    vassume(x >= -62135596800.0 && x <= 253402300799.0);
    let cfg = blank_config();
    let s = Session::new();
    let tk = mk_tokinizer(&cfg, &s);
    let mut f: Map<String, Rc<TokenInfo>> = Map::new();
    f.insert("number".to_string(), mk_info(0, 1, Some(TokenType::Number(x, NumberType::Decimal))));
    let r = crate::tokinizer::verif_k_local::from_unixtime(&cfg, &tk, &f);
    let d = match r { Ok(TokenType::DateTime(d, _)) => d, _ => { assert!(false); return; } };
    assert!(d.timestamp() == x as i64);
    let mut g: Map<String, Rc<TokenInfo>> = Map::new();
    g.insert("data".to_string(), mk_info(0, 1, Some(TokenType::DateTime(d, tz0()))));
    match crate::tokinizer::verif_k_local::to_unixtime(&cfg, &tk, &g) {
        Ok(TokenType::Number(v, NumberType::Raw)) => assert!(v == (x as i64) as f64),
        _ => assert!(false),
    }
}

/// to_unixtime natively: (kind 0 time / 1 date / 2 date-time, day number, second of day)
pub fn m_replay_to_unixtime() {
    let k: u8 = vany(); let days: i64 = vany(); let sod: u32 = vany();
    vassume(k < 3 && days >= 0 && days <= 3652058 && sod < 86400);
    let cfg = blank_config();
    let s = Session::new();
    let tk = mk_tokinizer(&cfg, &s);
    let t = dt(days, if k == 1 { 0 } else { sod });
    let tok = match k { 0 => TokenType::Time(t, tz0()), 1 => TokenType::Date(t.date(), tz0()), _ => TokenType::DateTime(t, tz0()) };
    let mut g: Map<String, Rc<TokenInfo>> = Map::new();
    g.insert("data".to_string(), mk_info(0, 1, Some(tok)));
    let want = (days - 719162) * 86400 + if k == 1 { 0 } else { sod as i64 };
    match crate::tokinizer::verif_k_local::to_unixtime(&cfg, &tk, &g) {
        Ok(TokenType::Number(v, NumberType::Raw)) => assert!(v == want as f64),
        _ => assert!(false),
    }
}

/// 'A to B' on two dates natively
pub fn m_replay_to_duration_dates() {
    let a: i64 = vany(); let b: i64 = vany();
    vassume(a >= 0 && a <= 3652058 && b >= 0 && b <= 3652058);
    let cfg = blank_config();
    let s = Session::new();
    let tk = mk_tokinizer(&cfg, &s);
    let f = crate::verif_k::c05::fields2("source", TokenType::Date(dt(a, 0).date(), tz0()), "target", TokenType::Date(dt(b, 0).date(), tz0()));
    match crate::tokinizer::verif_k_local::to_duration(&cfg, &tk, &f) {
        Ok(TokenType::Duration(d)) => assert!(d.num_seconds() == (a - b).abs() * 86400),
        _ => assert!(false),
    }
}

/// 'T1 to T2' on two times natively: (day, second of day) x 2
pub fn m_replay_to_duration_times() {
    let d1: i64 = vany(); let s1: u32 = vany(); let d2: i64 = vany(); let s2: u32 = vany();
    vassume(d1 >= 0 && d1 <= 3652058 && d2 >= 0 && d2 <= 3652058 && s1 < 86400 && s2 < 86400);
    let cfg = blank_config();
    let s = Session::new();
    let tk = mk_tokinizer(&cfg, &s);
    // the zones the two times are written in (the stored instants are UTC: the zones must not enter the difference)
    let o1: i32 = vany(); let o2: i32 = vany();
    vassume(o1 >= -12 * 60 && o1 <= 14 * 60 && o2 >= -12 * 60 && o2 <= 14 * 60);
    let z = |o: i32| crate::types::TimeOffset { name: "Z".to_string(), offset: o };
    let f = crate::verif_k::c05::fields2("source", TokenType::Time(dt(d1, s1), z(o1)), "target", TokenType::Time(dt(d2, s2), z(o2)));
    match crate::tokinizer::verif_k_local::to_duration(&cfg, &tk, &f) {
        Ok(TokenType::Duration(d)) => assert!(d.num_seconds() == ((d1 - d2) * 86400 + s1 as i64 - s2 as i64).abs()),
        _ => assert!(false),
    }
}

// ---------------------------------------------------------------- translator validation: concrete probes through the real functions
#[cfg(not(kani))]
pub fn m_probe_all() {
    use super::std;
    use crate::compiler::money::MoneyItem;
    use crate::compiler::percent::PercentItem;
    use crate::verif_k::c05::{fields2, two_currency_config};
    let cfg = blank_config();
    let s = Session::new();
    let tk = mk_tokinizer(&cfg, &s);
    let num = |x: f64| TokenType::Number(x, NumberType::Decimal);
    let out = |label: &str, v: f64| std::println!("PROBE {} {:e}", label, v);
    let tok_val = |r: Result<TokenType, String>| -> f64 {
        match r { Ok(TokenType::Number(v, _)) | Ok(TokenType::Percent(v)) | Ok(TokenType::Money(v, _)) => v, Ok(TokenType::Duration(d)) => d.num_seconds() as f64, _ => f64::NAN }
    };
    let l = crate::tokinizer::verif_k_local::number_on(&cfg, &tk, &fields2("number", num(40.0), "p", TokenType::Percent(6.0)));
    out("number_on", tok_val(l));
    out("number_of", tok_val(crate::tokinizer::verif_k_local::number_of(&cfg, &tk, &fields2("number", num(40.0), "p", TokenType::Percent(6.0)))));
    out("number_off", tok_val(crate::tokinizer::verif_k_local::number_off(&cfg, &tk, &fields2("number", num(40.0), "p", TokenType::Percent(6.0)))));
    out("find_numbers_percent", tok_val(crate::tokinizer::verif_k_local::find_numbers_percent(&cfg, &tk, &fields2("part", num(15.0), "total", num(60.0)))));
    out("find_total_from_percent", tok_val(crate::tokinizer::verif_k_local::find_total_from_percent(&cfg, &tk, &fields2("number_part", num(20.0), "percent_part", TokenType::Percent(8.0)))));
    {
        let (mut c2, a, b) = two_currency_config(4.0, 10.0);
        c2.currency.insert("bbb".to_string(), b.clone());
        let tk2 = mk_tokinizer(&c2, &s);
        out("convert_money", tok_val(crate::tokinizer::verif_k_local::convert_money(&c2, &tk2, &fields2("money", TokenType::Money(6.0, a.clone()), "currency", TokenType::Text("bbb".to_string())))));
        let r = MoneyItem(6.0, a.clone()).calculate(&c2, true, &MoneyItem(5.0, b.clone()), OperationType::Add).unwrap();
        out("money_add_money", r.get_underlying_number());
        let r = MoneyItem(6.0, a.clone()).calculate(&c2, true, &PercentItem(50.0), OperationType::Sub).unwrap();
        out("money_sub_percent", r.get_underlying_number());
    }
    {
        let f = |x: f64, n: u8, rm: bool, ur: bool| crate::formatter::format_number(x, ",".to_string(), ".".to_string(), n, rm, ur);
        std::println!("PROBE format_number_grouped S:{}", f(-1234567.891, 2, true, true));
        std::println!("PROBE format_number_removed S:{}", f(1000.0, 2, true, true));
        std::println!("PROBE format_number_kept S:{}", f(0.5, 3, false, true));
        std::println!("PROBE format_number_plain S:{}", f(12345.25, 1, true, false));
    }
    {
        // C03 translator validation: the program  x = 2 / x = x + 3 / x + 4  through the real variable machinery
        use crate::compiler::Interpreter;
        use crate::syntax::SyntaxParser;
        let session = Session::new();
        let lines: [&[(&str, f64)]; 3] = [&[("x", 0.0), ("=", 0.0), ("n", 2.0)], &[("x", 0.0), ("=", 0.0), ("x", 0.0), ("+", 0.0), ("n", 3.0)], &[("x", 0.0), ("+", 0.0), ("n", 4.0)]];
        let mut last = f64::NAN;
        for l in lines.iter() {
            let mut tk2 = mk_tokinizer(&cfg, &session);
            let mut pos = 0usize;
            for (k, v) in l.iter() {
                let t = match *k { "n" => TokenType::Number(*v, NumberType::Decimal), "x" => TokenType::Text("x".to_string()), o => TokenType::Operator(o.chars().next().unwrap()) };
                tk2.token_infos.push(c03_ti(pos, "x", t));
                pos += 2;
            }
            crate::variable::update_token_variables(&mut tk2);
            tk2.token_generator();
            tk2.token_cleaner();
            crate::tokinizer::verif_k_local::missing_token_adder(&mut tk2);
            let ast = { let mut ps = SyntaxParser::new(&session, &tk2); ps.parse() };
            last = match ast { Ok(a) => match Interpreter::execute(&cfg, Rc::new(a), &session) { Ok(r) => crate::verif_k::c02::item_number(r.deref()).unwrap_or(f64::NAN), Err(_) => f64::NAN }, Err(_) => f64::NAN };
        }
        out("program_x_rebound", last);
    }
    {
        // C18 translator validation: add r0, add r1, delete r0, add r0 on language en -> 2 rules, the first is r1
        use crate::{RuleTrait, SmartCalc, SmartCalcConfig};
        struct Named(String);
        impl RuleTrait for Named {
            fn name(&self) -> String { self.0.clone() }
            fn call(&self, _: &SmartCalcConfig, _: &alloc::collections::BTreeMap<String, TokenType>) -> Option<TokenType> { None }
        }
        let mut calc = SmartCalc::default();
        let r0: Rc<dyn RuleTrait> = Rc::new(Named("n0".to_string()));
        let r1: Rc<dyn RuleTrait> = Rc::new(Named("n1".to_string()));
        calc.add_rule("en".to_string(), Vec::new(), r0.clone());
        calc.add_rule("en".to_string(), Vec::new(), r1.clone());
        calc.delete_rule("en".to_string(), "n0".to_string());
        calc.add_rule("en".to_string(), Vec::new(), r0.clone());
        let c2 = crate::smartcalc::verif_k_local::config_of(&calc);
        let api: Vec<String> = c2.rule.get("en").unwrap().iter().filter_map(|x| match x { crate::tokinizer::RuleType::API { rule, .. } => Some(rule.name()), _ => None }).collect();
        std::println!("PROBE registration_order S:{}", api.join(","));
    }
    {
        // C08 translator validation: the literal -12.345,67k read under ',' decimal / '.' thousands
        let calc = crate::SmartCalc::default();
        let r = calc.execute("en", "-12.345,67k".to_string());
        let v = match r.lines[0].as_ref().and_then(|l| l.result.as_ref().ok()) { Some(res) => match res.ast.deref() { SmartCalcAstType::Item(i) => i.get_underlying_number(), _ => f64::NAN }, None => f64::NAN };
        out("number_literal", v);
    }
    out("number_div", NumberItem(7.0, NumberType::Decimal).calculate(&cfg, true, &NumberItem(2.0, NumberType::Decimal), OperationType::Div).unwrap().get_underlying_number());
    out("number_div_zero", NumberItem(7.0, NumberType::Decimal).calculate(&cfg, true, &NumberItem(0.0, NumberType::Decimal), OperationType::Div).unwrap().get_underlying_number());
    {
        let rc = real_config();
        let tk3 = en_tokinizer(&rc, &s);
        out("duration_parse_months", tok_val(crate::tokinizer::verif_k_local::duration_parse(&rc, &tk3, &fields2("duration", num(14.0), "type", TokenType::Text("months".to_string())))));
        out("as_duration_hours", tok_val(crate::tokinizer::verif_k_local::as_duration(&rc, &tk3, &fields2("source", TokenType::Duration(Duration::seconds(90061)), "type", TokenType::Text("hours".to_string())))));
    }
    out("duration_sub", DurationItem(Duration::seconds(500)).calculate(&cfg, true, &DurationItem(Duration::seconds(1700)), OperationType::Sub).unwrap().get_underlying_number());
    out("as_time", DurationItem(Duration::seconds(-90061)).as_time().num_seconds_from_midnight() as f64);
    {
        let t = dt(738000, 86000);
        let r = TimeItem(t, tz0()).calculate(&cfg, true, &DurationItem(Duration::seconds(90061)), OperationType::Add).unwrap();
        out("time_add", r.as_any().downcast_ref::<TimeItem>().unwrap().get_time().num_seconds_from_midnight() as f64);
    }
    {
        let mut f: Map<String, Rc<TokenInfo>> = Map::new();
        f.insert("number".to_string(), mk_info(0, 1, Some(num(1234567890.0))));
        match crate::tokinizer::verif_k_local::from_unixtime(&cfg, &tk, &f) {
            Ok(TokenType::DateTime(d, _)) => { out("from_unixtime_sod", d.num_seconds_from_midnight() as f64); out("from_unixtime_days", (d.timestamp().div_euclid(86400) + 719162) as f64); }
            _ => out("from_unixtime_sod", f64::NAN),
        }
        let mut g: Map<String, Rc<TokenInfo>> = Map::new();
        g.insert("data".to_string(), mk_info(0, 1, Some(TokenType::Date(dt(738000, 0).date(), tz0()))));
        out("to_unixtime_date", tok_val(crate::tokinizer::verif_k_local::to_unixtime(&cfg, &tk, &g)));
    }
    out("number_type_convert", tok_val(crate::tokinizer::verif_k_local::number_type_convert(&cfg, &tk, &fields2("number", num(10.5), "type", TokenType::Text("hex".to_string())))));
    out("to_duration_dates", tok_val(crate::tokinizer::verif_k_local::to_duration(&cfg, &tk, &fields2("source", TokenType::Date(dt(738000, 0).date(), tz0()), "target", TokenType::Date(dt(737000, 0).date(), tz0())))));
}
#[cfg(kani)]
pub fn m_probe_all() {}

/// small_date natively: (has year, month is a number, day, month, year); oracle = chrono's own from_ymd_opt
pub fn m_replay_small_date() {
    use chrono::Datelike;
    let has_y: bool = vany(); let m_num: bool = vany(); let d: f64 = vany(); let m: f64 = vany(); let y: f64 = vany();
    let cfg = blank_config();
    let s = Session::new();
    let tk = mk_tokinizer(&cfg, &s);
    let mut f: Map<String, Rc<TokenInfo>> = Map::new();
    f.insert("day".to_string(), mk_info(0, 1, Some(TokenType::Number(d, NumberType::Decimal))));
    f.insert("month".to_string(), mk_info(2, 3, Some(if m_num { TokenType::Number(m, NumberType::Decimal) } else { TokenType::Month(m as u32) })));
    if has_y { f.insert("year".to_string(), mk_info(4, 5, Some(TokenType::Number(y, NumberType::Decimal)))); }
    let year = if has_y { y as i32 } else { chrono::Utc::now().date_naive().year() };
    let want = chrono::NaiveDate::from_ymd_opt(year, m as u32, d as u32);
    match crate::tokinizer::small_date(&cfg, &tk, &f) {
        Ok(TokenType::Date(got, _)) => assert!(Some(got) == want),
        Ok(_) => assert!(false),
        Err(_) => assert!(want.is_none()),
    }
}

/// parse_timezone natively through the real regex: (negative, hours, has minutes, minutes)
#[cfg(not(kani))]
pub fn m_replay_parse_timezone() {
    let neg: bool = vany(); let h: u8 = vany(); let has_m: bool = vany(); let m: u8 = vany();
    vassume(h <= 19 && m <= 59);
    let cfg = real_config();
    let text = if has_m { alloc::format!("GMT{}{}:{:02}", if neg { "-" } else { "+" }, h, m) } else { alloc::format!("GMT{}{}", if neg { "-" } else { "+" }, h) };
    let re = &cfg.token_parse_regex.get("timezone").expect("timezone regex")[0];
    let cap = re.captures(&text).expect("zone syntax");
    let got = crate::tools::parse_timezone(&cfg, &cap).expect("zone").1;
    let want = (if neg { -1 } else { 1 }) * (60 * h as i32 + if has_m { m as i32 } else { 0 });
    assert!(got == want);
}
#[cfg(kani)]
pub fn m_replay_parse_timezone() {}

/// based number arithmetic natively: (op [Add,Div,Mul,Sub], NumberType discriminant, x, y)
pub fn m_replay_based_calc() {
    let k: u8 = vany(); let t: u8 = vany(); let x: f64 = vany(); let y: f64 = vany();
    vassume(k < 4 && t < 5);
    let cfg = blank_config();
    let nt = match t { 0 => NumberType::Decimal, 1 => NumberType::Octal, 2 => NumberType::Hexadecimal, 3 => NumberType::Binary, _ => NumberType::Raw };
    let op = match k { 0 => OperationType::Add, 1 => OperationType::Div, 2 => OperationType::Mul, _ => OperationType::Sub };
    let r = NumberItem(x, nt).calculate(&cfg, true, &NumberItem(y, NumberType::Decimal), op).expect("computed");
    let n = r.as_any().downcast_ref::<NumberItem>().expect("number");
    assert!(n.1 == nt);
    let want = match k { 0 => x + y, 1 => if y == 0.0 { 0.0 } else { x / y }, 2 => x * y, _ => x - y };
    assert!((n.0 - want).abs() <= 1e-9 * (x.abs() + y.abs() + want.abs()) || n.0 == want);
}

// ---------------------------------------------------------------- C03: native replay of a straight-line program
fn c03_ti(start: usize, text: &str, t: TokenType) -> Rc<TokenInfo> {
    Rc::new(TokenInfo { start, end: start + text.len(), token_type: RefCell::new(Some(t)), original_text: text.to_string(), status: Cell::new(TokenInfoStatus::Active) })
}

/// (n, n template indices, n constants): the program of engine M's statement templates through the real
/// update_token_variables / token_generator / token_cleaner / missing_token_adder / parser / interpreter on one
/// session; oracle: a reference environment (latest binding wins, longest name wins, failing lines change nothing).
/// Template order must match lib/specs_m.py c03_statements(): per name (x, y, 'x y'): =c, =self+c, use, parse-fail,
/// eval-fail; then y=x, x='x y'*c.
pub fn m_replay_program() {
    use crate::compiler::Interpreter;
    use crate::syntax::SyntaxParser;
    let n: u8 = vany();
    vassume(n >= 1 && n <= 6);
    let mut prog = [0u8; 6];
    let mut i = 0usize;
    while i < n as usize { prog[i] = vany(); vassume(prog[i] < 27); i += 1; }
    let mut cs = [0f64; 6];
    i = 0;
    while i < n as usize { cs[i] = vany(); i += 1; }
    let cfg = blank_config();
    let session = Session::new();
    let names: [&[&str]; 6] = [&["x"], &["y"], &["x", "y"], &["x", "y", "z"], &["u", "-", "v"], &["w"]];
    let mut env: [Option<f64>; 6] = [None, None, None, None, None, None];
    i = 0;
    while i < n as usize {
        let t = prog[i] as usize;
        let c = cs[i];
        let (lhs, kind, src): (Option<usize>, u8, usize) = if t < 15 { let nm = t / 5; match t % 5 { 0 => (Some(nm), 0, 0), 1 => (Some(nm), 1, nm), 2 => (None, 2, nm), 3 => (Some(nm), 3, 0), _ => (Some(nm), 4, 0) } }
            else if t == 15 { (Some(1), 5, 0) } else if t == 16 { (Some(0), 6, 2) }
            // 17: X = c   18: X + c   19: x y z = c   20: x y z + x + c   21: x y  y + c
            else if t == 17 { (Some(0), 7, 0) } else if t == 18 { (None, 8, 0) } else if t == 19 { (Some(3), 0, 0) } else if t == 20 { (None, 9, 3) } else if t == 21 { (None, 10, 2) }
            // 22: u-v = c   23: u-v = u-v + c   24: u-v + c
            else if t == 22 { (Some(4), 0, 0) } else if t == 23 { (Some(4), 1, 4) } else if t == 24 { (None, 2, 4) }
            // 25: w = c%   26: c - -w  (w holds a percentage)
            else if t == 25 { (Some(5), 11, 0) } else { (None, 12, 5) };
        let mut tk = mk_tokinizer(&cfg, &session);
        let mut pos = 0usize;
        let push_name = |tk: &mut Tokinizer, pos: &mut usize, nm: usize| { for w in names[nm].iter() {
            let t = if w.len() == 1 && !w.chars().next().unwrap().is_alphanumeric() { TokenType::Operator(w.chars().next().unwrap()) } else { TokenType::Text(w.to_string()) };
            tk.token_infos.push(c03_ti(*pos, w, t)); *pos += w.len() + 1; } };
        let push_op = |tk: &mut Tokinizer, pos: &mut usize, ch: char| { tk.token_infos.push(c03_ti(*pos, "o", TokenType::Operator(ch))); *pos += 2; };
        let push_num = |tk: &mut Tokinizer, pos: &mut usize, v: f64| { tk.token_infos.push(c03_ti(*pos, "1", TokenType::Number(v, NumberType::Decimal))); *pos += 2; };
        let push_cap = |tk: &mut Tokinizer, pos: &mut usize, nm: usize| { for w in names[nm].iter() { tk.token_infos.push(c03_ti(*pos, &w.to_uppercase(), TokenType::Text(w.to_uppercase()))); *pos += w.len() + 1; } };
        if let Some(l) = lhs { if kind == 7 { push_cap(&mut tk, &mut pos, l); } else { push_name(&mut tk, &mut pos, l); } push_op(&mut tk, &mut pos, '='); }
        let second = if kind == 9 { 0usize } else { 1usize };
        vassume(!(kind == 9 || kind == 10) || env[second].is_some());
        let want: Option<f64> = match kind {
            11 => { tk.token_infos.push(c03_ti(pos, "1%", TokenType::Percent(c))); Some(c) }
            12 => { push_num(&mut tk, &mut pos, c); push_op(&mut tk, &mut pos, '-'); push_op(&mut tk, &mut pos, '-'); push_name(&mut tk, &mut pos, src); env[src].map(|w| c * (1.0 + w / 100.0)) }
            7 => { push_num(&mut tk, &mut pos, c); Some(c) }
            8 => { push_cap(&mut tk, &mut pos, src); push_op(&mut tk, &mut pos, '+'); push_num(&mut tk, &mut pos, c); env[src].map(|v| v + c) }
            9 => { push_name(&mut tk, &mut pos, src); push_op(&mut tk, &mut pos, '+'); push_name(&mut tk, &mut pos, 0); push_op(&mut tk, &mut pos, '+'); push_num(&mut tk, &mut pos, c); env[src].and_then(|v| env[0].map(|w| v + w + c)) }
            10 => { push_name(&mut tk, &mut pos, src); push_name(&mut tk, &mut pos, 1); push_op(&mut tk, &mut pos, '+'); push_num(&mut tk, &mut pos, c); env[src].and_then(|v| env[1].map(|w| v + w + c)) }
            0 => { push_num(&mut tk, &mut pos, c); Some(c) }
            1 | 2 => { push_name(&mut tk, &mut pos, src); push_op(&mut tk, &mut pos, '+'); push_num(&mut tk, &mut pos, c); env[src].map(|v| v + c) }
            3 => { push_num(&mut tk, &mut pos, c); push_op(&mut tk, &mut pos, '*'); push_op(&mut tk, &mut pos, ')'); None }
            4 => { push_num(&mut tk, &mut pos, c); push_op(&mut tk, &mut pos, '*'); tk.token_infos.push(c03_ti(pos, "1h", TokenType::Duration(chrono::Duration::seconds(3600)))); None }
            5 => { push_name(&mut tk, &mut pos, 0); env[0] }
            _ => { push_name(&mut tk, &mut pos, src); push_op(&mut tk, &mut pos, '*'); push_num(&mut tk, &mut pos, c); env[src].map(|v| v * c) }
        };
        vassume(kind == 0 || kind == 3 || kind == 4 || kind == 7 || kind == 11 || env[if kind == 5 { 0 } else { src }].is_some());
        crate::variable::update_token_variables(&mut tk);
        tk.token_generator();
        tk.token_cleaner();
        crate::tokinizer::verif_k_local::missing_token_adder(&mut tk);
        let got: Option<f64> = {
            let mut p = SyntaxParser::new(&session, &tk);
            match p.parse() {
                Ok(ast) => match Interpreter::execute(&cfg, Rc::new(ast), &session) { Ok(a) => crate::verif_k::c02::item_number(a.deref()), Err(_) => None },
                Err(_) => None,
            }
        };
        match want {
            Some(w) => { let g = got.expect("the line evaluates"); assert!((g - w).abs() <= 1e-9 * (1.0 + w.abs())); if let Some(l) = lhs { env[l] = Some(w); } }
            None => assert!(got.is_none()),
        }
        i += 1;
    }
}

/// duration_parse natively for any count: must return (Ok or Err), never panic
pub fn m_replay_duration_parse_any() {
    let code: u8 = vany(); let x: f64 = vany();
    vassume(code >= 1 && code <= 7);
    let cfg = real_config();
    let s = Session::new();
    let tk = en_tokinizer(&cfg, &s);
    let f = crate::verif_k::c05::fields2("duration", TokenType::Number(x, NumberType::Decimal), "type", TokenType::Text(unit_word(code).to_string()));
    let _ = crate::tokinizer::verif_k_local::duration_parse(&cfg, &tk, &f);
}

/// whole lines with astronomically large counts through the public API: evaluation must return normally
#[cfg(not(kani))]
pub fn m_replay_huge_line() {
    let which: u8 = vany();
    let calc = crate::SmartCalc::default();
    let line = match which {
        0 => "200000000 years 200000000 years",
        1 => "200000000 years + 200000000 years",
        2 => "1 jan 2021 at 10:00 + 300000000 years",
        _ => "99999999999999999 to date",
    };
    let r = calc.execute("en", line);
    assert!(r.status && r.lines.len() == 1);
}
#[cfg(kani)]
pub fn m_replay_huge_line() {}

/// a clock-time literal natively: (hour, has minute, minute, has second, second, has meridiem, pm, zone offset in minutes);
/// the literal is written out, evaluated under set_timezone(GMT+-h:mm) and must be the instant today + wall time - offset
#[cfg(not(kani))]
pub fn m_replay_time_literal() {
    use crate::compiler::time::TimeItem;
    let h: u8 = vany(); let has_m: bool = vany(); let m: u8 = vany(); let has_s: bool = vany(); let s: u8 = vany();
    let has_mer: bool = vany(); let pm: bool = vany(); let off: i32 = vany();
    vassume(h <= 23 && m <= 59 && s <= 59 && off >= -12 * 60 && off <= 14 * 60);
    vassume(has_m || has_mer);
    vassume(!has_s || has_m);
    vassume(!has_mer || (h <= 12 && !has_s));
    let mut text = alloc::format!("{}", h);
    if has_m { text.push_str(&alloc::format!(":{:02}", m)); }
    if has_s { text.push_str(&alloc::format!(":{:02}", s)); }
    if has_mer { text.push_str(if pm { " pm" } else { " am" }); }
    let mut calc = crate::SmartCalc::default();
    let zone = alloc::format!("GMT{}{}:{:02}", if off < 0 { "-" } else { "+" }, off.abs() / 60, off.abs() % 60);
    calc.set_timezone(zone).expect("zone accepted");
    let today = chrono::Utc::now().date_naive();
    let r = calc.execute("en", text);
    let line = r.lines[0].as_ref().expect("a result line");
    let res = line.result.as_ref().expect("the literal evaluates");
    let item = match res.ast.deref() { SmartCalcAstType::Item(i) => i.clone(), _ => panic!("not an item") };
    let t = item.as_any().downcast_ref::<TimeItem>().expect("a time");
    let hour24 = if has_mer && pm && h < 12 { h as i64 + 12 } else if has_mer && !pm && h == 12 { 0 } else { h as i64 };
    let want = today.and_hms_opt(0, 0, 0).unwrap() + Duration::seconds(hour24 * 3600 + if has_m { m as i64 * 60 } else { 0 } + if has_s { s as i64 } else { 0 } - off as i64 * 60);
    assert!(t.0 == want);
    assert!(t.1.offset == off);
}
#[cfg(kani)]
pub fn m_replay_time_literal() {}

/// native table for the phrase specs: every rule of a language as the loader built it (function name + the token
/// patterns the regex tokeniser made of config.json's pattern strings). One line per pattern:
/// RULE|lang|function_name|tok;;tok;;...
#[cfg(not(kani))]
pub fn m_dump_rules() {
    use super::std;
    use crate::tokinizer::RuleType;
    use crate::types::FieldType;
    let cfg = real_config();
    for (lang, rules) in cfg.rule.iter() {
        for rule in rules.iter() {
            if let RuleType::Internal { function_name, tokens_list, .. } = rule {
                for pattern in tokens_list.iter() {
                    let mut toks: Vec<String> = Vec::new();
                    for t in pattern.iter() {
                        let tt = t.token_type.borrow();
                        let s = match tt.as_ref() {
                            Some(TokenType::Field(f)) => match f.deref() {
                                FieldType::Text(n, v) => alloc::format!("FText~{}~{}", n, v.clone().unwrap_or_default()),
                                FieldType::DateTime(n) => alloc::format!("FDateTime~{}", n),
                                FieldType::Date(n) => alloc::format!("FDate~{}", n),
                                FieldType::Time(n) => alloc::format!("FTime~{}", n),
                                FieldType::Money(n) => alloc::format!("FMoney~{}", n),
                                FieldType::Percent(n) => alloc::format!("FPercent~{}", n),
                                FieldType::Number(n) => alloc::format!("FNumber~{}", n),
                                FieldType::Month(n) => alloc::format!("FMonth~{}", n),
                                FieldType::Duration(n) => alloc::format!("FDuration~{}", n),
                                FieldType::Timezone(n) => alloc::format!("FTimezone~{}", n),
                                FieldType::Group(n, w) => alloc::format!("FGroup~{}~{}", n, w.join(",")),
                                FieldType::TypeGroup(ts, n) => alloc::format!("FTypeGroup~{}~{}", n, ts.join(",")),
                                FieldType::DynamicType(n, v) => alloc::format!("FDynamicType~{}~{}", n, v.clone().unwrap_or_default()),
                            },
                            Some(TokenType::Text(w)) => alloc::format!("T~{}", w),
                            Some(TokenType::Operator(c)) => alloc::format!("O~{}", c),
                            Some(other) => alloc::format!("X~{:?}", other),
                            None => "X~none".to_string(),
                        };
                        toks.push(s);
                    }
                    std::println!("RULE|{}|{}|{}", lang, function_name, toks.join(";;"));
                }
            }
        }
    }
}
#[cfg(kani)]
pub fn m_dump_rules() {}

/// a percentage phrase natively: (phrase index of engine M's C05_PHRASES, operand is money, x, p, b); the token line is
/// built directly (no literal spelling involved) and goes through the real rule table, glue, parser and interpreter
#[cfg(not(kani))]
pub fn m_replay_percent_phrase() {
    use crate::compiler::Interpreter;
    use crate::syntax::SyntaxParser;
    use crate::compiler::money::MoneyItem;
    let pi: u8 = vany(); let money: u8 = vany(); let x: f64 = vany(); let p: f64 = vany(); let b: f64 = vany();
    vassume(pi < 11 && x.is_finite() && p.is_finite() && b.is_finite());
    let cfg = real_config();
    let session = Session::new();
    let usd = cfg.get_currency("usd".to_string()).expect("usd");
    let templ: &[&str] = match pi {
        0 => &["X", "+", "P"], 1 => &["X", "-", "P"], 2 => &["X", "P"], 3 => &["P", "of", "X"], 4 => &["X", "of", "P"],
        5 => &["P", "on", "X"], 6 => &["X", "on", "P"], 7 => &["P", "off", "X"], 8 => &["X", "off", "P"],
        9 => &["X", "is", "what", "%", "of", "B"], _ => &["X", "is", "P", "of", "what"] };
    let mut tk = en_tokinizer(&cfg, &session);
    let mut pos = 0usize;
    for t in templ.iter() {
        let tok = match *t {
            "X" => if money == 1 { TokenType::Money(x, usd.clone()) } else { TokenType::Number(x, NumberType::Decimal) },
            "B" => if money == 1 { TokenType::Money(b, usd.clone()) } else { TokenType::Number(b, NumberType::Decimal) },
            "P" => TokenType::Percent(p),
            w if w.len() == 1 && !w.chars().next().unwrap().is_alphabetic() => TokenType::Operator(w.chars().next().unwrap()),
            w => TokenType::Text(w.to_string()),
        };
        tk.token_infos.push(c03_ti(pos, "x", tok));
        pos += 2;
    }
    crate::tokinizer::verif_k_local::run_rule_tokinizer(&mut tk);
    tk.token_generator();
    tk.token_cleaner();
    crate::tokinizer::verif_k_local::missing_token_adder(&mut tk);
    let ast = { let mut ps = SyntaxParser::new(&session, &tk); ps.parse().expect("the phrase parses") };
    let res = Interpreter::execute(&cfg, Rc::new(ast), &session).expect("the phrase evaluates");
    let item = match res.deref() { SmartCalcAstType::Item(i) => i.clone(), _ => panic!("no item") };
    let div = |a: f64, d: f64| if d == 0.0 { 0.0 } else { a / d };
    let want = match pi { 0 | 2 | 5 | 6 => x * (1.0 + p / 100.0), 1 | 7 | 8 => x * (1.0 - p / 100.0), 3 | 4 => x * p / 100.0, 9 => div(100.0 * x, b), _ => div(100.0 * x, p) };
    let kind = if pi == 9 { "PERCENT" } else if money == 1 { "MONEY" } else { "NUMBER" };
    assert!(item.type_name() == kind);
    let got = item.get_underlying_number();
    assert!((got - want).abs() <= 1e-9 * (x.abs() + want.abs() + 1.0) || got == want);
    if kind == "MONEY" { assert!(item.as_any().downcast_ref::<MoneyItem>().expect("money").get_currency().code == usd.code); }
}
#[cfg(kani)]
pub fn m_replay_percent_phrase() {}

/// a phrase of kinds and words natively through the real rule table: (n, n token codes, kind of the token the expected
/// rule leaves behind or 255); codes 0..8 = number, percent, money, date, time, date-time, duration, zone, unit quantity,
/// 16.. = words of engine M's WIRING_WORDS. Exactly one active token of the expected kind must remain.
#[cfg(not(kani))]
pub fn m_replay_wiring() {
    let n: u8 = vany();
    vassume(n >= 1 && n <= 6);
    let mut codes = [0u8; 6];
    let mut i = 0usize;
    while i < n as usize { codes[i] = vany(); i += 1; }
    let want: u8 = vany();
    let cfg = real_config();
    let session = Session::new();
    let words = ["to", "as", "in", "at", "eur", "hours", "days", "km", "hex", "binary", "octal", "date", "unix", "unixtime", "TO", "HEX", "Hours", "Date", "AS", "In"];
    let usd = cfg.get_currency("usd".to_string()).expect("usd");
    let metre = { let mut found = None; for (_, g) in cfg.types.iter() { for (_, t) in g.iter() { if t.names.iter().any(|x| x == "m") { found = Some(t.clone()); } } } found.expect("unit m") };
    let day = NaiveDate::from_ymd_opt(2020, 1, 15).unwrap();
    let mut tk = en_tokinizer(&cfg, &session);
    i = 0;
    while i < n as usize {
        let tok = match codes[i] {
            0 => TokenType::Number(1577836800.0, NumberType::Decimal), 1 => TokenType::Percent(5.0), 2 => TokenType::Money(10.0, usd.clone()),
            3 => TokenType::Date(day, tz0()), 4 => TokenType::Time(day.and_hms_opt(10, 30, 0).unwrap(), tz0()), 5 => TokenType::DateTime(day.and_hms_opt(10, 30, 0).unwrap(), tz0()),
            6 => TokenType::Duration(Duration::seconds(3600 * (i as i64 + 1))), 7 => TokenType::Timezone("EST".to_string(), -300), 8 => TokenType::DynamicType(5.0, metre.clone()),
            c => TokenType::Text(words[(c - 16) as usize].to_string()),
        };
        tk.token_infos.push(c03_ti(2 * i, "x", tok));
        i += 1;
    }
    crate::tokinizer::verif_k_local::run_rule_tokinizer(&mut tk);
    let active: Vec<&Rc<TokenInfo>> = tk.token_infos.iter().filter(|t| t.status.get() == TokenInfoStatus::Active).collect();
    assert!(active.len() == 1);
    let kind = match active[0].token_type.borrow().as_ref() {
        Some(TokenType::Number(_, _)) => 0u8, Some(TokenType::Percent(_)) => 1, Some(TokenType::Money(_, _)) => 2, Some(TokenType::Date(_, _)) => 3, Some(TokenType::Time(_, _)) => 4,
        Some(TokenType::DateTime(_, _)) => 5, Some(TokenType::Duration(_)) => 6, Some(TokenType::Timezone(_, _)) => 7, Some(TokenType::DynamicType(_, _)) => 8, _ => 99 };
    assert!(want == 255 || kind == want);
}
#[cfg(kani)]
pub fn m_replay_wiring() {}

/// a written number literal natively: (convention 0 = ',' groups '.' decimal / 1 = '.' groups ',' decimal, sign 0/-/+,
/// number of digit groups, three group sizes, fraction digits, the digits, suffix code 0 none, 1..8 k K M G T P Z Y, 9 other)
#[cfg(not(kani))]
pub fn m_replay_number_literal() {
    let conv: u8 = vany(); let sign: u8 = vany(); let ng: u8 = vany();
    let g0: u8 = vany(); let g1: u8 = vany(); let g2: u8 = vany(); let nf: u8 = vany();
    vassume(conv <= 3 && sign <= 2 && ng >= 1 && ng <= 3 && g0 >= 1 && (g0 <= 3 || (ng == 1 && g0 <= 24)) && g1 <= 3 && g2 <= 3 && nf <= 3);
    let sizes = [g0, g1, g2];
    let (ts, ds) = match conv { 0 => (",", "."), 1 => (".", ","), 2 => ("", "."), _ => ("", ",") };
    let mut written = String::new();
    let mut canonical = String::new();
    if sign == 1 { written.push('-'); canonical.push('-'); } else if sign == 2 { written.push('+'); }
    let mut gi = 0usize;
    while gi < ng as usize {
        if gi > 0 { written.push_str(ts); }
        let mut k = 0u8;
        while k < sizes[gi] { let d: u8 = vany(); vassume(d <= 9); written.push((b'0' + d) as char); canonical.push((b'0' + d) as char); k += 1; }
        gi += 1;
    }
    if nf > 0 {
        written.push_str(ds); canonical.push('.');
        let mut k = 0u8;
        while k < nf { let d: u8 = vany(); vassume(d <= 9); written.push((b'0' + d) as char); canonical.push((b'0' + d) as char); k += 1; }
    }
    let note: u8 = vany();
    vassume(note <= 9);
    let (suffix, factor) = match note { 0 => ("", 1.0), 1 => ("k", 1e3), 2 => ("K", 1e3), 3 => ("M", 1e6), 4 => ("G", 1e9), 5 => ("T", 1e12), 6 => ("P", 1e15), 7 => ("Z", 1e18), 8 => ("Y", 1e21), _ => ("q", 1.0) };
    let parser: u8 = vany();
    vassume(parser <= 2);
    // the money patterns admit only the listed suffix letters - or an empty suffix group; the number pattern any letters
    written.push_str(if parser == 2 && note == 9 { "" } else { suffix });
    // a money literal is tried in currencies of 2, 3 and 0 fraction digits (the currency is symbolic in the encoding)
    let spellings: Vec<String> = match parser { 0 => alloc::vec![written.clone()], 1 => alloc::vec![alloc::format!("{}%", written)],
        _ => alloc::vec![alloc::format!("${}", written), alloc::format!("{} kwd", written), alloc::format!("{} jpy", written), alloc::format!("{} euro", written), alloc::format!("{} dollar", written)] };
    let mut calc = crate::SmartCalc::default();
    calc.set_decimal_seperator(ds.to_string());
    calc.set_thousand_separator(ts.to_string());
    let want = canonical.parse::<f64>().expect("canonical literal") * factor;
    for text in spellings.iter() {
        let r = calc.execute("en", text.clone());
        let line = r.lines[0].as_ref().expect("a result line");
        let res = line.result.as_ref().expect("the literal evaluates");
        let got = match res.ast.deref() { SmartCalcAstType::Item(i) => i.get_underlying_number(), _ => f64::NAN };
        assert!((got - want).abs() <= 1e-9 * want.abs().max(1.0));
    }
}
#[cfg(kani)]
pub fn m_replay_number_literal() {}

/// any text the number group of a literal regex admits, natively: (parser 0 number / 1 percent / 2 money, convention,
/// number of separators, the separators 0 ',' / 1 '.', the digits): evaluation must return (no panic)
#[cfg(not(kani))]
pub fn m_replay_literal_text() {
    let parser: u8 = vany(); let conv: u8 = vany(); let nsep: u8 = vany();
    vassume(parser <= 2 && conv <= 1 && nsep <= 3);
    let mut seps = [0u8; 3];
    let mut i = 0usize;
    while i < nsep as usize { seps[i] = vany(); vassume(seps[i] <= 1); i += 1; }
    let mut text = String::new();
    i = 0;
    while i <= nsep as usize {
        if i > 0 { text.push(if seps[i - 1] == 0 { ',' } else { '.' }); }
        let d: u8 = vany(); vassume(d <= 9);
        text.push((b'0' + d) as char);
        i += 1;
    }
    let line = match parser { 0 => text, 1 => alloc::format!("{}%", text), _ => alloc::format!("${}", text) };
    let mut calc = crate::SmartCalc::default();
    let (ts, ds) = if conv == 0 { (",", ".") } else { (".", ",") };
    calc.set_decimal_seperator(ds.to_string());
    calc.set_thousand_separator(ts.to_string());
    let r = calc.execute("en", line);
    assert!(r.status && r.lines.len() == 1);
}
#[cfg(kani)]
pub fn m_replay_literal_text() {}

/// a radix literal natively: (radix 16 / 8 / 2, number of digits, the digits): no panic; when it fits i64 it is the integer written
#[cfg(not(kani))]
pub fn m_replay_radix_literal() {
    let radix: u8 = vany(); let n: u8 = vany();
    vassume((radix == 16 || radix == 8 || radix == 2) && n >= 1 && n <= 70);
    let mut text = String::from(match radix { 16 => "0x", 8 => "0o", _ => "0b" });
    let mut value: f64 = 0.0;
    let mut exact: u128 = 0;
    let mut i = 0u8;
    while i < n {
        let d: u8 = vany(); vassume(d < radix);
        text.push(core::char::from_digit(d as u32, radix as u32).unwrap());
        value = value * radix as f64 + d as f64;
        exact = exact.saturating_mul(radix as u128).saturating_add(d as u128);
        i += 1;
    }
    let calc = crate::SmartCalc::default();
    let r = calc.execute("en", text);
    assert!(r.status && r.lines.len() == 1);
    if exact <= i64::MAX as u128 {
        let line = r.lines[0].as_ref().expect("a result line");
        let res = line.result.as_ref().expect("the literal evaluates");
        let got = match res.ast.deref() { SmartCalcAstType::Item(it) => it.get_underlying_number(), _ => f64::NAN };
        assert!(got == value);
    }
    // whatever the line evaluated to: a based number prints as a literal that reads back as that same number
    if let Some(line) = r.lines[0].as_ref() {
        if let Ok(res) = line.result.as_ref() {
            if let SmartCalcAstType::Item(it) = res.ast.deref() {
                if it.type_name() == "NUMBER" && (res.output.starts_with("0x") || res.output.starts_with("0o") || res.output.starts_with("0b")) {
                    let got = it.get_underlying_number();
                    let back = calc.execute("en", res.output.clone());
                    let line2 = back.lines[0].as_ref().expect("the printed literal gives a line");
                    let res2 = line2.result.as_ref().expect("the printed literal evaluates");
                    let got2 = match res2.ast.deref() { SmartCalcAstType::Item(it) => it.get_underlying_number(), _ => f64::NAN };
                    assert!(got2 == got);
                }
            }
        }
    }
}
#[cfg(kani)]
pub fn m_replay_radix_literal() {}

/// '<date> at <number or time>' natively: (the operand is a number, the number): no panic; an hour 0..23 gives that date at N o'clock
#[cfg(not(kani))]
pub fn m_replay_at_date() {
    let is_number: bool = vany(); let x: f64 = vany();
    let dz: i32 = vany(); let tz: i32 = vany();
    vassume(dz >= -12 * 60 && dz <= 14 * 60 && tz >= -12 * 60 && tz <= 14 * 60);
    let cfg = blank_config();
    let s = Session::new();
    let tk = mk_tokinizer(&cfg, &s);
    let day = NaiveDate::from_ymd_opt(2021, 6, 15).unwrap();
    let mut f: Map<String, Rc<TokenInfo>> = Map::new();
    f.insert("source".to_string(), mk_info(0, 1, Some(TokenType::Date(day, TimeOffset { name: "DZ".to_string(), offset: dz }))));
    let t = if is_number { TokenType::Number(x, NumberType::Decimal) } else { TokenType::Time(day.and_hms_opt(10, 30, 15).unwrap(), TimeOffset { name: "TZ".to_string(), offset: tz }) };
    f.insert("time".to_string(), mk_info(2, 3, Some(t)));
    let r = crate::tokinizer::verif_k_local::at_date(&cfg, &tk, &f);
    if !is_number {
        match r { Ok(TokenType::DateTime(d, _)) => assert!(d == day.and_hms_opt(10, 30, 15).unwrap()), _ => assert!(false) }
    } else if x >= 0.0 && x < 24.0 {
        match r { Ok(TokenType::DateTime(d, _)) => assert!(d == day.and_hms_opt(x as u32, 0, 0).unwrap()), _ => assert!(false) }
    } else if x >= 24.0 {
        assert!(r.is_err());
    }
}
#[cfg(kani)]
pub fn m_replay_at_date() {}

/// a date-time stored in a variable and read back by a rule natively: 'a = N to ZONE' then 'a as unix' is N
#[cfg(not(kani))]
pub fn m_replay_variable_operand() {
    let _which: u8 = vany();
    let mut calc = crate::SmartCalc::default();
    calc.set_decimal_seperator(".".to_string());
    calc.set_thousand_separator(",".to_string());
    let out = |r: &crate::smartcalc::ExecuteResult, i: usize| match &r.lines[i] { Some(l) => match &l.result { Ok(x) => x.output.clone(), Err(e) => e.clone() }, None => String::new() };
    let r = calc.execute("en", "a = 1000000000 to EST\na as unix\nb = 10:30 EST\nb to UTC\nc = 90 minutes\nc as hours\nd = $12\nd to usd");
    assert!(r.lines.len() == 8);
    assert!(out(&r, 1) == "1000000000");
    assert!(out(&r, 3).starts_with("15:30"));
    assert!(out(&r, 7).contains("12"));
    calc.set_timezone("CET".to_string()).expect("zone");
    let r2 = calc.execute("en", "a = 1000000000 to date\na as unix");
    assert!(out(&r2, 1) == "1000000000");
}
#[cfg(kani)]
pub fn m_replay_variable_operand() {}

/// the shown clock time natively: (second of day of the instant, zone offset in minutes)
#[cfg(not(kani))]
pub fn m_replay_time_print() {
    let sod: u32 = vany(); let off: i32 = vany();
    vassume(sod < 86400 && off >= -12 * 60 && off <= 14 * 60);
    let cfg = blank_config();
    let s = Session::new();
    let t = dt(738000, sod);
    let out = TimeItem(t, crate::types::TimeOffset { name: "ZZZ".to_string(), offset: off }).print(&cfg, &s);
    let local = (sod as i64 + off as i64 * 60).rem_euclid(86400);
    let want = alloc::format!("{:02}:{:02}:{:02} ZZZ", local / 3600, (local / 60) % 60, local % 60);
    assert!(out == want);
}
#[cfg(kani)]
pub fn m_replay_time_print() {}

/// the printed date natively: (zone offset in minutes): a date prints as its own calendar date under every zone
#[cfg(not(kani))]
pub fn m_replay_date_print() {
    let off: i32 = vany();
    vassume(off >= -12 * 60 && off <= 14 * 60);
    let cfg = real_config();
    let s = Session::new();
    for (y, m, d) in [(2020, 2, 12), (2021, 1, 1), (2019, 12, 31), (2024, 2, 29)].iter() {
        let day = NaiveDate::from_ymd_opt(*y, *m, *d).unwrap();
        let out = crate::compiler::date::DateItem(day, crate::types::TimeOffset { name: "ZZZ".to_string(), offset: off }).print(&cfg, &s);
        let reference = crate::compiler::date::DateItem(day, crate::types::TimeOffset { name: "ZZZ".to_string(), offset: 0 }).print(&cfg, &s);
        assert!(out == reference);
        assert!(out.contains(&alloc::format!("{}", d)) && out.contains(&alloc::format!("{}", y)));
    }
}
#[cfg(kani)]
pub fn m_replay_date_print() {}

/// the printed date-time natively: (second of the day, zone offset in minutes): an instant in a zone prints exactly
/// like the wall-clock date-time it denotes there, also next to the New Year of the running year
#[cfg(not(kani))]
pub fn m_replay_datetime_print() {
    use chrono::Datelike;
    let tod: u32 = vany(); let off: i32 = vany();
    vassume(tod < 86400 && off >= -12 * 60 && off <= 14 * 60);
    let cfg = real_config();
    let s = Session::new();
    let y = chrono::Utc::now().year();
    for (yy, m, d) in [(y, 12, 31), (y, 1, 1), (y - 1, 12, 31), (y + 1, 1, 1), (y, 6, 15), (2001, 3, 4)].iter() {
        let day = NaiveDate::from_ymd_opt(*yy, *m, *d).unwrap();
        for t in [tod, 1800, 86399 - 1800, 0].iter() {
            let instant = day.and_hms_opt(t / 3600, (t / 60) % 60, t % 60).unwrap();
            let wall = instant + chrono::Duration::minutes(off as i64);
            let out = crate::compiler::date_time::DateTimeItem(instant, crate::types::TimeOffset { name: "ZZZ".to_string(), offset: off }).print(&cfg, &s);
            let reference = crate::compiler::date_time::DateTimeItem(wall, crate::types::TimeOffset { name: "ZZZ".to_string(), offset: 0 }).print(&cfg, &s);
            assert!(out == reference);
        }
    }
}
#[cfg(kani)]
pub fn m_replay_datetime_print() {}

/// add_token_location natively: (number of recognised tokens, their spans, the new span): a span that starts or ends
/// inside a recognised token is refused, one on free characters is recorded; and end to end: a sign glued to a based literal
#[cfg(not(kani))]
pub fn m_replay_token_location() {
    let k: u8 = vany();
    vassume(k <= 3);
    let cfg = blank_config();
    let s = Session::new();
    let mut tk = mk_tokinizer(&cfg, &s);
    let mut spans: Vec<(usize, usize)> = Vec::new();
    let mut i = 0u8;
    while i < k {
        let a: u16 = vany(); let b: u16 = vany();
        vassume(a < b);
        spans.push((a as usize, b as usize));
        tk.token_infos.push(mk_info(a as usize, b as usize, None));
        i += 1;
    }
    let start: u16 = vany(); let end: u16 = vany();
    vassume(start < end);
    let (start, end) = (start as usize, end as usize);
    let before = tk.token_infos.len();
    let took = tk.add_token_location(start, end, Some(TokenType::Operator('-')), "-".to_string());
    assert!(took == (tk.token_infos.len() == before + 1));
    let partial = spans.iter().any(|(a, b)| (*a <= start && start < *b) || (*a < end && end <= *b));
    let disjoint = spans.iter().all(|(a, b)| end <= *a || *b <= start);
    if partial { assert!(!took); }
    if disjoint { assert!(took); }
    let calc = crate::SmartCalc::default();
    for (line, want) in [("0x20-0x10", 16.0), ("0b111-0b1", 6.0), ("5 -0x1", 4.0), ("20-10", 10.0)].iter() {
        let r = calc.execute("en", line.to_string());
        let l = r.lines[0].as_ref().expect("a result line");
        let res = l.result.as_ref().expect("evaluates");
        let got = match res.ast.deref() { SmartCalcAstType::Item(it) => it.get_underlying_number(), _ => f64::NAN };
        assert!(got == *want);
    }
}
#[cfg(kani)]
pub fn m_replay_token_location() {}

/// a literal text natively: (kind 0 number / 1 percent / 2 money / 3 clock time / 4 radix, convention, length, UTF-8
/// bytes, the value it denotes): the line evaluates to that value (a clock time: to a time)
#[cfg(not(kani))]
pub fn m_replay_literal_string() {
    let kind: u8 = vany(); let conv: u8 = vany(); let n: u8 = vany();
    vassume(kind <= 4 && conv <= 1 && n >= 1 && n <= 80);
    let mut bytes: Vec<u8> = Vec::new();
    let mut i = 0u8;
    while i < n { bytes.push(vany()); i += 1; }
    let want: f64 = vany();
    let text = String::from_utf8(bytes).expect("utf-8 literal");
    let mut calc = crate::SmartCalc::default();
    let (ts, ds) = if conv == 0 { (",", ".") } else { (".", ",") };
    calc.set_decimal_seperator(ds.to_string());
    calc.set_thousand_separator(ts.to_string());
    let r = calc.execute("en", text);
    let line = r.lines[0].as_ref().expect("a result line");
    let res = line.result.as_ref().expect("the literal evaluates");
    match res.ast.deref() {
        SmartCalcAstType::Item(it) => {
            if kind == 3 { assert!(it.type_name() == "TIME"); }
            else {
                let name = it.type_name();
                assert!(name == match kind { 1 => "PERCENT", 2 => "MONEY", _ => "NUMBER" });
                let got = it.get_underlying_number();
                assert!((got - want).abs() <= 1e-9 * want.abs().max(1.0));
            }
        },
        _ => assert!(false),
    }
}
#[cfg(kani)]
pub fn m_replay_literal_string() {}

/// a line that names the same month twice natively: both names are months
#[cfg(not(kani))]
pub fn m_replay_month_twice() {
    let mut calc = crate::SmartCalc::default();
    calc.set_decimal_seperator(".".to_string());
    calc.set_thousand_separator(",".to_string());
    let r = calc.execute("en", "1 january 2021 to 11 january 2021".to_string());
    let out = match &r.lines[0] { Some(l) => match &l.result { Ok(x) => x.output.clone(), Err(e) => e.clone() }, None => String::new() };
    assert!(out == "1 week 3 days");
    let r = calc.execute("en", "5 march 2020 to 6 march 2020".to_string());
    let out = match &r.lines[0] { Some(l) => match &l.result { Ok(x) => x.output.clone(), Err(e) => e.clone() }, None => String::new() };
    assert!(out == "1 day");
}
#[cfg(kani)]
pub fn m_replay_month_twice() {}
