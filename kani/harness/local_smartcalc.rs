//! appended to src/smartcalc.rs as `verif_k_local`: SmartCalc's `config` field is private
#![allow(unused, dead_code)]
use super::*;

pub(crate) fn mk_calc(config: SmartCalcConfig) -> SmartCalc { SmartCalc { config } }
pub(crate) fn config_of(c: &SmartCalc) -> &SmartCalcConfig { &c.config }
pub(crate) fn config_mut(c: &mut SmartCalc) -> &mut SmartCalcConfig { &mut c.config }

/// stub for SmartCalc::execute_text inside the execute_session loop harness: any per-line outcome
#[cfg(kani)]
pub(crate) fn stub_execute_text(_: &SmartCalc, _: &Session) -> ExecutionLine {
    let k: u8 = kani::any();
    match k % 3 {
        0 => None,
        1 => Some(ExecuteLine::new(Err(String::new()), Vec::new(), Vec::new(), Vec::new())),
        _ => Some(ExecuteLine::new(Ok(ExecuteLineResult::new(String::new(), Rc::new(SmartCalcAstType::None))), Vec::new(), Vec::new(), Vec::new())),
    }
}
