//! C09 — date arithmetic kernels (DateItem::calculate) on the real chrono.
use super::*;
use crate::compiler::date::DateItem;
use crate::compiler::duration::DurationItem;
use crate::compiler::{DataItem, OperationType};
use chrono::{Datelike, Duration, NaiveDate};

pub fn any_date() -> NaiveDate {
    let y: i32 = vany();
    let m: u32 = vany();
    let d: u32 = vany();
    vassume(y >= 1 && y <= 9999);
    vassume(m >= 1 && m <= 12);
    vassume(d >= 1 && d <= 31);
    let date = NaiveDate::from_ymd_opt(y, m, d);
    vassume(date.is_some());
    date.unwrap()
}

fn date_of(item: &Rc<dyn DataItem>) -> NaiveDate {
    item.as_any().downcast_ref::<DateItem>().unwrap().get_date()
}

/// date ± n days, |n| < 30 (below the code's 30-day "month" threshold): exactly n days away.
pub fn date_days_lt30(add: bool) {
    let cfg = blank_config();
    let date = any_date();
    let n: i64 = vany();
    vassume(n >= 0 && n < 30);
    // result must stay inside years 1..9999
    vassume(!(date.year() == 9999 && date.month() == 12 && add));
    vassume(!(date.year() == 1 && date.month() == 1 && !add));
    let left = DateItem(date, tz0());
    let right = DurationItem(Duration::days(n));
    let op = if add { OperationType::Add } else { OperationType::Sub };
    let r = left.calculate(&cfg, true, &right, op);
    assert!(r.is_some());
    let got = date_of(r.as_ref().unwrap());
    let diff = got.signed_duration_since(date).num_days();
    assert!(diff == if add { n } else { -n });
    vcover!(got.month() != date.month());
    vcover!(got.year() != date.year());
    core::mem::forget(r);
    core::mem::forget(cfg);
}

/// driver self-test: must FAIL with a replayable counterexample (x == 77, y == true)
pub fn selftest_fail() {
    let x: u32 = vany();
    let y: bool = vany();
    let z: i64 = vany();
    vassume(z == -5);
    vcover!(x == 1);
    assert!(!(x == 77 && y));
}

/// driver self-test used by setup: trivially true, exercises build + pipeline
pub fn selftest_pass() {
    let x: u32 = vany();
    vassume(x < 10);
    vcover!(x == 3);
    assert!(x * 2 < 20);
}
