//! C09 — date arithmetic kernels (DateItem::calculate) on the real chrono.
use super::*;
use crate::compiler::date::DateItem;
use crate::compiler::duration::DurationItem;
use crate::compiler::{DataItem, OperationType};
use chrono::{Datelike, Duration, NaiveDate};

pub fn any_date() -> NaiveDate {
    let y: i32 = vany();
    let m: u32 = vany();
    let d: u32 = vany();
    vassume(y >= 1 && y <= 9999);
    vassume(m >= 1 && m <= 12);
    vassume(d >= 1 && d <= 31);
    let date = NaiveDate::from_ymd_opt(y, m, d);
    vassume(date.is_some());
    date.unwrap()
}

fn date_of(item: &Rc<dyn DataItem>) -> NaiveDate {
    item.as_any().downcast_ref::<DateItem>().unwrap().get_date()
}

/// date ± n days, |n| < 30 (below the code's 30-day "month" threshold): exactly n days away.
pub fn date_days_lt30(add: bool) {
    let cfg = blank_config();
    let date = any_date();
    let n: i64 = vany();
    vassume(n > -30 && n < 30);
    // result must stay inside years 1..9999
    vassume(!(date.year() == 9999 && date.month() == 12));
    vassume(!(date.year() == 1 && date.month() == 1));
    let left = DateItem(date, tz0());
    let right = DurationItem(Duration::days(n));
    let op = if add { OperationType::Add } else { OperationType::Sub };
    let r = left.calculate(&cfg, true, &right, op);
    assert!(r.is_some());
    let got = date_of(r.as_ref().unwrap());
    let diff = got.signed_duration_since(date).num_days();
    assert!(diff == if add { n } else { -n });
    vcover!(got.month() != date.month());
    vcover!(got.year() != date.year());
    core::mem::forget(r);
    core::mem::forget(cfg);
}

/// driver self-test: must FAIL with a replayable counterexample (x == 77, y == true)
pub fn selftest_fail() {
    let x: u32 = vany();
    let y: bool = vany();
    let z: i64 = vany();
    vassume(z == -5);
    vcover!(x == 1);
    assert!(!(x == 77 && y));
}

/// driver self-test used by setup: trivially true, exercises build + pipeline
pub fn selftest_pass() {
    let x: u32 = vany();
    vassume(x < 10);
    vcover!(x == 3);
    assert!(x * 2 < 20);
}

// ---------------------------------------------------------------- engine M's chrono models, validated against the real chrono
fn model_is_leap(y: i64) -> bool { y % 4 == 0 && (y % 100 != 0 || y % 400 == 0) }

fn model_valid_ymd(y: i64, m: i64, d: i64) -> bool {
    let dim = if m == 2 { if model_is_leap(y) { 29 } else { 28 } } else if m == 4 || m == 6 || m == 9 || m == 11 { 30 } else { 31 };
    y >= -262143 && y <= 262142 && m >= 1 && m <= 12 && d >= 1 && d <= dim
}

/// day number with 0001-01-01 = 0 (the formula of lib/mirsmt/models.py days_from_civil, floor division)
fn model_days_from_civil(y: i64, m: i64, d: i64) -> i64 {
    let y2 = if m <= 2 { y - 1 } else { y };
    let era = y2.div_euclid(400);
    let yoe = y2 - era * 400;
    let mp = if m > 2 { m - 3 } else { m + 9 };
    let doy = (153 * mp + 2).div_euclid(5) + d - 1;
    let doe = yoe * 365 + yoe.div_euclid(4) - yoe.div_euclid(100) + doy;
    era * 146097 + doe - 719468 + 719162
}

/// from_ymd_opt accepts exactly the model's valid dates and numbers their days as the model does
pub fn chrono_model_ymd(lo: i32, hi: i32) {
    let y: i32 = vany(); let m: u32 = vany(); let d: u32 = vany();
    vassume(y >= lo && y <= hi && m <= 13 && d <= 32);
    let real = NaiveDate::from_ymd_opt(y, m, d);
    let valid = model_valid_ymd(y as i64, m as i64, d as i64);
    assert!(real.is_some() == valid);
    if let Some(date) = real {
        assert!(date.num_days_from_ce() as i64 - 1 == model_days_from_civil(y as i64, m as i64, d as i64));
        vcover!(m == 2 && d == 29);
        vcover!(m == 12 && d == 31);
    }
}

/// NaiveDateTime::timestamp / and_hms / num_seconds_from_midnight on (day number, second of day): for every
/// date-time of years 1..9999 the timestamp is (day number - 719162) * 86400 + second of day. (from_timestamp is
/// the documented inverse of timestamp; a direct harness on it does not finish: 64-bit division by 86400.)
pub fn chrono_model_timestamp() {
    use chrono::{NaiveDateTime, NaiveTime, Timelike};
    let date = any_date();
    let h: u32 = vany(); let mi: u32 = vany(); let se: u32 = vany();
    vassume(h < 24 && mi < 60 && se < 60);
    let dt = date.and_hms_opt(h, mi, se).unwrap();
    let sod = h * 3600 + mi * 60 + se;
    assert!(dt.num_seconds_from_midnight() == sod);
    assert!(dt.timestamp() == (date.num_days_from_ce() as i64 - 1 - 719162) * 86400 + sod as i64);
    vcover!(date.year() < 1970 && sod == 86399);
    vcover!(date.year() > 2038);
}

/// NaiveDateTime +- whole seconds is addition on (day number * 86400 + second of day); |d| <= 2 days
pub fn chrono_model_datetime_add(ylo: i32, yhi: i32, dmax: i64) {
    use chrono::{NaiveDateTime, NaiveTime, Timelike};
    let date = any_date();
    let sod: u32 = vany();
    vassume(sod < 86400);
    let d: i64 = vany();
    vassume(d >= -dmax && d <= dmax);
    vassume(date.year() > ylo && date.year() < yhi);
    let dt = NaiveDateTime::new(date, NaiveTime::from_num_seconds_from_midnight_opt(sod, 0).unwrap());
    let r = dt + Duration::seconds(d);
    let total = (date.num_days_from_ce() as i64 - 1) * 86400 + sod as i64 + d;
    assert!((r.date().num_days_from_ce() as i64 - 1) * 86400 + r.num_seconds_from_midnight() as i64 == total);
    vcover!(d < 0 && r.date() != date);
}

/// TimeDelta constructors: value n * unit seconds
pub fn chrono_model_timedelta() {
    let n: i64 = vany();
    vassume(n >= -1_000_000_000 && n <= 1_000_000_000);
    assert!(Duration::seconds(n).num_seconds() == n);
    assert!(Duration::minutes(n).num_seconds() == n * 60);
    assert!(Duration::hours(n).num_seconds() == n * 3600);
    assert!(Duration::days(n).num_seconds() == n * 86400);
    assert!(Duration::weeks(n).num_seconds() == n * 604800);
    assert!((Duration::seconds(n) + Duration::seconds(17)).num_seconds() == n + 17);
    vcover!(n < 0);
}

/// date + N months / years as duration_parse produces them (365 d per year, 30 d per month), inside the region where
/// the landing month is not a multiple of twelve away from month 0 and the day exists in every month (day <= 28):
/// the day of the month is kept and the month index 12*year+month moves by exactly 12*years+months
pub fn date_add_months(years_max: i64) {
    let cfg = blank_config();
    let date = any_date();
    let years: i64 = vany();
    let months: i64 = vany();
    vassume(years >= 0 && years <= years_max && months >= 0 && months <= 11 && years + months > 0);
    vassume(date.day() <= 28);
    vassume((date.month() as i64 + months) % 12 != 0);
    vassume(date.year() as i64 + years + 1 <= 9999);
    let left = DateItem(date, tz0());
    let right = DurationItem(Duration::days(365 * years + 30 * months));
    let r = left.calculate(&cfg, true, &right, OperationType::Add);
    assert!(r.is_some());
    let got = date_of(r.as_ref().unwrap());
    assert!(got.day() == date.day());
    let idx0 = 12 * date.year() as i64 + date.month() as i64;
    let idx1 = 12 * got.year() as i64 + got.month() as i64;
    assert!(idx1 == idx0 + 12 * years + months);
    vcover!(years > 0 && months > 0 && got.year() as i64 == date.year() as i64 + years + 1);
    core::mem::forget(r); core::mem::forget(cfg);
}

// ---------------------------------------------------------------- month arithmetic: further regions
/// date - (Y years M months) inside the region where no month borrow is needed (month - M >= 1) and the day exists
/// everywhere (day <= 28): day kept, month index moved back by 12Y+M
pub fn date_sub_months(years_max: i64) {
    let cfg = blank_config();
    let date = any_date();
    let years: i64 = vany();
    let months: i64 = vany();
    vassume(years >= 0 && years <= years_max && months >= 0 && months <= 11 && years + months > 0);
    vassume(date.day() <= 28);
    vassume(date.month() as i64 - months >= 1);
    vassume(date.year() as i64 - years >= 1);
    let r = DateItem(date, tz0()).calculate(&cfg, true, &DurationItem(Duration::days(365 * years + 30 * months)), OperationType::Sub);
    assert!(r.is_some());
    let got = date_of(r.as_ref().unwrap());
    assert!(got.day() == date.day());
    assert!(12 * got.year() as i64 + got.month() as i64 == 12 * date.year() as i64 + date.month() as i64 - 12 * years - months);
    vcover!(years > 0 && months > 0);
    core::mem::forget(r); core::mem::forget(cfg);
}

/// KNOWN DEFECT REGION: date + M months landing on December (month + M is a multiple of 12), day <= 28
pub fn date_add_months_december() {
    let cfg = blank_config();
    let date = any_date();
    let months: i64 = vany();
    vassume(months >= 1 && months <= 11 && date.day() <= 28 && date.year() < 9998);
    vassume((date.month() as i64 + months) % 12 == 0);
    let r = DateItem(date, tz0()).calculate(&cfg, true, &DurationItem(Duration::days(30 * months)), OperationType::Add);
    assert!(r.is_some());
    let got = date_of(r.as_ref().unwrap());
    assert!(got.day() == date.day() && got.month() == 12 && got.year() == date.year());
    vcover!(true);
    core::mem::forget(r); core::mem::forget(cfg);
}

/// KNOWN DEFECT REGION: date + M months from day 29..31 (the target month may be shorter): must not panic
pub fn date_add_months_day_overflow() {
    let cfg = blank_config();
    let date = any_date();
    let months: i64 = vany();
    vassume(months >= 1 && months <= 11 && date.day() >= 29 && date.year() < 9998);
    vassume((date.month() as i64 + months) % 12 != 0);
    let r = DateItem(date, tz0()).calculate(&cfg, true, &DurationItem(Duration::days(30 * months)), OperationType::Add);
    vcover!(r.is_some());
    core::mem::forget(r); core::mem::forget(cfg);
}

/// KNOWN DEFECT REGION: date - M months across a year boundary (month - M <= 0), day <= 28
pub fn date_sub_months_borrow() {
    let cfg = blank_config();
    let date = any_date();
    let months: i64 = vany();
    vassume(months >= 1 && months <= 11 && date.day() <= 28 && date.year() > 2);
    vassume(date.month() as i64 - months <= 0);
    let r = DateItem(date, tz0()).calculate(&cfg, true, &DurationItem(Duration::days(30 * months)), OperationType::Sub);
    assert!(r.is_some());
    let got = date_of(r.as_ref().unwrap());
    assert!(12 * got.year() as i64 + got.month() as i64 == 12 * date.year() as i64 + date.month() as i64 - months);
    vcover!(true);
    core::mem::forget(r); core::mem::forget(cfg);
}

/// KNOWN DEFECT REGION: date + n days for 30 <= n < 60 (a day count, not a month count): exactly n days away
pub fn date_days_30_to_59() {
    let cfg = blank_config();
    let date = any_date();
    let n: i64 = vany();
    vassume(n >= 30 && n < 60 && date.day() <= 28 && date.month() <= 10 && date.year() < 9998);
    let r = DateItem(date, tz0()).calculate(&cfg, true, &DurationItem(Duration::days(n)), OperationType::Add);
    assert!(r.is_some());
    let got = date_of(r.as_ref().unwrap());
    assert!(got.signed_duration_since(date).num_days() == n);
    vcover!(true);
    core::mem::forget(r); core::mem::forget(cfg);
}

/// KNOWN DEFECT REGION: date + Y years for a Y beyond chrono's year range: must not panic
pub fn date_add_huge_years() {
    let cfg = blank_config();
    let date = any_date();
    let years: i64 = vany();
    vassume(years >= 262143 && years <= 400000 && date.day() <= 28);
    let r = DateItem(date, tz0()).calculate(&cfg, true, &DurationItem(Duration::days(365 * years)), OperationType::Add);
    vcover!(r.is_none());
    core::mem::forget(r); core::mem::forget(cfg);
}
