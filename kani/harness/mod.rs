//! Engine K support code, injected into the scratch copy of smartcalc as `crate::verif_k`.
//! Compiled under `cfg(kani)` (symbolic) and under `cfg(verif_replay)` (native replay of a
//! counterexample through the same harness body, real BTreeMap, no stubs).
#![allow(unused, dead_code, unused_macros, unused_imports)]

use alloc::rc::Rc;
use alloc::string::{String, ToString};
use alloc::vec::Vec;
use core::cell::{Cell, RefCell};

use crate::config::{MoneyConfig, NumberConfig, SmartCalcConfig};
use crate::constants::JsonConstant;
use crate::session::Session;
use crate::token::ui_token::UiTokenCollection;
use crate::tokinizer::{TokenInfo, TokenInfoStatus, Tokinizer};
use crate::types::*;

#[cfg(kani)]
pub use crate::verif_map::BTreeMap as Map;
#[cfg(not(kani))]
pub use alloc::collections::BTreeMap as Map;

// ------------------------------------------------------------------ symbolic-input shim
pub trait VAny: Sized {
    fn vany() -> Self;
}

#[cfg(not(kani))]
extern crate std;

#[cfg(not(kani))]
pub mod replay {
    //! Replay side: inputs come from a list of byte vectors (one per vany() call, in call order),
    //! as printed by Kani's concrete playback.
    use super::std;
    use alloc::vec::Vec;
    pub static mut VALS: Vec<Vec<u8>> = Vec::new();
    pub static mut POS: usize = 0;
    pub static mut ASSUME_FAILED: bool = false;
    pub static mut EXHAUSTED: bool = false;

    pub fn next(n: usize) -> Vec<u8> {
        unsafe {
            let vals = &*core::ptr::addr_of!(VALS);
            if POS >= vals.len() {
                EXHAUSTED = true;
                return alloc::vec![0u8; n];
            }
            let v = vals[POS].clone();
            POS += 1;
            if v.len() != n {
                std::eprintln!("VERIF_REPLAY: width mismatch at value {} (have {}, want {})", POS - 1, v.len(), n);
                EXHAUSTED = true;
                return alloc::vec![0u8; n];
            }
            v
        }
    }
}

macro_rules! vany_int {
    ($($t:ty),*) => {$(
        impl VAny for $t {
            #[cfg(kani)]
            fn vany() -> Self { kani::any() }
            #[cfg(not(kani))]
            fn vany() -> Self {
                let b = replay::next(core::mem::size_of::<$t>());
                let mut a = [0u8; core::mem::size_of::<$t>()];
                a.copy_from_slice(&b);
                <$t>::from_le_bytes(a)
            }
        }
    )*};
}
vany_int!(u8, u16, u32, u64, usize, i8, i16, i32, i64, isize);

impl VAny for bool {
    #[cfg(kani)]
    fn vany() -> Self { kani::any() }
    #[cfg(not(kani))]
    fn vany() -> Self { replay::next(1)[0] != 0 }
}

impl VAny for f64 {
    #[cfg(kani)]
    fn vany() -> Self { kani::any() }
    #[cfg(not(kani))]
    fn vany() -> Self { f64::from_bits(u64::vany()) }
}

pub fn vany<T: VAny>() -> T { T::vany() }

#[cfg(kani)]
pub fn vassume(c: bool) { kani::assume(c) }
#[cfg(not(kani))]
pub fn vassume(c: bool) {
    if !c {
        unsafe { replay::ASSUME_FAILED = true; }
        panic!("VERIF_ASSUME_FAILED");
    }
}

#[cfg(kani)]
macro_rules! vcover { ($($t:tt)*) => { kani::cover!($($t)*) }; }
#[cfg(not(kani))]
macro_rules! vcover { ($($t:tt)*) => { () }; }
pub(crate) use vcover;

// ------------------------------------------------------------------ stubs (cfg(kani) only)
#[cfg(kani)]
pub mod stubs {
    use super::*;
    pub fn max_level() -> log::LevelFilter { log::LevelFilter::Off }
    pub fn format(_: core::fmt::Arguments<'_>) -> String { String::new() }
    pub fn convert_none(_: &SmartCalcConfig, _: f64, _: Rc<crate::config::DynamicType>, _: String) -> Option<(f64, Rc<crate::config::DynamicType>)> { None }
    pub fn tt_to_string(t: &TokenType) -> String {
        match t { TokenType::Text(s) => s.clone(), _ => String::new() }
    }
    pub fn rc_drop_slow<T: ?Sized, A: core::alloc::Allocator>(_: &mut Rc<T, A>) {}

    /// the instant handed out by the `Utc::now` stub; drawn by the harness (so that the draw
    /// order is fixed) and constrained to years 1..9999
    pub static mut NOW_SECS: i64 = 0;
    pub fn now() -> chrono::DateTime<chrono::Utc> {
        use chrono::TimeZone;
        let secs = unsafe { NOW_SECS };
        chrono::Utc.timestamp_opt(secs, 0).unwrap()
    }
    pub fn regex_new_err(_: &str) -> Result<regex::Regex, regex::Error> {
        Err(regex::Error::Syntax(String::new()))
    }
}

/// draw "now" (seconds since the epoch, years 1..9999). Under replay the real clock is used by
/// the code; the drawn value is returned so that oracles can still refer to it.
pub fn draw_now() -> i64 {
    let secs: i64 = vany();
    vassume(secs >= -62_135_596_800 && secs <= 253_402_300_799);
    #[cfg(kani)]
    unsafe { stubs::NOW_SECS = secs; }
    secs
}

// ------------------------------------------------------------------ configuration / tokinizer builders
/// native builds start from the loader's configuration and empty its tables, so that a field added to the struct by
/// a change under test does not break the harness build (the Kani build below has to name every field)
#[cfg(not(kani))]
pub fn blank_config() -> SmartCalcConfig {
    let mut c = SmartCalcConfig::default();
    c.json_data = JsonConstant::default();
    c.format.clear();
    c.currency.clear();
    c.currency_alias.clear();
    c.timezones.clear();
    c.currency_rate.clear();
    c.token_parse_regex.clear();
    c.word_group.clear();
    c.constant_pair.clear();
    c.language_alias_regex.clear();
    c.rule.clear();
    c.types.clear();
    c.type_conversion.clear();
    c.month_regex.clear();
    c.alias_regex.clear();
    c.decimal_seperator = ",".to_string();
    c.thousand_separator = ".".to_string();
    c.timezone = "UTC".to_string();
    c.timezone_offset = 0;
    c.money_config = MoneyConfig { remove_fract_if_zero: false, use_fract_rounding: true };
    c.number_config = NumberConfig { decimal_digits: 2, remove_fract_if_zero: true, use_fract_rounding: true };
    c.percentage_config = NumberConfig { decimal_digits: 2, remove_fract_if_zero: true, use_fract_rounding: true };
    c
}

#[cfg(kani)]
pub fn blank_config() -> SmartCalcConfig {
    SmartCalcConfig {
        json_data: JsonConstant::default(),
        format: Map::new(),
        currency: Map::new(),
        currency_alias: Map::new(),
        timezones: Map::new(),
        currency_rate: Map::new(),
        token_parse_regex: Map::new(),
        word_group: Map::new(),
        constant_pair: Map::new(),
        language_alias_regex: Map::new(),
        rule: Map::new(),
        types: Map::new(),
        type_conversion: Vec::new(),
        month_regex: Map::new(),
        alias_regex: Vec::new(),
        decimal_seperator: ",".to_string(),
        thousand_separator: ".".to_string(),
        timezone: "UTC".to_string(),
        timezone_offset: 0,
        money_config: MoneyConfig { remove_fract_if_zero: false, use_fract_rounding: true },
        number_config: NumberConfig { decimal_digits: 2, remove_fract_if_zero: true, use_fract_rounding: true },
        percentage_config: NumberConfig { decimal_digits: 2, remove_fract_if_zero: true, use_fract_rounding: true },
    }
}

pub fn tz0() -> TimeOffset { TimeOffset { name: String::new(), offset: 0 } }

pub fn mk_tokinizer<'a>(cfg: &'a SmartCalcConfig, s: &'a Session) -> Tokinizer<'a> {
    Tokinizer {
        column: 0, iter: Vec::new(), data: String::new(), index: 0, indexer: 0, total: 0,
        ui_tokens: UiTokenCollection::default(), config: cfg, session: s, language: String::new(),
        token_infos: Vec::new(), tokens: Vec::new(),
    }
}

pub fn mk_info(start: usize, end: usize, t: Option<TokenType>) -> Rc<TokenInfo> {
    Rc::new(TokenInfo { start, end, token_type: RefCell::new(t), original_text: String::new(), status: Cell::new(TokenInfoStatus::Active) })
}

pub fn currency(code: &str) -> Rc<CurrencyInfo> {
    Rc::new(CurrencyInfo {
        code: code.to_string(), symbol: code.to_string(), thousands_separator: ".".to_string(),
        decimal_separator: ",".to_string(), symbol_on_left: true, space_between_amount_and_symbol: false, decimal_digits: 2,
    })
}

/// bit-level f64 equality that identifies all NaNs
pub fn same_f64(a: f64, b: f64) -> bool { (a.is_nan() && b.is_nan()) || a.to_bits() == b.to_bits() }

