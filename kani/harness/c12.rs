//! C12 — unit quantities: native table for engine D's model validation, DynamicTypeItem::calculate kinds.
use super::*;
use crate::compiler::dynamic_type::DynamicTypeItem;
use crate::compiler::DataItem;
use core::ops::Deref;

/// native: every ordered pair of configured units at two amounts through the public API ('.' decimal separator)
#[cfg(not(kani))]
pub fn d_dump_units() {
    use super::std;
    let mut calc = crate::SmartCalc::default();
    calc.set_decimal_seperator(".".to_string());
    calc.set_thousand_separator(",".to_string());
    let mut names: Vec<String> = Vec::new();
    {
        let cfg = crate::smartcalc::verif_k_local::config_of(&calc);
        for (_, group) in cfg.types.iter() {
            for (_, t) in group.iter() { names.push(t.names[0].clone()); }
        }
    }
    for a in names.iter() {
        for b in names.iter() {
            for amount in ["1", "7.5"].iter() {
                let line = alloc::format!("{} {} to {}", amount, a, b);
                let r = calc.execute("en", line);
                let mut out = String::from("ERR");
                if let Some(Some(l)) = r.lines.get(0) {
                    if let Ok(res) = &l.result {
                        if let SmartCalcAstType::Item(item) = res.ast.deref() {
                            if let Some(d) = item.as_any().downcast_ref::<DynamicTypeItem>() {
                                if d.get_type().names.contains(b) {
                                    out = alloc::format!("{:e}", d.get_number());
                                }
                            }
                        }
                    }
                }
                std::println!("UNITS {} {} {} {}", a, b, amount, out);
            }
        }
    }
}
#[cfg(kani)]
pub fn d_dump_units() {}
