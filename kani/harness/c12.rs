//! C12 — unit quantities: native table for engine D's model validation, DynamicTypeItem::calculate kinds.
use super::*;
use crate::compiler::dynamic_type::DynamicTypeItem;
use crate::compiler::DataItem;
use core::ops::Deref;

/// native: every ordered pair of configured units at two amounts through the public API, under both separator
/// conventions: '.' decimal / ',' thousands, and the default configuration (',' decimal: amounts tagged @comma)
#[cfg(not(kani))]
pub fn d_dump_units() {
    use super::std;
    // pass 0: '.' decimal; pass 1: the default ',' decimal; pass 2: ONE calculator that first converts under '.' decimal and is
    // then switched to ',' decimal (amounts tagged @switched): separators may change between evaluations
    for pass in 0..3 {
        let comma = &(pass != 0);
        let mut calc = crate::SmartCalc::default();
        if pass != 1 {
            calc.set_decimal_seperator(".".to_string());
            calc.set_thousand_separator(",".to_string());
        }
        if pass == 2 {
            for warm in ["2.5 inch to mm", "1.5 oz to g", "7.5 km to mile", "3.5 mb to kb"].iter() { let _ = calc.execute("en", warm.to_string()); }
            calc.set_decimal_seperator(",".to_string());
            calc.set_thousand_separator(".".to_string());
        }
        let mut names: Vec<String> = Vec::new();
        {
            let cfg = crate::smartcalc::verif_k_local::config_of(&calc);
            for (_, group) in cfg.types.iter() {
                for (_, t) in group.iter() { names.push(t.names[0].clone()); }
            }
        }
        for a in names.iter() {
            for b in names.iter() {
                for amount in ["0", "1", "7.5", "30000000000000000000"].iter() {
                    let written = if *comma { amount.replace('.', ",") } else { amount.to_string() };
                    let line = alloc::format!("{} {} to {}", written, a, b);
                    let r = calc.execute("en", line);
                    let mut out = String::from("ERR");
                    if let Some(Some(l)) = r.lines.get(0) {
                        if let Ok(res) = &l.result {
                            if let SmartCalcAstType::Item(item) = res.ast.deref() {
                                if let Some(d) = item.as_any().downcast_ref::<DynamicTypeItem>() {
                                    if d.get_type().names.contains(b) {
                                        out = alloc::format!("{:e}", d.get_number());
                                    }
                                }
                            }
                        }
                    }
                    std::println!("UNITS {} {} {}{} {}", a, b, amount, if pass == 2 { "@switched" } else if *comma { "@comma" } else { "" }, out);
                }
            }
        }
    }
}
#[cfg(kani)]
pub fn d_dump_units() {}

/// unit arithmetic natively: (op [Add,Div,Mul,Sub], x, y) over a fixed list of unit pairs of one kind; oracle: the
/// right operand converted by the real DynamicTypeItem::convert into the left unit, then the plain operation
#[cfg(not(kani))]
pub fn m_replay_unit_calc() {
    use crate::compiler::OperationType;
    let k: u8 = vany(); let x: f64 = vany(); let y0: f64 = vany();
    vassume(k < 4);
    let mut calc = crate::SmartCalc::default();
    calc.set_decimal_seperator(".".to_string());
    calc.set_thousand_separator(",".to_string());
    let cfg = crate::smartcalc::verif_k_local::config_of(&calc);
    let unit = |name: &str| -> Rc<crate::config::DynamicType> {
        for (_, g) in cfg.types.iter() { for (_, t) in g.iter() { if t.names.iter().any(|n| n == name) { return t.clone(); } } }
        panic!("unit {}", name)
    };
    let pairs = [("cm", "ft"), ("ft", "cm"), ("inch", "mm"), ("mm", "inch"), ("m", "km"), ("kg", "lb"), ("oz", "mg"), ("mb", "kb"), ("yard", "dm")];
    let op = match k { 0 => OperationType::Add, 1 => OperationType::Div, 2 => OperationType::Mul, _ => OperationType::Sub };
    // the conversion is an uninterpreted function in the encoding: next to the solver's y, operands whose converted
    // value is tiny or huge are tried as well (a ratio depends on the converted operand, whatever unit it was written in)
    let ys = [y0, y0 * 1e-20, y0 * 1e20, 3e-17, -2e-19];
    for y in ys.iter().copied() { if !y.is_finite() { continue; }
    for (l, r) in pairs.iter() {
        let (lu, ru) = (unit(l), unit(r));
        let conv = match DynamicTypeItem::convert(cfg, y, ru.clone(), lu.names[0].clone()) { Some((v, _)) => v, None => continue };
        let got = DynamicTypeItem(x, lu.clone()).calculate(cfg, true, &DynamicTypeItem(y, ru.clone()), op).expect("computed");
        let want = match k { 0 => x + conv, 1 => if conv == 0.0 { 0.0 } else { x / conv }, 2 => x * conv, _ => x - conv };
        if k == 1 { assert!(got.type_name() == "NUMBER"); } else { assert!(got.as_any().downcast_ref::<DynamicTypeItem>().expect("quantity").get_type().names[0] == lu.names[0]); }
        if k != 2 { assert!((got.get_underlying_number() - want).abs() <= 1e-9 * (x.abs() + conv.abs() + want.abs()) || got.get_underlying_number() == want || !want.is_finite()); }
    } }
}
#[cfg(kani)]
pub fn m_replay_unit_calc() {}

/// format_number natively against a reference written from the property: digits of format!("{:.N}") (rounding on)
/// or format!("{}") (rounding off), integer part grouped in threes, fraction dropped iff removal is on and all of
/// its printed digits are '0'. The solver's real x is tried together with its four nearest doubles, under two
/// separator settings.
#[cfg(not(kani))]
pub fn m_replay_format_number() {
    let x0: f64 = vany(); let n: u8 = vany(); let remove: u8 = vany(); let rounding: u8 = vany();
    vassume(x0.is_finite() && n <= 60);
    let deltas: [i64; 5] = [0, 1, -1, 2, -2];
    let seps = [(",", "."), ("_", "~~")];
    for (ts, ds) in seps.iter() {
        for d in deltas.iter() {
            let x = f64::from_bits((x0.to_bits() as i64 + d) as u64);
            if !x.is_finite() { continue; }
            let got = crate::formatter::format_number(x, ts.to_string(), ds.to_string(), n, remove == 1, rounding == 1);
            let text = if rounding == 1 { alloc::format!("{:.*}", n as usize, x.abs()) } else { alloc::format!("{}", x.abs()) };
            let (int_part, fract) = match text.find('.') { Some(i) => (&text[..i], &text[i + 1..]), None => (&text[..], "") };
            let mut want = String::new();
            if x < 0.0 { want.push('-'); }
            let len = int_part.len();
            for (i, ch) in int_part.chars().enumerate() {
                want.push(ch);
                if i + 1 != len && (len - 1 - i) % 3 == 0 { want.push_str(ts); }
            }
            let all_zero = fract.chars().all(|c| c == '0');
            if !fract.is_empty() && !(remove == 1 && all_zero) { want.push_str(ds); want.push_str(fract); }
            assert!(got == want);
        }
    }
}
#[cfg(kani)]
pub fn m_replay_format_number() {}

/// print of the four number-like items natively: the text must be format_number(own value, configured separators,
/// own digit / removal / rounding settings) composed as the property says; non-default, pairwise different settings
#[cfg(not(kani))]
pub fn m_replay_print_callers() {
    use crate::compiler::money::MoneyItem;
    use crate::compiler::number::NumberItem;
    use crate::compiler::percent::PercentItem;
    use crate::formatter::format_number;
    let x0: f64 = vany();
    vassume(x0.is_finite());
    let grids: [(u8, bool, bool, u8, bool, bool, bool, bool); 2] = [(3, false, true, 1, true, true, false, true), (0, true, true, 4, false, true, true, true)];
    // the solver's value, and next to it the binary-exact ties of 0..4 fraction digits (where a second rounding would show)
    let t = if x0.abs() < 1e9 { x0.trunc() } else { 0.0 };
    let xs = [x0, t + 0.5, t + 0.25, t + 0.125, t + 0.0625, t + 0.03125, -(t.abs() + 0.125)];
    for x in xs.iter().copied() { for g in grids.iter() {
        let mut calc = crate::SmartCalc::default();
        calc.set_decimal_seperator("~".to_string());
        calc.set_thousand_separator("_".to_string());
        calc.set_number_configuration(g.0, g.1, g.2);
        calc.set_percentage_configuration(g.3, g.4, g.5);
        calc.set_money_configuration(g.6, g.7);
        let cfg = crate::smartcalc::verif_k_local::config_of(&calc);
        let session = crate::session::Session::default();
        let fmt = |d: u8, rm: bool, ur: bool| format_number(x, "_".to_string(), "~".to_string(), d, rm, ur);
        assert!(NumberItem(x, crate::types::NumberType::Decimal).print(cfg, &session) == fmt(g.0, g.1, g.2));
        assert!(PercentItem(x).print(cfg, &session) == alloc::format!("%{}", fmt(g.3, g.4, g.5)));
        for (_, cur) in cfg.currency.iter() {
            let f = fmt(cur.decimal_digits, g.6, g.7);
            let blank = if cur.space_between_amount_and_symbol { " " } else { "" };
            let want = if cur.symbol_on_left { alloc::format!("{}{}{}", cur.symbol, blank, f) } else { alloc::format!("{}{}{}", f, blank, cur.symbol) };
            assert!(MoneyItem(x, cur.clone()).print(cfg, &session) == want);
        }
        let opts: [(Option<u8>, Option<bool>, Option<bool>); 4] = [(None, None, None), (Some(4), Some(false), Some(true)), (Some(0), None, Some(true)), (None, Some(false), None)];
        for o in opts.iter() {
            let dt = Rc::new(crate::config::DynamicType::new("fam".to_string(), 1, "<{value}> u {value}".to_string(), Vec::new(), "{value}".to_string(), "{value}".to_string(), alloc::vec!["u".to_string()], o.0, o.2, o.1));
            let f = fmt(o.0.unwrap_or(2), o.1.unwrap_or(true), o.2.unwrap_or(true));
            assert!(DynamicTypeItem(x, dt).print(cfg, &session) == alloc::format!("<{}> u {}", f, f));
        }
    } }
}
#[cfg(kani)]
pub fn m_replay_print_callers() {}

/// a whole or fractional amount of any size natively: (amount): inch -> mm is the amount times 25.4 (relative 1e-12)
#[cfg(not(kani))]
pub fn m_replay_unit_amount() {
    let x0: f64 = vany();
    vassume(x0.is_finite());
    let mut calc = crate::SmartCalc::default();
    calc.set_decimal_seperator(".".to_string());
    calc.set_thousand_separator(",".to_string());
    let cfg = crate::smartcalc::verif_k_local::config_of(&calc);
    let unit = |name: &str| -> Rc<crate::config::DynamicType> {
        for (_, g) in cfg.types.iter() { for (_, t) in g.iter() { if t.names.iter().any(|n| n == name) { return t.clone(); } } }
        panic!("unit {}", name)
    };
    for x in [x0, x0.abs(), x0.abs().floor(), x0.abs().floor() + 0.5].iter() {
        if !x.is_finite() || x.abs() > 1e30 { continue; }
        let got = DynamicTypeItem::convert(cfg, *x, unit("inch"), "mm".to_string()).expect("inch to mm").0;
        let want = *x * 25.4;
        assert!((got - want).abs() <= 1e-12 * want.abs());
    }
}
#[cfg(kani)]
pub fn m_replay_unit_amount() {}
