//! appended to src/session.rs as `verif_k_local`: builds Session states directly (fields are private)
#![allow(unused, dead_code)]
use super::*;

/// the state `set_text` is specified to leave behind for a text of `n` lines: n parts, cursor at 0;
/// `pos` lets a harness start from any other cursor position
pub(crate) fn session_with_lines(n: usize, pos: usize) -> Session {
    let mut parts = Vec::new();
    let mut i = 0;
    while i < n {
        parts.push(String::new());
        i += 1;
    }
    Session { text: String::new(), text_parts: parts, language: String::new(), position: Cell::new(pos), variables: RefCell::new(BTreeMap::new()) }
}

pub(crate) fn position_of(s: &Session) -> usize { s.position.get() }
