//! C02 — the recursive-descent parser, verified compositionally (DESIGN.md C02), and the token glue.
use super::*;
use crate::compiler::number::NumberItem;
use crate::compiler::{DataItem, Interpreter};
use crate::syntax::binary::{parse_binary, AddSubtractParser, ModuloParser, MultiplyDivideParser};
use crate::syntax::primative::PrimativeParser;
use crate::syntax::unary::UnaryParser;
use crate::syntax::{SyntaxParser, SyntaxParserTrait};
use core::ops::Deref;

/// leaf instantiation of SyntaxParserTrait: consumes exactly one Number token
pub struct Leaf;
impl SyntaxParserTrait for Leaf {
    fn parse(parser: &mut SyntaxParser) -> AstResult {
        match parser.peek_token() {
            Ok(t) => {
                let r = match t.deref() {
                    TokenType::Number(n, k) => Ok(SmartCalcAstType::Item(Rc::new(NumberItem(*n, *k)))),
                    _ => Err(("No more token", 0, 0)),
                };
                core::mem::forget(t);
                if r.is_ok() { parser.consume_token().map(core::mem::forget); }
                r
            }
            Err(_) => Err(("No more token", 0, 0)),
        }
    }
}

pub fn num(i: u8) -> Rc<TokenType> { Rc::new(TokenType::Number(i as f64, NumberType::Decimal)) }
pub fn op(c: char) -> Rc<TokenType> { Rc::new(TokenType::Operator(c)) }

pub fn any_op4() -> char {
    let k: u8 = vany();
    vassume(k < 4);
    match k { 0 => '+', 1 => '-', 2 => '*', _ => '/' }
}

pub fn item_number(ast: &SmartCalcAstType) -> Option<f64> { item_value(ast) }

fn item_value(ast: &SmartCalcAstType) -> Option<f64> {
    match ast {
        SmartCalcAstType::Item(i) => Some(i.get_underlying_number()),
        _ => None,
    }
}

/// (number of Binary nodes on the left spine, all right children are leaf Items carrying 2,4,6.. in order,
/// operators[] of the spine from the innermost node outwards)
fn left_spine(ast: &SmartCalcAstType, ops: &mut [char; 4]) -> (usize, bool) {
    let mut n = 0usize;
    let mut ok = true;
    let mut cur = ast;
    // first pass: depth
    let mut depth = 0usize;
    let mut c2 = ast;
    loop {
        match c2 {
            SmartCalcAstType::Binary { left, .. } => { depth += 1; c2 = left.deref(); }
            _ => break,
        }
    }
    loop {
        match cur {
            SmartCalcAstType::Binary { left, operator, right } => {
                // node at distance n from the root combines leaf index (depth - n) on its right
                let idx = depth - n;
                if idx <= 4 { ops[idx - 1] = *operator; }
                if item_value(right.deref()) != Some((2 * idx) as f64) { ok = false; }
                n += 1;
                cur = left.deref();
            }
            SmartCalcAstType::Item(i) => { if i.get_underlying_number() != 0.0 { ok = false; } break; }
            _ => { ok = false; break; }
        }
    }
    (n, ok)
}

/// (1) Fold: parse_binary::<Leaf> over n0 o1 n1 o2 n2 [o3 n3] with symbolic operators and a symbolic accepted
/// operator set: the result is the left-nested chain over the maximal prefix whose operators are accepted, the
/// cursor is left exactly behind that prefix.
pub fn fold_leaf(nops: u8) {
    let cfg = blank_config();
    let s = Session::new();
    let mut tk = mk_tokinizer(&cfg, &s);
    let mut ops = ['+'; 4];
    tk.tokens.push(num(0));
    let mut i = 0u8;
    while i < nops {
        let c = any_op4();
        ops[i as usize] = c;
        tk.tokens.push(op(c));
        tk.tokens.push(num(2 * (i + 1)));
        i += 1;
    }
    let addsub: bool = vany();
    let accepted: &[char] = if addsub { &['+', '-'] } else { &['*', '/'] };
    let mut p = SyntaxParser::new(&s, &tk);
    let r = parse_binary::<Leaf>(&mut p, accepted);
    // reference: length of the maximal accepted prefix
    let mut want = 0usize;
    let mut j = 0u8;
    let mut stopped = false;
    while j < nops {
        if !stopped && accepted.contains(&ops[j as usize]) { want += 1; } else { stopped = true; }
        j += 1;
    }
    match &r {
        Ok(ast) => {
            let mut got_ops = ['?'; 4];
            let (n, ok) = left_spine(ast, &mut got_ops);
            assert!(ok);
            assert!(n == want);
            assert!(p.get_index() == 1 + 2 * want);
            let mut k = 0usize;
            while k < want { assert!(got_ops[k] == ops[k]); k += 1; }
            vcover!(want == nops as usize);
            vcover!(want == 0);
        }
        Err(_) => assert!(false),
    }
    core::mem::forget(r); core::mem::forget(tk); core::mem::forget(s); core::mem::forget(cfg);
}

/// (2) Ladder: which callee / operator set each level hands to parse_binary is read off by running the three
/// real impls on one token list per operator: level L must fold exactly its own operators and leave the
/// others to its caller. Tokens: 1 o 2 with symbolic o; leaves go through the REAL Unary/Primative parsers.
pub fn ladder_levels() {
    let cfg = blank_config();
    let s = Session::new();
    let mut tk = mk_tokinizer(&cfg, &s);
    let c = any_op4();
    tk.tokens.push(num(1));
    tk.tokens.push(op(c));
    tk.tokens.push(num(2));
    let level: u8 = vany();
    vassume(level < 2);
    let mut p = SyntaxParser::new(&s, &tk);
    let r = if level == 0 { MultiplyDivideParser::parse(&mut p) } else { AddSubtractParser::parse(&mut p) };
    let folded_here = match &r { Ok(SmartCalcAstType::Binary { operator, .. }) => Some(*operator), _ => None };
    let muldiv = c == '*' || c == '/';
    if level == 0 {
        // MultiplyDivide folds * and / only
        assert!(folded_here.is_some() == muldiv);
        assert!(p.get_index() == if muldiv { 3 } else { 1 });
    } else {
        // AddSubtract (through Modulo and MultiplyDivide) consumes everything and the root carries the operator
        assert!(folded_here == Some(c));
        assert!(p.get_index() == 3);
    }
    vcover!(level == 0 && !muldiv);
    vcover!(level == 1 && muldiv);
    core::mem::forget(r); core::mem::forget(tk); core::mem::forget(s); core::mem::forget(cfg);
}

fn eval_num(cfg: &SmartCalcConfig, s: &Session, ast: SmartCalcAstType) -> Option<f64> {
    let r = Interpreter::execute(cfg, Rc::new(ast), s);
    let out = match &r {
        Ok(a) => item_value(a.deref()),
        Err(_) => None,
    };
    core::mem::forget(r);
    out
}

/// (2b) Precedence end to end on three operands with concrete small integers: a o1 b o2 c through the REAL
/// ladder and the REAL interpreter equals the value given by the usual rules (operators symbolic).
pub fn precedence_three() {
    let cfg = blank_config();
    let s = Session::new();
    let mut tk = mk_tokinizer(&cfg, &s);
    let o1 = any_op4();
    let o2 = any_op4();
    tk.tokens.push(num(7));
    tk.tokens.push(op(o1));
    tk.tokens.push(num(2));
    tk.tokens.push(op(o2));
    tk.tokens.push(num(4));
    let mut p = SyntaxParser::new(&s, &tk);
    let r = AddSubtractParser::parse(&mut p);
    assert!(p.get_index() == 5);
    let f = |o: char, x: f64, y: f64| match o { '+' => x + y, '-' => x - y, '*' => x * y, _ => x / y };
    let hi = |o: char| o == '*' || o == '/';
    let want = if hi(o2) && !hi(o1) { f(o1, 7.0, f(o2, 2.0, 4.0)) } else { f(o2, f(o1, 7.0, 2.0), 4.0) };
    match r {
        Ok(ast) => {
            let got = eval_num(&cfg, &s, ast);
            assert!(got == Some(want));
        }
        Err(_) => assert!(false),
    }
    vcover!(o1 == '+' && o2 == '*');
    vcover!(o1 == '/' && o2 == '-');
    core::mem::forget(tk); core::mem::forget(s); core::mem::forget(cfg);
}

/// (3) parentheses: ( a o1 b ) o2 c and a o1 ( b o2 c ) evaluate with the parenthesised part first
pub fn parens_three(left_group: bool) {
    let cfg = blank_config();
    let s = Session::new();
    let mut tk = mk_tokinizer(&cfg, &s);
    let o1 = any_op4();
    let o2 = any_op4();
    if left_group {
        tk.tokens.push(op('(')); tk.tokens.push(num(7)); tk.tokens.push(op(o1)); tk.tokens.push(num(2)); tk.tokens.push(op(')'));
        tk.tokens.push(op(o2)); tk.tokens.push(num(4));
    } else {
        tk.tokens.push(num(7)); tk.tokens.push(op(o1));
        tk.tokens.push(op('(')); tk.tokens.push(num(2)); tk.tokens.push(op(o2)); tk.tokens.push(num(4)); tk.tokens.push(op(')'));
    }
    let mut p = SyntaxParser::new(&s, &tk);
    let r = AddSubtractParser::parse(&mut p);
    assert!(p.get_index() == 7);
    let f = |o: char, x: f64, y: f64| match o { '+' => x + y, '-' => x - y, '*' => x * y, _ => x / y };
    let want = if left_group { f(o2, f(o1, 7.0, 2.0), 4.0) } else { f(o1, 7.0, f(o2, 2.0, 4.0)) };
    match r {
        Ok(ast) => assert!(eval_num(&cfg, &s, ast) == Some(want)),
        Err(_) => assert!(false),
    }
    vcover!(o1 == '*' && o2 == '+');
    core::mem::forget(tk); core::mem::forget(s); core::mem::forget(cfg);
}

/// (3b) sign prefix: a o1 (sign) b o2 c — a sign directly in front of an operand negates that operand only and
/// the rest of the expression is still consumed and evaluated.
pub fn sign_prefix_inner() {
    let cfg = blank_config();
    let s = Session::new();
    let mut tk = mk_tokinizer(&cfg, &s);
    let o1 = any_op4();
    let o2 = any_op4();
    let neg: bool = vany();
    tk.tokens.push(num(7)); tk.tokens.push(op(o1));
    tk.tokens.push(op(if neg { '-' } else { '+' }));
    tk.tokens.push(num(2)); tk.tokens.push(op(o2)); tk.tokens.push(num(4));
    let mut p = SyntaxParser::new(&s, &tk);
    let r = AddSubtractParser::parse(&mut p);
    let b = if neg { -2.0 } else { 2.0 };
    let f = |o: char, x: f64, y: f64| match o { '+' => x + y, '-' => x - y, '*' => x * y, _ => x / y };
    let hi = |o: char| o == '*' || o == '/';
    let want = if hi(o2) && !hi(o1) { f(o1, 7.0, f(o2, b, 4.0)) } else { f(o2, f(o1, 7.0, b), 4.0) };
    assert!(p.get_index() == 6);
    match r {
        Ok(ast) => assert!(eval_num(&cfg, &s, ast) == Some(want)),
        Err(_) => assert!(false),
    }
    vcover!(neg && o1 == '*' && o2 == '+');
    core::mem::forget(tk); core::mem::forget(s); core::mem::forget(cfg);
}

/// (5) glue: missing_token_adder on operand/operator lists: '+' is inserted exactly between adjacent operands,
/// a leading sign gets a 0 in front, nothing else changes. Token kinds: operand (Number i) or operator + - * /.
pub fn glue_missing_tokens(n: u8) {
    let cfg = blank_config();
    let s = Session::new();
    let mut tk = mk_tokinizer(&cfg, &s);
    let mut is_op = [false; 6];
    let mut i = 0u8;
    while i < n {
        let o: bool = vany();
        is_op[i as usize] = o;
        if o { tk.tokens.push(op(any_op4())); } else { tk.tokens.push(num(i + 1)); }
        i += 1;
    }
    crate::tokinizer::verif_k_local::missing_token_adder(&mut tk);
    // reference
    let mut want = 0usize;       // expected length
    let mut k = 0usize;
    let mut prev_operand = false;
    if n >= 2 && is_op[0] { want += 1; }
    while k < n as usize {
        if !is_op[k] && prev_operand && n >= 2 { want += 1; }
        prev_operand = !is_op[k];
        want += 1;
        k += 1;
    }
    assert!(tk.tokens.len() == want);
    // no two adjacent operands remain (when the adder ran at all)
    if n >= 2 {
        let mut j = 1usize;
        while j < tk.tokens.len() {
            let a = matches!(tk.tokens[j - 1].deref(), TokenType::Operator(_));
            let b = matches!(tk.tokens[j].deref(), TokenType::Operator(_));
            assert!(a || b);
            j += 1;
        }
        if is_op[0] { assert!(matches!(tk.tokens[0].deref(), TokenType::Number(v, _) if *v == 0.0)); }
    }
    vcover!(n >= 3 && !is_op[0] && !is_op[1] && !is_op[2]);
    vcover!(n >= 2 && is_op[0]);
    core::mem::forget(tk); core::mem::forget(s); core::mem::forget(cfg);
}

// ---------------------------------------------------------------- native replay of an engine-M expression counterexample
struct RefP<'a> { s: &'a [u8], xs: &'a [f64], i: usize, k: usize }
impl<'a> RefP<'a> {
    // alphabet index: 0 number, 1 '+', 2 '-', 3 '*', 4 '/', 5 '(', 6 ')'
    fn peek(&self) -> Option<u8> { self.s.get(self.i).copied() }
    fn expr(&mut self) -> Option<f64> {
        let mut v = self.term()?;
        loop {
            match self.peek() {
                Some(1) => { self.i += 1; v += self.term()?; }
                Some(2) => { self.i += 1; v -= self.term()?; }
                Some(0) | Some(5) => { v += self.term()?; }
                _ => return Some(v),
            }
        }
    }
    fn term(&mut self) -> Option<f64> {
        let mut v = self.factor()?;
        loop {
            match self.peek() {
                Some(3) => { self.i += 1; v *= self.factor()?; }
                Some(4) => { self.i += 1; let r = self.factor()?; v = if r == 0.0 { 0.0 } else { v / r }; }
                _ => return Some(v),
            }
        }
    }
    fn factor(&mut self) -> Option<f64> {
        match self.peek() {
            Some(1) => { self.i += 1; self.factor() }
            Some(2) => { self.i += 1; self.factor().map(|v| -v) }
            Some(0) => { self.i += 1; let v = self.xs[self.k]; self.k += 1; Some(v) }
            Some(5) => { self.i += 1; let v = self.expr()?; if self.peek() != Some(6) { return None; } self.i += 1; Some(v) }
            _ => None,
        }
    }
}

/// (n, n shape codes, one f64 per number token): the real glue + parser + interpreter on that token list must
/// not panic and, for a well-formed expression, must give the value of the usual rules
pub fn m_replay_expression() {
    let n: u8 = vany();
    vassume(n >= 1 && n <= 8);
    let mut shape = [0u8; 8];
    let mut i = 0usize;
    while i < n as usize { let c: u8 = vany(); vassume(c < 7); shape[i] = c; i += 1; }
    let mut xs = [0f64; 8];
    let mut k = 0usize;
    i = 0;
    while i < n as usize { if shape[i] == 0 { xs[k] = vany(); k += 1; } i += 1; }
    let cfg = blank_config();
    let s = Session::new();
    let mut tk = mk_tokinizer(&cfg, &s);
    let mut k2 = 0usize;
    i = 0;
    while i < n as usize {
        let t = match shape[i] { 0 => { k2 += 1; TokenType::Number(xs[k2 - 1], NumberType::Decimal) }, 1 => TokenType::Operator('+'), 2 => TokenType::Operator('-'),
            3 => TokenType::Operator('*'), 4 => TokenType::Operator('/'), 5 => TokenType::Operator('('), _ => TokenType::Operator(')') };
        tk.tokens.push(Rc::new(t));
        i += 1;
    }
    crate::tokinizer::verif_k_local::missing_token_adder(&mut tk);
    let mut p = SyntaxParser::new(&s, &tk);
    let parsed = p.parse();
    let mut rp = RefP { s: &shape[..n as usize], xs: &xs[..k], i: 0, k: 0 };
    let want = match rp.expr() { Some(v) if rp.i == n as usize => Some(v), _ => None };
    let got = match parsed {
        Ok(ast) => match Interpreter::execute(&cfg, Rc::new(ast), &s) {
            Ok(a) => item_value(a.deref()),
            Err(_) => None,
        },
        Err(_) => None,
    };
    if let Some(w) = want {
        let g = got.expect("a well-formed expression evaluates to a number");
        let scale = xs[..k].iter().fold(1.0f64, |a, b| a.max(b.abs()));
        assert!((g - w).abs() <= 1e-9 * scale.max(w.abs()) || g == w);
    }
}

/// totality of glue + parser + interpreter on a token list over {number,+,-,*,/,(,),word,zone}: must return (Ok or Err)
#[cfg(not(kani))]
pub fn m_replay_token_pipeline() {
    let n: u8 = vany();
    vassume(n >= 1 && n <= 8);
    let mut shape = [0u8; 8];
    let mut i = 0usize;
    while i < n as usize { let c: u8 = vany(); vassume(c < 9); shape[i] = c; i += 1; }
    let mut xs = [0f64; 8];
    let mut k = 0usize;
    i = 0;
    while i < n as usize { if shape[i] == 0 { xs[k] = vany(); k += 1; } i += 1; }
    let cfg = blank_config();
    let s = Session::new();
    let mut tk = mk_tokinizer(&cfg, &s);
    let mut k2 = 0usize;
    i = 0;
    while i < n as usize {
        let t = match shape[i] { 0 => { k2 += 1; TokenType::Number(xs[k2 - 1], NumberType::Decimal) }, 1 => TokenType::Operator('+'), 2 => TokenType::Operator('-'),
            3 => TokenType::Operator('*'), 4 => TokenType::Operator('/'), 5 => TokenType::Operator('('), 6 => TokenType::Operator(')'),
            7 => TokenType::Text("word".to_string()), _ => TokenType::Timezone("UTC".to_string(), 0) };
        tk.tokens.push(Rc::new(t));
        i += 1;
    }
    crate::tokinizer::verif_k_local::missing_token_adder(&mut tk);
    let mut p = SyntaxParser::new(&s, &tk);
    if let Ok(ast) = p.parse() { let _ = Interpreter::execute(&cfg, Rc::new(ast), &s); }
}
#[cfg(kani)]
pub fn m_replay_token_pipeline() {}

/// nested parentheses natively: (depth, x, y, z): ((( ... (x + y) ... ))) * z
#[cfg(not(kani))]
pub fn m_replay_nested() {
    let depth: u8 = vany(); let x: f64 = vany(); let y: f64 = vany(); let z: f64 = vany();
    vassume(depth >= 1 && x.is_finite() && y.is_finite() && z.is_finite());
    let cfg = blank_config();
    let s = Session::new();
    let mut tk = mk_tokinizer(&cfg, &s);
    let mut i = 0u8;
    while i < depth { tk.tokens.push(Rc::new(TokenType::Operator('('))); i += 1; }
    tk.tokens.push(Rc::new(TokenType::Number(x, NumberType::Decimal)));
    tk.tokens.push(Rc::new(TokenType::Operator('+')));
    tk.tokens.push(Rc::new(TokenType::Number(y, NumberType::Decimal)));
    i = 0;
    while i < depth { tk.tokens.push(Rc::new(TokenType::Operator(')'))); i += 1; }
    tk.tokens.push(Rc::new(TokenType::Operator('*')));
    tk.tokens.push(Rc::new(TokenType::Number(z, NumberType::Decimal)));
    crate::tokinizer::verif_k_local::missing_token_adder(&mut tk);
    let mut p = SyntaxParser::new(&s, &tk);
    let ast = p.parse().expect("a well-formed expression parses");
    let got = match Interpreter::execute(&cfg, Rc::new(ast), &s) { Ok(a) => item_value(a.deref()), Err(_) => None }.expect("evaluates to a number");
    let want = (x + y) * z;
    assert!((got - want).abs() <= 1e-9 * (x.abs() + y.abs() + want.abs()).max(1.0) || got == want);
}
#[cfg(kani)]
pub fn m_replay_nested() {}
