#!/usr/bin/env python3
"""Prepare a scratch copy of /repo for engine K (Kani) or for native replay.

Two declared, mechanical transformations (DESIGN.md 2.1); nothing existing in a
source file is edited except `use` items that import alloc's BTreeMap:

  * harness injection  - `src/verif_k/` (harness sources from /verif/kani/harness)
    is added and `mod verif_k;` appended to lib.rs; for harnesses that must see
    module-private items a `mod verif_k_local;` line is appended to that module.
  * container substitution (mode "kani" only) - every `use` that imports
    alloc::collections::{BTreeMap, btree_map::BTreeMap} is re-written so that the
    name BTreeMap resolves to crate::verif_map::BTreeMap (sorted-Vec model).

Exit status 2 (no verdict) if a post-condition fails.
"""
import os
import re
import shutil
import sys

HERE = os.path.dirname(os.path.abspath(__file__))
HARNESS_DIR = os.path.join(HERE, "harness")

# in-module harness files: harness file name -> module file (relative to src/)
LOCAL_MODULES = {
    "local_ui_token.rs": "token/ui_token.rs",
    "local_duration.rs": "compiler/duration.rs",
    "local_tokinizer.rs": "tokinizer/mod.rs",
    "local_rule_tokinizer.rs": "tokinizer/rule_tokinizer/mod.rs",
    "local_formatter.rs": "formatter/mod.rs",
    "local_unary.rs": "syntax/unary.rs",
    "local_syntax.rs": "syntax/mod.rs",
    "local_session.rs": "session.rs",
    "local_money.rs": "compiler/money.rs",
    "local_dynamic_type.rs": "compiler/dynamic_type.rs",
    "local_smartcalc.rs": "smartcalc.rs",
}


class InjectError(Exception):
    pass


# ---------------------------------------------------------------- use-tree parsing
def _tokenize_use(s):
    toks = []
    i = 0
    while i < len(s):
        c = s[i]
        if c.isspace():
            i += 1
        elif s.startswith("::", i):
            toks.append("::")
            i += 2
        elif c in "{},*":
            toks.append(c)
            i += 1
        else:
            m = re.match(r"[A-Za-z_][A-Za-z0-9_]*", s[i:])
            if not m:
                raise InjectError("cannot tokenise use item: %r" % s)
            toks.append(m.group(0))
            i += len(m.group(0))
    return toks


def _parse_tree(toks, pos, prefix, out):
    """tree := seg ('::' seg)* ['::' ('{' tree,* '}' | '*')] ['as' ident]"""
    path = list(prefix)
    while True:
        t = toks[pos]
        if t == "{":
            pos += 1
            while toks[pos] != "}":
                pos = _parse_tree(toks, pos, path, out)
                if toks[pos] == ",":
                    pos += 1
            return pos + 1
        if t == "*":
            out.append((path + ["*"], None))
            return pos + 1
        path.append(t)
        pos += 1
        if pos < len(toks) and toks[pos] == "::":
            pos += 1
            continue
        alias = None
        if pos < len(toks) and toks[pos] == "as":
            alias = toks[pos + 1]
            pos += 2
        out.append((path, alias))
        return pos


def flatten_use(body):
    toks = _tokenize_use(body)
    out = []
    pos = _parse_tree(toks, 0, [], out)
    if pos != len(toks):
        raise InjectError("trailing tokens in use item: %r" % body)
    return out


BT_PATHS = (
    ["alloc", "collections", "BTreeMap"],
    ["alloc", "collections", "btree_map", "BTreeMap"],
    ["std", "collections", "BTreeMap"],
    ["std", "collections", "btree_map", "BTreeMap"],
)

USE_RE = re.compile(r"^([ \t]*)((?:pub(?:\([a-z]+\))?\s+)?)use\s+([^;]+);", re.M)


def substitute_btreemap(text):
    """Returns (new_text, number_of_rewritten_use_items)."""
    count = 0

    def repl(m):
        nonlocal count
        indent, vis, body = m.group(1), m.group(2), m.group(3)
        if "BTreeMap" not in body:
            return m.group(0)
        leaves = flatten_use(body)
        if not any(p in BT_PATHS for p, _ in leaves):
            return m.group(0)
        lines = []
        for p, alias in leaves:
            if p in BT_PATHS:
                p = ["crate", "verif_map", "BTreeMap"]
                count += 1
            item = "::".join(p) + ((" as " + alias) if alias else "")
            lines.append("%s%suse %s;" % (indent, vis, item))
        # keep everything on one physical line so that line numbers of the
        # real code are unchanged in the copy (CBMC traces cite them)
        return " ".join(l.strip() if i else l for i, l in enumerate(lines))

    return USE_RE.sub(repl, text), count


# ---------------------------------------------------------------- main
def prepare(repo, dest, mode):
    assert mode in ("kani", "replay")
    if os.path.exists(dest):
        shutil.rmtree(dest)
    os.makedirs(dest)
    for name in ("Cargo.toml", "Cargo.lock", "build.rs"):
        p = os.path.join(repo, name)
        if os.path.exists(p):
            shutil.copy2(p, os.path.join(dest, name))
    shutil.copytree(os.path.join(repo, "src"), os.path.join(dest, "src"))
    src = os.path.join(dest, "src")
    report = {"mode": mode, "rewritten_use_items": 0, "files_rewritten": [], "local_modules": []}

    # --- container substitution
    if mode == "kani":
        for root, _, files in os.walk(src):
            for f in files:
                if not f.endswith(".rs"):
                    continue
                path = os.path.join(root, f)
                text = open(path, encoding="utf-8").read()
                new, n = substitute_btreemap(text)
                if n:
                    open(path, "w", encoding="utf-8").write(new)
                    report["rewritten_use_items"] += n
                    report["files_rewritten"].append(os.path.relpath(path, src))
        # post-condition: no import of alloc/std BTreeMap remains
        for root, _, files in os.walk(src):
            for f in files:
                if f.endswith(".rs"):
                    text = open(os.path.join(root, f), encoding="utf-8").read()
                    for m in USE_RE.finditer(text):
                        if "BTreeMap" in m.group(3) and any(p in BT_PATHS for p, _ in flatten_use(m.group(3))):
                            raise InjectError("BTreeMap import survived in %s" % f)
                    if re.search(r"(alloc|std)::collections::(btree_map::)?BTreeMap", text):
                        raise InjectError("qualified BTreeMap path in %s" % f)
        if report["rewritten_use_items"] < 10:
            raise InjectError("container substitution rewrote only %d imports; the crate layout changed" % report["rewritten_use_items"])
        shutil.copy2(os.path.join(HERE, "verif_map.rs"), os.path.join(src, "verif_map.rs"))

    # --- harness injection
    hk = os.path.join(src, "verif_k")
    os.makedirs(hk)
    mods = []
    for f in sorted(os.listdir(HARNESS_DIR)):
        if not f.endswith(".rs"):
            continue
        if f in LOCAL_MODULES:
            target = os.path.join(src, LOCAL_MODULES[f])
            if not os.path.exists(target):
                raise InjectError("module file for %s is missing: %s" % (f, LOCAL_MODULES[f]))
            tdir = os.path.dirname(target)
            # a non-mod.rs module file `x.rs` looks for children in `x/`; use #[path]
            shutil.copy2(os.path.join(HARNESS_DIR, f), os.path.join(tdir, "verif_k_" + f))
            with open(target, "a", encoding="utf-8") as fh:
                fh.write('\n#[cfg(any(kani, verif_replay))]\n#[path = "%s"]\npub(crate) mod verif_k_local;\n' % os.path.join(tdir, "verif_k_" + f))
            report["local_modules"].append(LOCAL_MODULES[f])
        elif f == "mod.rs":
            shutil.copy2(os.path.join(HARNESS_DIR, f), os.path.join(hk, f))
        else:
            shutil.copy2(os.path.join(HARNESS_DIR, f), os.path.join(hk, f))
            mods.append(f[:-3])
    with open(os.path.join(hk, "mod.rs"), "a", encoding="utf-8") as fh:
        for mname in mods:
            fh.write("pub mod %s;\n" % mname)
    lib = os.path.join(src, "lib.rs")
    text = open(lib, encoding="utf-8").read()
    if "#![no_std]" not in text:
        raise InjectError("lib.rs no longer starts with #![no_std]")
    text = text.replace("#![no_std]", "#![no_std]\n#![cfg_attr(kani, feature(allocator_api))]", 1)
    text += "\n#[cfg(any(kani, verif_replay))]\n#[allow(unused, dead_code)]\npub(crate) mod verif_k;\n"
    if mode == "kani":
        text += "#[allow(unused, dead_code)]\npub(crate) mod verif_map;\n"
    open(lib, "w", encoding="utf-8").write(text)
    # make the copy a standalone workspace
    cargo = os.path.join(dest, "Cargo.toml")
    ctext = open(cargo, encoding="utf-8").read()
    if "[workspace]" not in ctext:
        ctext += "\n[workspace]\n"
    # rustc must know the custom cfgs (warning hygiene only)
    open(cargo, "w", encoding="utf-8").write(ctext)
    return report


if __name__ == "__main__":
    if len(sys.argv) != 4:
        print("usage: inject.py <repo> <dest> kani|replay", file=sys.stderr)
        sys.exit(2)
    try:
        rep = prepare(sys.argv[1], sys.argv[2], sys.argv[3])
    except InjectError as e:
        print("inject: " + str(e), file=sys.stderr)
        sys.exit(2)
    print(rep)
