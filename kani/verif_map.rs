//! Order-preserving Vec-backed stand-in for alloc::collections::BTreeMap.
//! Verification builds only (engine K): injected into the scratch copy of the
//! repository by kani/inject.py, which redirects the crate's `use` of
//! alloc's BTreeMap to this type. std's B-tree is intractable for CBMC
//! (node splitting, MaybeUninit arrays); this model keeps the observable
//! behaviour of an ordered map for the subset of the API smartcalc uses.
#![allow(dead_code)]
use alloc::vec::Vec;
use core::borrow::Borrow;
use core::cmp::Ordering;

#[derive(Clone, Debug, PartialEq)]
pub struct BTreeMap<K, V> { items: Vec<(K, V)> }

impl<K, V> Default for BTreeMap<K, V> { fn default() -> Self { BTreeMap { items: Vec::new() } } }

impl<K, V> BTreeMap<K, V> {
    pub const fn new() -> Self { BTreeMap { items: Vec::new() } }
    pub fn len(&self) -> usize { self.items.len() }
    pub fn is_empty(&self) -> bool { self.items.is_empty() }
    pub fn iter(&self) -> impl Iterator<Item = (&K, &V)> { self.items.iter().map(|(k, v)| (k, v)) }
    pub fn keys(&self) -> impl Iterator<Item = &K> { self.items.iter().map(|(k, _)| k) }
    pub fn values(&self) -> impl Iterator<Item = &V> { self.items.iter().map(|(_, v)| v) }
    pub fn clear(&mut self) { self.items.clear() }
}

impl<K: Ord, V> BTreeMap<K, V> {
    fn find<Q: ?Sized + Ord>(&self, key: &Q) -> Result<usize, usize> where K: Borrow<Q> {
        let mut i = 0;
        while i < self.items.len() {
            match self.items[i].0.borrow().cmp(key) {
                Ordering::Equal => return Ok(i),
                Ordering::Greater => return Err(i),
                Ordering::Less => i += 1,
            }
        }
        Err(i)
    }
    pub fn insert(&mut self, key: K, value: V) -> Option<V> {
        match self.find(&key) {
            Ok(i) => Some(core::mem::replace(&mut self.items[i].1, value)),
            Err(i) => { self.items.insert(i, (key, value)); None }
        }
    }
    pub fn get<Q: ?Sized + Ord>(&self, key: &Q) -> Option<&V> where K: Borrow<Q> {
        match self.find(key) { Ok(i) => Some(&self.items[i].1), Err(_) => None }
    }
    pub fn get_mut<Q: ?Sized + Ord>(&mut self, key: &Q) -> Option<&mut V> where K: Borrow<Q> {
        match self.find(key) { Ok(i) => Some(&mut self.items[i].1), Err(_) => None }
    }
    pub fn contains_key<Q: ?Sized + Ord>(&self, key: &Q) -> bool where K: Borrow<Q> { self.find(key).is_ok() }
    pub fn remove<Q: ?Sized + Ord>(&mut self, key: &Q) -> Option<V> where K: Borrow<Q> {
        match self.find(key) { Ok(i) => Some(self.items.remove(i).1), Err(_) => None }
    }
}

impl<K: Ord, V, Q: ?Sized + Ord> core::ops::Index<&Q> for BTreeMap<K, V> where K: Borrow<Q> {
    type Output = V;
    fn index(&self, key: &Q) -> &V { self.get(key).expect("no entry found for key") }
}

impl<K: Ord, V> core::iter::FromIterator<(K, V)> for BTreeMap<K, V> {
    fn from_iter<T: IntoIterator<Item = (K, V)>>(iter: T) -> Self {
        let mut m = BTreeMap::new();
        for (k, v) in iter { m.insert(k, v); }
        m
    }
}

impl<'a, K, V> IntoIterator for &'a BTreeMap<K, V> {
    type Item = (&'a K, &'a V);
    type IntoIter = core::iter::Map<core::slice::Iter<'a, (K, V)>, fn(&'a (K, V)) -> (&'a K, &'a V)>;
    fn into_iter(self) -> Self::IntoIter {
        fn split<'b, K, V>(kv: &'b (K, V)) -> (&'b K, &'b V) { (&kv.0, &kv.1) }
        self.items.iter().map(split::<K, V> as fn(&'a (K, V)) -> (&'a K, &'a V))
    }
}

impl<K, V> serde::Serialize for BTreeMap<K, V> {
    fn serialize<S: serde::Serializer>(&self, _: S) -> Result<S::Ok, S::Error> { unimplemented!() }
}
impl<'de, K, V> serde::Deserialize<'de> for BTreeMap<K, V> {
    fn deserialize<D: serde::Deserializer<'de>>(_: D) -> Result<Self, D::Error> { unimplemented!() }
}
