"""Runs the native witness bodies (kani/harness/*.rs, built with --cfg verif_replay) on fixed inputs against /repo's working
tree, dev and release: on a tree where the properties hold every body must return without a failed assertion. A body
that fails here (or a harness that does not build) would turn solver findings into wrong or lost verdicts, so this is
run before committing changes to the harness. Usage: python3-vt tools/replaycheck.py"""
import sys, struct, os
sys.path.insert(0, os.path.join(os.path.dirname(os.path.abspath(__file__)), '..', 'lib'))
import engine_m
def f64(x): return list(struct.pack('<d', x))
def u8(x): return [x]
def u16(x): return list(struct.pack('<H', x))
def u32(x): return list(struct.pack('<I', x))
def i32(x): return list(struct.pack('<i', x))
cases = []
for k in range(4):
    cases.append(("m_replay_unit_calc", [u8(k), f64(5.0), f64(2.0)]))
    cases.append(("m_replay_unit_calc", [u8(k), f64(-7.25), f64(1e-3)]))
    cases.append(("m_replay_number_calc", [u8(k), f64(0.1), f64(0.2)]))
    cases.append(("m_replay_number_calc", [u8(k), f64(1e308), f64(1e-308)]))
    cases.append(("m_replay_number_calc", [u8(k), f64(3.0), f64(0.0)]))
cases += [("m_replay_print_callers", [f64(3.7)]), ("m_replay_print_callers", [f64(-1234567.891)]),
          ("m_replay_number_print", [u8(4), f64(1664582400.0)]), ("m_replay_number_print", [u8(2), f64(255.0)]), ("m_replay_number_print", [u8(4), f64(-5.0)]),
          ("m_replay_at_date", [u8(0), f64(0.0), i32(120), i32(-300)]), ("m_replay_at_date", [u8(1), f64(15.0), i32(120), i32(-300)]), ("m_replay_at_date", [u8(1), f64(25.0), i32(0), i32(0)]),
          ("m_replay_datetime_print", [u32(84600), i32(60)]), ("m_replay_datetime_print", [u32(1800), i32(-300)]), ("m_replay_datetime_print", [u32(0), i32(840)]),
          ("k_replay_session_reuse", []), ("m_replay_month_twice", []), ("k_replay_setters", [u8(0)]), ("k_replay_set_language", []), ("k_replay_api_rule_places", []),
          ("m_replay_unit_amount", [f64(3e19)]), ("m_replay_unit_amount", [f64(-9223372036854775809.0)]), ("m_replay_unit_amount", [f64(0.3)]),
          ("m_replay_token_location", [u8(2), u16(2), u16(5), u16(7), u16(9), u16(0), u16(2)]), ("m_replay_token_location", [u8(1), u16(2), u16(5), u16(1), u16(3)]),
          ("m_replay_token_location", [u8(0), u16(1), u16(3)]),
          ("m_replay_radix_literal", [u8(16), u8(16)] + [u8(15)] * 16), ("m_replay_radix_literal", [u8(16), u8(16), u8(7)] + [u8(15)] * 15), ("m_replay_radix_literal", [u8(2), u8(3), u8(1), u8(0), u8(1)]),
          ("m_replay_radix_literal", [u8(8), u8(22), u8(1)] + [u8(7)] * 21)]
for a in range(1, 5):
    for b in range(1, 5):
        cases.append(("k_replay_unit_chain", [u8(a), u8(b)]))
for e, t in (("Qjq", "qjq"), ("qxz", "QXZ"), ("qxz", "qxj"), ("zzz", "zzz")):
    cases.append(("k_replay_text_field", [u8(ord(c)) for c in e + t]))
for conv in range(4):
    for note in (0, 1, 3, 9):
        cases.append(("m_replay_number_literal", [u8(conv), u8(0), u8(1 if conv >= 2 else 2), u8(1), u8(0 if conv >= 2 else 3), u8(0), u8(2)] + [u8(5)] * (3 if conv >= 2 else 6) + [u8(note), u8(2)]))
        cases.append(("m_replay_number_literal", [u8(conv), u8(1), u8(1), u8(3), u8(0), u8(0), u8(0)] + [u8(4)] * 3 + [u8(note), u8(2)]))
cases += [("m_replay_number_literal", [u8(0), u8(0), u8(1), u8(20), u8(0), u8(0), u8(0)] + [u8(9)] * 20 + [u8(0), u8(0)]),
          ("m_replay_number_literal", [u8(1), u8(1), u8(3), u8(2), u8(3), u8(3), u8(2)] + [u8(7)] * 10 + [u8(1), u8(0)])]
def lit(kind, conv, text, want):
    raw = text.encode("utf-8")
    return ("m_replay_literal_string", [u8(kind), u8(conv), u8(len(raw))] + [u8(b) for b in raw] + [f64(want)])
cases += [lit(0, 0, "1,111.1", 1111.1), lit(0, 1, "-2.345.678,25", -2345678.25), lit(0, 0, "12k", 12000.0), lit(1, 0, "1,111.1%", 1111.1), lit(1, 1, "%1.250,5", 1250.5),
          lit(2, 0, "$1,500.25", 1500.25), lit(2, 1, "1.500 usd", 1500.0), lit(2, 0, "2k usd", 2000.0), lit(2, 0, "$3M", 3e6), lit(2, 1, "15  EUR", 15.0), lit(2, 0, "7 try", 7.0),
          lit(3, 0, "23:59", 0.0), lit(3, 0, "7:05:09", 0.0), lit(3, 0, "11 pm", 0.0), lit(3, 0, "9:30AM", 0.0),
          lit(4, 0, "0xFF", 255.0), lit(4, 0, "0o17", 15.0), lit(4, 0, "0b101", 5.0)]
r = engine_m.Replayer()
bad = 0
try:
    for name, vals in cases:
        for rel in (False, True):
            rec = r.replay(name, vals, release=rel)
            ok = rec.get("built") and not rec.get("reproduced")
            if not ok:
                bad += 1
                print("FAILS AT HEAD:", name, vals, "release" if rel else "dev", str(rec)[-600:])
finally:
    r.close()
print("checked", len(cases), "bad", bad)
sys.exit(1 if bad else 0)
