#!/bin/bash
# usage: tools/seedrun.sh <patch.diff> <property> [tier] [only-regex]
# applies a seeded change to /repo, runs the property's check, and restores /repo
patch=$1; prop=$2; tier=${3:-quick}; only=$4
cd /repo || exit 3
if ! git diff --quiet; then echo "/repo is dirty"; exit 3; fi
git apply "$patch" || { echo "patch does not apply"; exit 3; }
cd /verif
if [ -n "$only" ]; then ./verify $prop --tier $tier --only "$only"; else ./verify $prop --tier $tier; fi
rc=$?
git -C /repo checkout -- .
echo "SEEDRUN rc=$rc"
exit $rc
