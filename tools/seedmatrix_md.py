#!/usr/bin/env python3
"""Turns seeded/matrix.txt into the table of DESIGN.md section 8 and records the detection in each meta.json."""
import json
import os
import re

HERE = os.path.dirname(os.path.dirname(os.path.abspath(__file__)))
rows = []
for line in open(os.path.join(HERE, "seeded/matrix.txt")):
    parts = line.split()
    if not parts:
        continue
    sid = parts[0]
    meta_p = os.path.join(HERE, "seeded", sid, "meta.json")
    meta = json.load(open(meta_p))
    first = (meta.get("breaks_and_needs") or "").strip().split("\n")
    what = ""
    for l in first:
        l = l.strip(" -*#")
        if len(l) > 25:
            what = l
            break
    what = re.sub(r"\s+", " ", what)[:150]
    if "not-claimed" in line:
        det, by = "not applicable (property not claimed)", ""
    else:
        rc = re.search(r"rc=(\d*)", line).group(1)
        viol = int(re.search(r"violations=(\d+)", line).group(1))
        by = " ".join(p for p in parts[3:] if "_known_" not in p)   # known-finding harnesses always "fail" by design
        if not by:
            log = "/tmp/seedrun_%s.log" % sid
            if os.path.exists(log):
                by = " ".join(sorted(set(re.findall(r"replay=\S*/C\d\d-(\w+?)-[0-9a-f]{10}\.json", open(log).read()))))
        if rc == "1" and viol:
            det = "**VIOLATION** (reproduced natively)"
        elif rc == "2":
            det = "exit 2 (inconclusive: %s)" % by
        elif rc == "0":
            det = "missed"
        else:
            det = "rc=%s" % rc
    meta["detection"] = {"quick_check": det, "parts": by}
    json.dump(meta, open(meta_p, "w"), indent=1)
    rows.append("| %s | %s | %s | %s |" % (sid, what.replace("|", "/"), det, by.replace("|", "/")))
table = "| seed | what it changes | quick check of its property | parts that fired |\n|---|---|---|---|\n" + "\n".join(rows)
p = os.path.join(HERE, "DESIGN.md")
s = open(p).read()
if "SEED-MATRIX-PLACEHOLDER" in s:
    s = s.replace("SEED-MATRIX-PLACEHOLDER", "<!-- seed-matrix:begin -->\n" + table + "\n<!-- seed-matrix:end -->")
else:
    s = re.sub(r"<!-- seed-matrix:begin -->.*?<!-- seed-matrix:end -->", "<!-- seed-matrix:begin -->\n" + table + "\n<!-- seed-matrix:end -->", s, flags=re.S)
open(p, "w").write(s)
det = sum(1 for r in rows if "VIOLATION" in r)
print("%d seeds, %d detected as VIOLATION" % (len(rows), det))
