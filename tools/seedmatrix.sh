#!/bin/bash
# run every seeded change of the claimed properties through its property's check; writes /verif/seeded/matrix.txt
# usage: tools/seedmatrix.sh [quick|thorough] [fast]
#   fast: only the parts that caught the seed in the last recorded run (seeded/<id>/meta.json detection.parts);
#         a regression run of the detection, much shorter than the whole check of every property
cd /verif
tier=${1:-quick}; mode=$2
claimed=$(python3 -c "import json;print(' '.join(c['property_id'] for c in json.load(open('MANIFEST.json'))['checks']))")
out=seeded/matrix.txt.new; : > $out
for d in seeded/C*-[a-h]; do
  sid=$(basename $d)
  p=$(echo $sid | cut -d- -f1)
  case " $claimed " in *" $p "*) ;; *) echo "$sid not-claimed" >> $out; continue;; esac
  only=""
  if [ "$mode" = "fast" ]; then
    only=$(python3 -c "
import json,re
m=json.load(open('$d/meta.json'))
parts=(m.get('detection') or {}).get('parts','') if isinstance(m.get('detection'),dict) else ''
names=[x.split(':')[0] for x in parts.split() if x and '_known_' not in x]
print('|'.join('^'+re.escape(n)+'\$' for n in names))")
  fi
  log=/tmp/seedrun_$sid.log
  tools/seedrun.sh /verif/$d/patch.diff $p $tier "$only" > $log 2>&1
  rc=$(grep -o "SEEDRUN rc=[0-9]*" $log | cut -d= -f2)
  v=$(grep -c "^VIOLATION" $log)
  parts=$(grep -E "\[(K|M|D)\] .* (fail|inconclusive)" $log | awk '{print $2":"$3}' | tr '\n' ' ')
  if [ -z "$parts" ]; then parts=$(grep -o "replay=[^ ]*" $log | sed -E 's#.*/C[0-9]+-(.*)-[0-9a-f]{10}\.json#\1:fail#' | sort -u | tr '\n' ' '); fi
  echo "$sid rc=$rc violations=$v $parts" >> $out
  git -C /repo checkout -- . 2>/dev/null
done
mv $out seeded/matrix.txt
cat seeded/matrix.txt
