#!/bin/bash
# run every seeded change of the claimed properties through its property's quick check; writes /verif/seeded/matrix.txt
cd /verif
claimed=$(python3 -c "import json;print(' '.join(c['property_id'] for c in json.load(open('MANIFEST.json'))['checks']))")
out=seeded/matrix.txt; : > $out
for d in seeded/C*-[a-d]; do
  p=$(basename $d | cut -d- -f1)
  case " $claimed " in *" $p "*) ;; *) echo "$(basename $d) not-claimed" >> $out; continue;; esac
  log=/tmp/seedrun_$(basename $d).log
  tools/seedrun.sh /verif/$d/patch.diff $p ${1:-quick} > $log 2>&1
  rc=$(grep -o "SEEDRUN rc=[0-9]*" $log | cut -d= -f2)
  v=$(grep -c "^VIOLATION" $log)
  parts=$(grep -E "\[(K|M|D)\] .* (fail|inconclusive)" $log | awk '{print $2":"$3}' | tr '\n' ' ')
  echo "$(basename $d) rc=$rc violations=$v $parts" >> $out
  git -C /repo checkout -- . 2>/dev/null
done
cat $out
