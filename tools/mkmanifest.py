#!/usr/bin/env python3
"""Regenerates /verif/MANIFEST.json from the tables below (kept in sync with lib/props.py)."""
import json
import os

HERE = os.path.dirname(os.path.dirname(os.path.abspath(__file__)))

K = "Kani 0.68 / CBMC 6.11 / CaDiCaL bounded model checking of the compiled code (harnesses injected into a scratch copy of /repo)"
M = "symbolic execution of the nightly MIR dump of /repo's functions by /verif/lib/mirsmt, path by path, decided by z3 (integers exact, f64 as real relaxation), counterexamples replayed natively"
D = "config.json programs/tables translated to SMT (z3 reals), walk model validated against the native crate"

CHECKS = {
    "C01": ("K", "model_checking",
            "line splitting: Session::set_text on every text of <= 4 lines with symbolic line contents and every LF/CRLF separator pattern (also mixed) stores exactly one part per line (MIR; Regex::split modelled for the constant pattern \\r\\n|\\n only); execute_session's loop: for every line count 1..4 and every per-line outcome exactly one slot per line, status true (CBMC); stages C-E (token glue, parser ladder, interpreter) executed symbolically from MIR on every token list of length <= 4 (quick) / 5 (thorough) over {number, + - * / ( )} and over the same alphabet plus an unabsorbed word and a time-zone name: no satisfiable panic path, every loop and recursion terminates (a loop the executor cannot leave is replayed natively; a run that does not return is the violation); the number / percent / money literal tokenisers on every text their number group can match (digit runs joined by ',' '.' in any mixture; radix literals up to 17 / 22 / 64 digits) and '<date> at N' for every number: no panic; every straight-line program of <= 2 lines through the real variable machinery with RefCell borrows of the variable slots tracked (re-assigning a variable in terms of itself does not panic); the clock-time tokeniser's kernel under every zone offset; panic-freedom of the rule functions and DataItem kernels is decided by the engine-M parts of C05/C06/C09/C10/C11/C13/C14 (every panic path of the translated functions is a reachability query)",
            "stage A (regex tokenisers, load_from_json) is outside the claim; the regex engine itself is a contract model in the line-splitting part; execute_text is a nondeterministic stub inside the loop harness; token lists are bounded in length and alphabet",
            "solver-based: CBMC bounded model checking + z3 over MIR-derived path conditions"),
    "C02": ("K+M", "model_checking",
            "the REAL token glue, parser ladder and interpreter, translated from MIR, on every well-formed token list of length <= 6, every token list of length <= 4 and a seeded sample of lengths 7-8 (quick) / every token list of length <= 8 (thorough) over {number, + - * / ( )}: parentheses nested 9 / 17 / 33 / 40 deep (quick; every depth 1..48, 64, 100 thorough) around x + y times z evaluate to (x + y) z; every well-formed expression evaluates to the value given by precedence, left associativity, parentheses, sign prefixes, juxtaposition = '+' and x/0 = 0 for ALL real operand values (shapes enumerated exhaustively, values symbolic, z3); plus NumberItem::calculate on all f64 pairs (CBMC); a text round trip of a result through format!(\"{:.Pe}\") and parse is modelled as rounding to P+1 significant digits, so a result that is 'tidied' that way is found and replayed against the exact double operation; add_token_location never records a span that starts or ends inside a recognised token (a later pattern cannot claim characters of an earlier token); a literal of one run of 19 / 20 symbolic digits is the number written (no integer type in the reader's way)",
            "literal spelling / spacing / k-M-G suffixes are stage A (regex) and outside; f64 rounding of individual operations outside (real relaxation); expression length bounded",
            "solver-based: z3 over SMT generated from the MIR of the real parser/interpreter + CBMC"),
    "C03": ("M", "translation_validation",
            "every straight-line program of <= 3 lines (quick; plus all three names bound then any two statements) / <= 4 lines (thorough) over 27 statement templates (assignments, self-referential re-assignments, uses, lines failing in the parser, lines failing in the interpreter, copies, a name spelled with capitals, a three-word name followed by an operator and another name, a name directly followed by another name, a name with an operator character inside that is bound twice, a percentage-valued variable behind a sign) with one-, two- and three-word names where one name is a prefix of another, through the REAL update_token_variables, token_generator, token_cleaner, missing_token_adder, AssignmentParser and interpreter (MIR): each line evaluates to the value given by the latest bindings for ALL real constants",
            "names are Text tokens (case folding and literal spelling are stage A); values are numbers; program length and name pool bounded",
            "solver-based: z3 over SMT generated from the MIR, program shapes enumerated exhaustively"),
    "C04": ("K+M", "model_checking",
            "session re-use: set_text puts the cursor back and stores exactly the lines of the new text, one part per line for every LF/CRLF separator pattern of <= 4 lines (z3/path enumeration over its MIR); from that state execute_session returns exactly line_count slots for every n <= 4 and every per-line outcome (CBMC); calculator immutability: neither applying nor declining a rule writes into the calculator's own pattern tokens (rule_tokinizer from MIR, rule decision symbolic); a re-used session keeps its variables: every straight-line program of <= 3 lines with a failing line (also a failing re-assignment) leaves all bindings as they were; converting a quantity writes nothing into the unit descriptions the configuration owns (calculate_unit from MIR with the program evaluation stubbed), so a later conversion cannot depend on an earlier one; Session::set_language writes the language and nothing else (the variables of a re-used session survive it); execute() builds a fresh session",
            "Regex::split is a contract model for the constant line-separator pattern; immutability is decided for the rule-rewriting stage (the only stage that holds references into the configuration's token objects) with one API rule",
            "solver-based: MIR symbolic execution + CBMC"),
    "C05": ("M+K", "translation_validation",
            "all percentage formulas: number_on/of/off, find_numbers_percent, find_total_from_percent, X +- p% for numbers and money: on every path of the translated functions the result equals the textbook formula over the reals, zero divisors yield 0, money keeps its currency, no panic and no Err under the rule patterns (exactly the fields of the matched pattern are bound); every phrase of the property as a token line through the REAL rule table of config.json (patterns dumped natively from the loader on every run), rule_tokinizer / find_match, glue, parser and interpreter: the phrase evaluates to its formula in the operand's kind and currency, i.e. each pattern reaches its own rule function with the right field names and no other rule captures the tokens; CBMC adds the result kinds on all f64",
            "f64 rounding of individual operations is outside (real relaxation); the two spellings p% / %p are regex; Variable operands (dyn Any downcast) are outside",
            "solver-based: z3 over SMT generated from the MIR of the real functions"),
    "C06": ("M+K", "translation_validation",
            "convert_money and MoneyItem::calculate for symbolic rates and currencies: amount / rate(A) * rate(B), identity for A = B, left currency kept, scaling by numbers, money/money as plain ratio; update_currency(name, rate) succeeds exactly for a configured code or alias and changes the (symbolic) rate table at exactly that currency to the new rate, so that with convert_money decided for an arbitrary rate table a changed rate takes effect for exactly that currency in all later conversions; CBMC adds kinds/currency identity on all f64; the money literal kernel (PRICE group written in the configured convention, magnitude suffix a symbolic text, currency through the symbolic tables) denotes the amount times the suffix's power of 1000; rule wiring: the property's phrases as token lines through rule_tokinizer with config.json's own rule table (dumped natively per run): each phrase is taken by exactly its rule function with the fields bound by name to the right tokens",
            "rate table lookups are uninterpreted functions of the currency; literal spellings are outside; f64 rounding outside",
            "solver-based: z3 over SMT generated from the MIR of the real functions"),
    "C18": ("M", "translation_validation",
            "registration bookkeeping: every sequence of <= 4 (quick) / 5 (thorough) calls of add_rule / delete_rule / add_dynamic_type / add_dynamic_type_item with three rule objects whose names are symbolic strings, two languages (one unknown), one family, two indices: return values and resulting rule order / family tables equal a reference list model (add fails only for an unknown language, delete removes the first rule of that name, duplicates rejected without change); API-rule effect: a match calls the rule with fields bound by name and replaces exactly the matched span, a declining rule leaves the line unchanged; a rule with two patterns that declines the match of its first pattern still gets the match of its second; a line with two places matching one pattern has both rewritten, each from its own fields; a {TEXT:name:EXPECTED} field matches exactly the texts equal to EXPECTED ignoring case, whatever the case of EXPECTED (three symbolic letters each); a user family of four units converts along its declared chain for every ordered pair (programs opaque, order and value threading claimed), also when the steps do not commute; a user-defined unit is recognised in a line (dynamic_type_tokinizer) for a number literal and equally for a variable holding the number, without writing into the unit descriptions",
            "pattern tokenisation of rule strings (add_rule runs the regex tokeniser on its patterns) and user-family conversion arithmetic are outside: rules are registered with empty pattern lists in the bookkeeping spec and with a hand-built pattern in the effect spec",
            "solver-based: z3 over SMT generated from the MIR, call sequences enumerated exhaustively"),
    "C07": ("M", "translation_validation",
            "formatter::format_number from MIR with float -> decimal text as a contract model ({:.N} gives the digits of |x| 10^N rounded half-even, {} the shortest exact text): for every real |x| < 10^7, digit counts 0..3 (and 10, 19 for |x| < 1000), both zero-removal settings and symbolic separator strings the output is [-] + the integer digits grouped in threes by the thousands separator + [decimal separator + fraction digits], the fraction omitted exactly when removal is on and every printed fraction digit is 0; the same with every float operation of the code carrying a relative error <= 2^-53 (a second, separately rounded computation cannot decide the digits); no panic for any digit count; print of numbers, percentages, money and unit quantities hands its own value, separators and settings to format_number once and composes '%', currency symbol side/blank and the unit format around it; the five configuration setters store exactly their arguments for every argument and every current setting (no order dependence between set_decimal_seperator and set_thousand_separator)",
            "the digit generation of core::fmt (grisu/dragon) is assumed to meet its documentation and is not executed; more than 7 integer digits and, with rounding off, more than 3 fraction digits are outside the bound; values are reals (NaN/inf outside)",
            "solver-based: z3 over SMT generated from the MIR, digit-count shapes enumerated, digits symbolic"),
    "C08": ("M+D", "translation_validation",
            "reading: the number / percent / money tokenisers' kernel (one regex match as input; the number group a literal WRITTEN in the configured convention - optional sign, 1..3 digit groups joined by the thousands separator, optional decimal separator and 1..3 fraction digits, digits symbolic; str::replace and f64 parsing modelled on the written text) yields the intended number under both conventions the literal regexes admit ('.' decimal with ',' groups, ',' decimal with '.' groups), so a literal rewritten into the other convention denotes the same value under that configuration; computing: no rule function and no calculate kernel reads the separator settings (symbolic execution of all their paths never touches the two configuration fields), unit conversion - the one computation that re-enters the reader - agrees with the unit definitions under both conventions and on a calculator whose separators are switched between evaluations (engine D, native comparison on all 1089 pairs); printing: format_number inserts the separators between digits that do not depend on them (C07, separators symbolic); configuring: the separator setters store their arguments unconditionally, so every configuration is reachable in either order",
            "the regex engine (which texts are matched) is outside; separators other than '.' and ',' cannot occur in literals the patterns admit; f64 rounding outside (real relaxation)",
            "solver-based: z3 over SMT generated from the MIR with structured literal texts; z3 over config.json's unit programs"),
    "C09": ("K+M", "model_checking",
            "DateItem::calculate on the real chrono: every date of years 1..9999 +- n days (-30 < n < 30, negative counts included) is exactly n days away; + Y years M months keeps the day and moves the month index by 12Y+M inside the stated region (CBMC); DateItem::print reads every day / month / year it shows from the item's own calendar date for every zone offset (the zone never moves a date to its neighbour); DateTimeItem::print reads every calendar and clock field (also the year it compares with the running year to choose the layout) from the instant moved into the item's zone; small_date accepts exactly the calendar dates and denotes them (z3 over MIR, Gregorian model validated against chrono by CBMC); 'A to B' on dates is the absolute difference; rule wiring: the property's phrases as token lines through rule_tokinizer with config.json's own rule table (dumped natively per run): each phrase is taken by exactly its rule function with the fields bound by name to the right tokens",
            "month/year arithmetic of DateItem::calculate outside the stated region (December landings, day > 28, subtraction across a year boundary, day counts >= 30 that are not month multiples) is NOT claimed: it has defects documented in DESIGN.md section 7; date spellings are regex",
            "solver-based: CBMC bounded model checking + z3 over MIR"),
    "C10": ("M", "translation_validation",
            "duration_parse (unit lengths, |N| <= 10^6), combine_durations (sum of 2..6 parts), as_duration (floor to unit), DurationItem::calculate (+,-), DurationItem::print (greedy decomposition: parts sum to |D|, counts >= 1 and below the next unit, descending; a non-zero duration - negative ones included - never prints as nothing when a format table exists) for every duration in chrono's range; integers exact; rule wiring: the property's phrases as token lines through rule_tokinizer with config.json's own rule table (dumped natively per run): each phrase is taken by exactly its rule function with the fields bound by name to the right tokens",
            "unit word spellings / singular-plural word choice are data + regex; chrono's TimeDelta modelled as whole seconds",
            "solver-based: z3 (linear integer arithmetic) over SMT generated from the MIR"),
    "C11": ("M", "translation_validation",
            "TimeItem::calculate moves the clock by D mod 24 h in the right direction for every time and duration; DurationItem::as_time is |D| mod 24 h; convert_timezone keeps the instant and installs the target offset; time_with_timezone keeps the wall reading for all offsets within +-14 h; TimeItem::print puts the hour / minute / second of the wall time (instant + zone offset) modulo 24 h into the text (0..23, 0..59, 0..59) followed by the zone name; the clock-time tokeniser's kernel (time_regex_parser with one regex match as symbolic input, constrained by what config.json's time patterns can match): the literal is the instant today + wall time - configured offset with the day carry, pm adds 12 hours ('12 am' read as noon is a recorded known finding); parse_timezone on symbolic captures; rule wiring: the property's phrases as token lines through rule_tokinizer with config.json's own rule table (dumped natively per run): each phrase is taken by exactly its rule function with the fields bound by name to the right tokens",
            "chrono modelled as (day number, second of day); chrono::Local modelled as one arbitrary fixed offset; the regex engine itself is outside: a match is an input whose groups satisfy what the patterns guarantee; zone table lookup is data",
            "solver-based: z3 over SMT generated from the MIR with validated chrono models"),
    "C12": ("D", "translation_validation",
            "all 1089 ordered pairs of the 33 configured units: the composed conversion programs equal the standard definitions, different kinds have no path, round trips and transitivity hold (z3 over exact rationals); the walk model is compared with the native crate on all pairs at four amounts (0, 1, 7.5, 3e19) under both separator conventions ('.' decimal and the default ',' decimal) on every run; calculate_unit runs the declared programs of the units between source and target in chain order, each on the previous result (four-unit chain, all ordered pairs, programs opaque); the text put in place of {value} is the amount itself for every finite amount (native comparison also at 3e19, beyond the 64-bit integers); DynamicTypeItem::calculate converts the right operand into the left unit, keeps the unit when scaling, yields a plain number for a ratio (z3 over MIR, conversion uninterpreted); rule wiring: the property's phrases as token lines through rule_tokinizer with config.json's own rule table (dumped natively per run): each phrase is taken by exactly its rule function with the fields bound by name to the right tokens",
            "f64 rounding along the chain and separator-dependent re-tokenisation (C08) are outside",
            "solver-based: z3 over the linear programs of config.json + native translator validation"),
    "C13": ("M+K", "translation_validation",
            "NumberItem::print hands the {:#b}/{:#o}/{:#X} formatter exactly N for every integer 0 <= N <= 2^53; number_type_convert rounds half away from zero and sets the named type for all five keywords; NumberItem::calculate keeps the left NumberType (CBMC, all f64); the printed integer is N also when every float operation of the printing code carries a relative error <= 2^-53 (no rounding helper may move an exactly representable integer); 0x / 0o / 0b literals of up to 17 / 22 / 64 symbolic digits denote the integer written, longer ones are skipped without a panic, and every literal the reader accepts prints back as the integer written (reader and NumberItem::print composed on one path); add_token_location refuses a span that starts or ends inside a recognised token, so the decimal pattern cannot swallow the sign glued to a based literal; rule wiring: the property's phrases as token lines through rule_tokinizer with config.json's own rule table (dumped natively per run): each phrase is taken by exactly its rule function with the fields bound by name to the right tokens",
            "which texts the number patterns match (regex engine, pattern order in config.json) is outside; the radix reader is decided from the match onwards",
            "solver-based: z3 over MIR + CBMC"),
    "C14": ("M", "translation_validation",
            "from_unixtime / to_unixtime are mutually inverse for all timestamps of years 1..9999, '<date> as unix' is midnight UTC, the Raw print shows every digit of every such timestamp; a date-time (time, date, number, money, duration) held by a variable is read back by the field getters as exactly the stored value and zone, so 'a = N to ZONE', 'a as unix' returns N; the requested GMT+-h:mm zone denotes sign * (60 h + mm) minutes; DateTimeItem::print reads every calendar and clock field - also the year compared with the running year - from the instant moved into the item's zone; small_date denotes the calendar date written (no two-digit-year expansion); '<date> at <time>' is that date at the time's own clock reading whatever zones the two operands carry; a timestamp prints as its digits also under number settings that keep fraction digits; rule wiring: the property's phrases as token lines through rule_tokinizer with config.json's own rule table (dumped natively per run): each phrase is taken by exactly its rule function with the fields bound by name to the right tokens",
            "chrono's from_timestamp/timestamp/and_hms are modelled on (day number, second of day); month names / format strings of the print and at_date spellings are data and outside",
            "solver-based: z3 over SMT generated from the MIR with chrono models"),
}

NA = {
    "C07": "float -> decimal conversion ({:.N}, to_string: grisu/dragon big-number loops) is the subject and cannot be executed symbolically within reach; a contract-stub harness was not completed",
    "C08": "mechanism is str::replace + f64::parse inside regex-capture loops and re-tokenisation of number.to_string(); the regex engine and float<->string conversion cannot be executed symbolically within reach",
    "C15": "printer/reader round trip: both ends are string/regex code (format strings, word lists, literal regexes) with no arithmetic kernel to encode",
    "C16": "about stage A only (regex order, span claiming, to_lowercase comparisons over arbitrary text); nothing of it survives below the tokeniser",
    "C17": "UiTokenCollection is Vec surgery + sort_by over byte/char offset tables built from arbitrary strings; CBMC harnesses ran out of memory; no finished solver-based check yet",
    "C19": "relation between two evaluations through per-language word tables and alias/month regexes; the relabelling itself is data + regex matching",
}


def main():
    checks = []
    for pid in sorted(CHECKS):
        eng, level, text, note, tech = CHECKS[pid]
        checks.append({
            "property_id": pid,
            "quick_cmd": "./verify %s --tier quick" % pid,
            "thorough_cmd": "./verify %s --tier thorough" % pid,
            "evidence_file": "/verif/evidence/%s.json" % pid,
            "replay_cmd_template": "./verify replay {path}",
            "engine": eng,
            "level_claimed": {"category": level, "text": text, "design_ref": "DESIGN.md section 4 / %s" % pid},
            "level_note": note,
            "technique": tech,
        })
    m = {
        "version": 1,
        "setup_cmd": "./verify setup",
        "hooks": {
            "guard": "kani",
            "enable": "no source hooks in /repo: checks copy /repo's working tree to a scratch directory and inject harness modules there under cfg(kani) (set by the Kani compiler) or cfg(verif_replay) (native replay); engine M reads the nightly MIR dump of an unmodified copy",
            "baseline_off_cmd": "cd /repo && cargo test --workspace --no-fail-fast --offline",
            "source_commits": [],
            "add_only": True,
        },
        "engines": [
            {"name": "K", "path": "lib/kani.py", "serves_properties": sorted(p for p in CHECKS if "K" in CHECKS[p][0]), "kind_free_text": K},
            {"name": "M", "path": "lib/engine_m.py", "serves_properties": sorted(p for p in CHECKS if "M" in CHECKS[p][0]), "kind_free_text": M},
            {"name": "D", "path": "lib/engine_d.py", "serves_properties": sorted(p for p in CHECKS if "D" in CHECKS[p][0]), "kind_free_text": D},
        ],
        "checks": checks,
        "not_applicable": [{"property_id": p, "reason": NA[p]} for p in sorted(NA) if p not in CHECKS],
        "notes": "exit codes: 0 = held on everything explored (after KNOWN-FINDING lines), 1 = violation reproduced natively (VIOLATION line), 2 = inconclusive (translator refusal, failed unwinding assertion, vacuity, non-reproducing counterexample); timeouts/OOM of single harnesses are reported as unexplored in the evidence. Genuine defects repaired by 'fix:' commits in /repo are listed in known_findings.json.",
    }
    with open(os.path.join(HERE, "MANIFEST.json"), "w") as fh:
        json.dump(m, fh, indent=1)
        fh.write("\n")
    print("MANIFEST.json: %d checks, %d not applicable" % (len(checks), len(m["not_applicable"])))


if __name__ == "__main__":
    main()
