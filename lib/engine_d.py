"""Engine D: data that is code. config.json's unit programs, rule patterns and word tables are
translated to SMT (reals / integers) and decided by z3; the hand-written walk model of
`DynamicTypeItem::{calculate_unit, convert}` is validated against the native code on every run.

Registers props.D_FUNCS[prop] = fn(tier, only) -> (parts, assumptions, extra_coverage)."""
import json
import os
import re
import time
from fractions import Fraction

import z3

import common
from check import Part
from common import log

STD = {
    # kind -> unit (first name in config.json) -> size in the kind's base unit (exact)
    "length": {"mm": 1, "cm": 10, "dm": 100, "m": 1000, "dam": 10 ** 4, "hm": 10 ** 5, "km": 10 ** 6,
               "in": Fraction(254, 10), "ft": Fraction(254 * 12, 10), "yard": Fraction(254 * 36, 10),
               "chain": Fraction(254 * 36 * 22, 10), "furlong": Fraction(254 * 36 * 220, 10), "mile": Fraction(254 * 36 * 1760, 10)},
    "weight": {"mg": 1, "cg": 10, "dg": 100, "g": 1000, "dag": 10 ** 4, "hg": 10 ** 5, "kg": 10 ** 6, "tonne": 10 ** 9,
               "oz": Fraction(283495231, 10 ** 4), "lb": Fraction(283495231 * 16, 10 ** 4), "st": Fraction(283495231 * 16 * 14, 10 ** 4)},
    "memory": dict([("bit", 1), ("byte", 8)] + [(n, 8 * 1024 ** (i + 1)) for i, n in enumerate(["kb", "mb", "gb", "tb", "pb", "eb", "zb", "yb"])]),
}
KIND_OF_GROUP = {"metric-length": "length", "imperial-unit-length": "length", "metric-weight": "weight",
                 "imperial-unit-weight": "weight", "memory": "memory"}


def load_config():
    return json.load(open(os.path.join(common.REPO, "src/json/config.json")))


CODE_RE = re.compile(r"^\{value\}(?:\s*([*/])\s*([0-9.]+))?$")


def code_factor(code):
    """'{value}', '{value} * c', '{value} / c' -> exact linear factor; anything else -> None"""
    m = CODE_RE.match((code or "").strip())
    if not m:
        return None
    if not m.group(1):
        return Fraction(1)
    c = Fraction(m.group(2))
    return c if m.group(1) == "*" else 1 / c


class Units:
    """model of the walk performed by DynamicTypeItem::calculate_unit / convert over config.json"""

    def __init__(self, cfg):
        self.cfg = cfg
        self.groups = {}
        self.bad_codes = []
        for t in cfg["types"]:
            g = {}
            for it in t["items"]:
                up, down = code_factor(it.get("upgrade_code") or ""), code_factor(it.get("downgrade_code") or "")
                if (it.get("upgrade_code") and up is None) or (it.get("downgrade_code") and down is None):
                    self.bad_codes.append((t["name"], it["index"]))
                g[it["index"]] = {"names": it["names"], "up": up, "down": down, "index": it["index"]}
            self.groups[t["name"]] = g
        self.conv = cfg["type_conversion"]

    def units(self):
        for gname, g in self.groups.items():
            for idx in sorted(g):
                yield gname, idx, g[idx]["names"][0]

    def calculate_unit(self, gname, src, dst):
        """factor of group[src] -> group[dst] as the code walks it, or None"""
        g = self.groups[gname]
        if src == dst:
            return Fraction(1)
        if src not in g:
            return None
        f = Fraction(1)
        item = g[src]
        up = dst > src
        search = src + 1 if up else src - 1
        while True:
            k = item["up"] if up else item["down"]
            if k is None:
                return None
            f *= k
            item = g.get(search)
            if item is None:
                return None
            search = search + 1 if up else search - 1
            if item["index"] == dst:
                break
            if abs(search) > 1000:
                return None
        return f

    def convert(self, gname, src, target_name):
        """(factor, target group, target index) as DynamicTypeItem::convert computes it, or None"""
        g = self.groups[gname]
        for idx in sorted(g):
            if target_name in g[idx]["names"]:
                f = self.calculate_unit(gname, src, idx)
                return None if f is None else (f, gname, idx)
        tc = None
        for c in self.conv:
            if c["source"]["name"] == gname or c["target"]["name"] == gname:
                tc = c
                break
        if tc is None:
            return None
        ours_is_source = tc["source"]["name"] == gname
        s_idx, t_idx = (tc["source"]["index"], tc["target"]["index"]) if ours_is_source else (tc["target"]["index"], tc["source"]["index"])
        if s_idx not in g:
            return None
        f1 = self.calculate_unit(gname, src, s_idx)
        if f1 is None:
            return None
        k = code_factor(tc["to_source_calculation"] if ours_is_source else tc["to_target_calculation"])
        if k is None:
            return None
        # the target is searched in the family on the other side of the bridge
        g2name = tc["target"]["name"] if ours_is_source else tc["source"]["name"]
        g2 = self.groups.get(g2name)
        if g2 is None:
            return None
        for idx in sorted(g2):
            if target_name in g2[idx]["names"]:
                if t_idx not in g2:
                    return None
                f2 = self.calculate_unit(g2name, t_idx, idx)
                return None if f2 is None else (f1 * k * f2, g2name, idx)
        return None


def rq(fr):
    fr = Fraction(fr)
    return z3.Q(fr.numerator, fr.denominator)


def native_unit_table(replayer):
    """run the real crate on every ordered pair of units (amounts 0, 1, 7.5 and 3e19 - beyond the 64-bit integers); returns {(a,b,amount): float|None}"""
    rec = replayer.replay("d_dump_units", [], release=False, raw=True)
    table = {}
    for line in (rec.get("output") or "").splitlines():
        m = re.match(r"^UNITS (\S+) (\S+) (\S+) (\S+)$", line.strip())
        if m:
            table[(m.group(1), m.group(2), m.group(3))] = None if m.group(4) == "ERR" else float(m.group(4))
    return table, rec


def check_units(tier, only):
    t0 = time.time()
    parts = []
    cfg = load_config()
    U = Units(cfg)
    units = list(U.units())
    known = common.load_known()
    p_shape = Part("D", "d_unit_programs_linear", "every upgrade/downgrade/bridge program in config.json is '{value}', '{value} * c' or '{value} / c' (linear by construction); every configured unit has a standard definition to be judged against")
    p_shape.functions = ["config.json types[*].items[*].{upgrade_code,downgrade_code}", "config.json type_conversion"]
    p_shape.queries = len(units)
    missing = [n for g, i, n in units if n not in STD.get(KIND_OF_GROUP.get(g, ""), {})]
    if U.bad_codes:
        p_shape.status = "inconclusive"
        p_shape.reason = "unrecognised conversion program at %s" % (U.bad_codes,)
        return [p_shape], D_ASSUMPTIONS, {}
    # a unit without a definition in the table above cannot be judged against "the standard definitions": its pairs are
    # left out of that comparison (which then cannot pass), but the algebra (round trip, transitivity) and the native
    # comparison still speak about it
    undefined = set(missing)
    p_shape.status = "pass"
    p_shape.sample = {"units": [n for _, _, n in units], "without_standard_definition": sorted(undefined)}
    parts.append(p_shape)

    # ---- the solver part: per ordered pair, the composed factor against the standard definitions
    v = z3.Real("v")
    pair_fail = {}        # (a, b) -> description
    nq = 0
    ts = time.time()
    fac = {}
    for ga, ia, a in units:
        for gb, ib, b in units:
            r = U.convert(ga, ia, b)
            same_kind = KIND_OF_GROUP[ga] == KIND_OF_GROUP[gb]
            fac[(a, b)] = r
            s = z3.Solver()
            nq += 1
            if a in undefined or b in undefined:
                continue
            if same_kind:
                want = Fraction(STD[KIND_OF_GROUP[ga]][a]) / Fraction(STD[KIND_OF_GROUP[gb]][b])
                if r is None:
                    pair_fail[(a, b)] = "no conversion path between units of one kind"
                    continue
                s.add(v * rq(r[0]) != v * rq(want))
                if s.check() != z3.unsat:
                    pair_fail[(a, b)] = "factor %s instead of %s" % (r[0], want)
            else:
                if r is not None:
                    pair_fail[(a, b)] = "quantities of different kinds are converted (factor %s)" % (r[0],)
    # round trip and transitivity on the model (z3, reals)
    rt_fail, tr_fail = [], []
    for (a, b), r in fac.items():
        back = fac.get((b, a))
        if r and back:
            s = z3.Solver()
            nq += 1
            s.add(v * rq(r[0]) * rq(back[0]) != v)
            if s.check() != z3.unsat:
                rt_fail.append((a, b))
    names = [n for _, _, n in units]
    for a in names:
        for b in names:
            for c in names:
                ab, bc, ac = fac.get((a, b)), fac.get((b, c)), fac.get((a, c))
                if ab and bc and ac:
                    nq += 1
                    if ab[0] * bc[0] != ac[0]:
                        tr_fail.append((a, b, c))
    solver_s = time.time() - ts

    # ---- native validation of the walk model (and replay of every failing pair)
    import engine_m
    replayer = engine_m.Replayer()
    try:
        table, rec = native_unit_table(replayer)
    finally:
        replayer.close()
    disagreements, checked = [], 0
    for (a, b), r in fac.items():
        # @comma: the default configuration (',' decimal separator); @switched: one calculator used under '.' decimal first, then switched to ','
        for amount in ("0", "1", "7.5", "30000000000000000000", "0@comma", "1@comma", "7.5@comma", "30000000000000000000@comma", "1@switched", "7.5@switched", "30000000000000000000@switched"):
            got = table.get((a, b, amount), "missing")
            if got == "missing":
                continue
            checked += 1
            want = None if r is None else float(Fraction(amount.split("@")[0]) * r[0])
            if (got is None) != (want is None) or (got is not None and abs(got - want) > 1e-9 * max(1.0, abs(want))):
                disagreements.append((a, b, amount, got, want))
    p_model = Part("D", "d_unit_walk_model_vs_native", "translator validation: the walk model of calculate_unit/convert agrees with the native SmartCalc on every ordered pair of configured units at two amounts, under both separator conventions ('.' decimal and the default ',' decimal)")
    p_model.functions = ["compiler::dynamic_type::DynamicTypeItem::calculate_unit", "compiler::dynamic_type::DynamicTypeItem::convert"]
    p_model.queries = checked
    if not table:
        p_model.status, p_model.reason = "inconclusive", "native unit table could not be produced: %s" % str(rec)[-300:]
    elif disagreements:
        def contradicts(a, b, amount, got):
            ka = KIND_OF_GROUP[[g for g, _, n in units if n == a][0]]
            kb = KIND_OF_GROUP[[g for g, _, n in units if n == b][0]]
            if ka != kb:
                return got is not None
            if a in undefined or b in undefined:
                return False
            want = float(Fraction(amount.split("@")[0]) * Fraction(STD[ka][a]) / Fraction(STD[kb][b]))
            return got is None or abs(got - want) > 1e-9 * max(1.0, abs(want))
        wrong = [d for d in disagreements if contradicts(d[0], d[1], d[2], d[3])]
        if wrong:
            # the code's own concrete answer contradicts the standard definition: that input is the violation
            p_model.status = "fail"
            p_model.cex = [{"line": "%s %s to %s" % (d[2], d[0], d[1]), "native": d[3], "model": d[4]} for d in wrong[:10]]
            p_model.replay = [{"harness": "d_dump_units", "reproduced": True, "cases": len(wrong)}]
            p_model.reason = "the conversion code no longer follows config.json's programs and its answer contradicts the unit definitions, e.g. '%s %s to %s' = %s" % (wrong[0][2], wrong[0][0], wrong[0][1], wrong[0][3])
        else:
            p_model.status = "inconclusive"
            p_model.reason = "walk model and native code disagree on %d cases, e.g. %s" % (len(disagreements), disagreements[:3])
    else:
        p_model.status = "pass"
        p_model.sample = {"pairs_compared": checked}
    parts.append(p_model)

    # ---- verdict parts, partitioned by the known-finding keys (a known finding is identified by its pair set)
    def native_confirms(a, b):
        """the code's own concrete answer contradicts the standard definition"""
        got = table.get((a, b, "1"), "missing")
        if got == "missing":
            return False
        ka, kb = KIND_OF_GROUP[[g for g, _, n in units if n == a][0]], KIND_OF_GROUP[[g for g, _, n in units if n == b][0]]
        if ka != kb:
            return got is not None
        if a in undefined or b in undefined:
            # no definition to contradict: a broken round trip is judged by the native round trip itself
            back = table.get((b, a, "1"), "missing")
            return got is not None and back not in ("missing", None) and abs(got * back - 1.0) > 1e-9
        want = float(Fraction(STD[ka][a]) / Fraction(STD[kb][b]))
        return got is None or abs(got - want) > 1e-9 * max(1.0, abs(want))

    findings = [f for f in known.get("findings", []) if f.get("property") == "C12" and f.get("pairs_regex")]
    buckets = {}
    for (a, b), why in sorted(pair_fail.items()):
        key = None
        for f in findings:
            if re.search(f["pairs_regex"], "%s->%s" % (a, b)):
                key = f["key"]
                break
        buckets.setdefault(key, []).append((a, b, why))
    p_def = Part("D", "d_unit_definitions", "for all ordered pairs of the %d configured units: A -> B is v*k(A)/k(B) for the standard definitions (metric prefixes, 25.4 mm inch, 12/3/1760, 16/14, 28.3495231 g, 8 bit, 1024 multiples); units of different kinds have no conversion; z3 over the composed linear programs" % len(units))
    p_def.functions = ["config.json unit programs composed along calculate_unit/convert"]
    p_def.queries, p_def.solver_s = nq, solver_s
    p_def.sample = {"pairs": len(fac), "example": "km->mile factor %s" % (fac.get(("km", "mile")) or [None])[0]}
    unl = buckets.get(None, [])
    if unl:
        confirmed = [(a, b, w) for a, b, w in unl if native_confirms(a, b)]
        p_def.cex = [{"pair": "%s->%s" % (a, b), "why": w, "native_value_of_1": table.get((a, b, "1"))} for a, b, w in (confirmed or unl)[:12]]
        p_def.replay = [{"harness": "d_dump_units", "confirmed_pairs": len(confirmed)}]
        if confirmed:
            p_def.status = "fail"
            p_def.reason = "%d unit pairs contradict the standard definitions, e.g. 1 %s to %s: %s" % (len(confirmed), confirmed[0][0], confirmed[0][1], confirmed[0][2])
        else:
            p_def.status, p_def.reason = "inconclusive", "model reports %d wrong pairs that the native code does not confirm" % len(unl)
    elif undefined:
        p_def.status, p_def.reason = "inconclusive", "units without a standard definition in the check's table cannot be judged: %s" % sorted(undefined)
    else:
        p_def.status = "pass"
    parts.append(p_def)
    for key, lst in buckets.items():
        if key is None:
            continue
        pk = Part("D", "d_unit_definitions_known_" + key, "pairs matched by known finding %s" % key)
        pk.finding, pk.finding_hit, pk.status = key, True, "fail"
        pk.queries = len(lst)
        pk.reason = "%d pairs, e.g. %s->%s: %s" % (len(lst), lst[0][0], lst[0][1], lst[0][2])
        pk.cex = [{"pair": "%s->%s" % (a, b), "why": w} for a, b, w in lst[:8]]
        parts.append(pk)
    p_alg = Part("D", "d_unit_algebra", "round trip (B->A after A->B is the identity) and transitivity (A->C = B->C after A->B) of the composed conversion programs, all pairs / triples with a path; exact rationals, z3 for the universally quantified amount")
    p_alg.queries = nq
    bad_rt = [x for x in rt_fail if not any(re.search(f["pairs_regex"], "%s->%s" % x) or re.search(f["pairs_regex"], "%s->%s" % (x[1], x[0])) for f in findings)]
    bad_tr = [x for x in tr_fail if not any(re.search(f["pairs_regex"], "%s->%s" % (p, q)) for f in findings for (p, q) in ((x[0], x[1]), (x[1], x[2]), (x[0], x[2])))]
    if bad_rt or bad_tr:
        conf = [x for x in bad_rt if native_confirms(x[0], x[1]) or native_confirms(x[1], x[0])]
        p_alg.cex = {"round_trip": bad_rt[:8], "transitivity": bad_tr[:8]}
        if conf or bad_tr:
            p_alg.status = "fail"
            p_alg.reason = "conversion is not invertible / transitive: round trips %s, triples %s" % (bad_rt[:3], bad_tr[:3])
        else:
            p_alg.status, p_alg.reason = "inconclusive", "model-only algebra failures"
    else:
        p_alg.status = "pass"
    parts.append(p_alg)
    log("  [D] units: %d pairs, %d wrong (%d known), model-vs-native %d compared, %d disagreements, %.1fs" % (
        len(fac), len(pair_fail), sum(len(v) for k, v in buckets.items() if k), checked, len(disagreements), time.time() - t0))
    return parts, D_ASSUMPTIONS, {"disagreements_checked": checked, "programs": len(units)}


D_ASSUMPTIONS = [
    "engine D: config.json conversion programs are data; they are composed along the chain exactly as calculate_unit/convert walk it (hand-written walk model, compared with the native crate on every ordered unit pair at two amounts on every run) and decided over exact rationals / z3 reals; f64 rounding along the chain is outside the claim; the re-tokenisation of the programs and intermediate values under the configured separators is covered by running the native comparison under both separator conventions",
]

import props  # noqa: E402

props.D_FUNCS["C12"] = check_units


def check_units_both_conventions(tier, only):
    """C08: the one computation that re-enters the reader (unit conversion) agrees with the unit programs under both
    separator conventions - the same run as C12's, reporting the parts that speak about it"""
    parts, assumptions, extra = check_units(tier, only)
    keep = [p for p in parts if p.name in ("d_unit_programs_linear", "d_unit_walk_model_vs_native")]
    return keep, assumptions, extra


props.D_FUNCS["C08"] = check_units_both_conventions
