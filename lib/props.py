"""Property id -> check function."""
import re
import time

import check
import specs_k
from check import K_ASSUMPTIONS, finish, run_k

M_FUNCS = {}   # prop -> callable(tier, only) -> (parts, assumptions, extra_cov)
D_FUNCS = {}

def _levels():
    import json
    import os
    try:
        m = json.load(open(os.path.join(os.path.dirname(os.path.dirname(os.path.abspath(__file__))), "MANIFEST.json")))
        return {c["property_id"]: c["level_claimed"]["category"] for c in m["checks"]}
    except (OSError, ValueError, KeyError):
        return {}


LEVEL = _levels()     # prop -> evidence level (as claimed in MANIFEST.json)


def _sel(items, only, key):
    if not only:
        return items
    rx = re.compile(only)
    return [i for i in items if rx.search(key(i))]


def make(prop):
    def run(tier, only=None):
        t0 = time.time()
        parts, assumptions, extra = [], [], {}
        hs = _sel(specs_k.harnesses(prop, tier), only, lambda h: h.name)
        if hs:
            kparts, info = run_k(prop, tier, hs, replay_findings=(tier == "thorough"))
            parts += kparts
            assumptions += K_ASSUMPTIONS
            import kani
            used = sorted({s for h in hs for s in h.stubs})
            assumptions += ["stub: " + kani.STUB_TEXT[s] for s in used]
            extra["kani_codegen_s"] = info.get("codegen_s")
        for table in (M_FUNCS, D_FUNCS):
            fn = table.get(prop)
            if fn:
                p2, a2, e2 = fn(tier, only)
                parts += p2
                assumptions += a2
                extra.update(e2 or {})
        return finish(prop, tier, LEVEL.get(prop, "model_checking"), parts, assumptions, t0, extra_cov=extra)
    return run


CLAIMED = ['C01', 'C02', 'C03', 'C04', 'C05', 'C06', 'C07', 'C08', 'C09', 'C10', 'C11', 'C12', 'C13', 'C14', 'C18']
CHECKS = {p: make(p) for p in CLAIMED}

import engine_m  # noqa: E402,F401  registers M_FUNCS
try:
    import engine_d  # noqa: F401  registers D_FUNCS
except ImportError as _ex:
    if "engine_d" not in str(_ex):
        raise
