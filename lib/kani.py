"""Engine K: Kani-compiled harnesses, CBMC driven directly (DESIGN.md 2.1-2.3, 2.5).

cargo kani is used for code generation only (one invocation for all selected harnesses, so the
crate is compiled once per run from /repo's working tree); the goto-instrument / cbmc pipeline
that kani-driver would run per harness is replicated here (read off kani-driver 0.68 with
strace) so that harnesses run in parallel, with per-loop unwind bounds taken from
`cbmc --show-loops`, individual time / memory caps, and JSON results interpreted by this module.
"""
import concurrent.futures as cf
import glob
import hashlib
import json
import os
import re
import shutil
import sys
import threading
import time
from dataclasses import dataclass, field

from common import (CACHE, EXIT_INCONCLUSIVE, EXIT_OK, EXIT_VIOLATION, REPLAYS, REPO, VERIF, env_offline, log,
                    mkscratch, rmtree, run, seed)

sys.path.insert(0, os.path.join(VERIF, "kani"))
import inject  # noqa: E402

KANI_HOME = os.path.expanduser("~/.kani/kani-0.68.0")
KANI_LIB_C = os.path.join(KANI_HOME, "library/kani/kani_lib.c")
TARGET_DIR = os.path.join(CACHE, "kani-target")

KANI_FLAGS = ["--no-overflow-checks", "--no-memory-safety-checks", "--no-assertion-reach-checks",
              "-Z", "stubbing", "-Z", "restrict-vtable", "-Z", "unstable-options"]

CBMC_BASE = ["--no-malloc-may-fail", "--no-undefined-shift-check", "--no-signed-overflow-check", "--no-bounds-check",
             "--no-pointer-check", "--no-div-by-zero-check", "--no-self-loops-to-assumptions",
             "--no-pointer-primitive-check", "--object-bits", "16", "--sat-solver", "cadical", "--slice-formula"]

STUBS = {
    "log": ("log::max_level", "crate::verif_k::stubs::max_level"),
    "fmt": ("alloc::fmt::format", "crate::verif_k::stubs::format"),
    "drop": ("alloc::rc::Rc::drop_slow", "crate::verif_k::stubs::rc_drop_slow"),
    "convert": ("crate::compiler::dynamic_type::DynamicTypeItem::convert", "crate::verif_k::stubs::convert_none"),
    "tt_to_string": ("<crate::types::TokenType as alloc::string::ToString>::to_string", "crate::verif_k::stubs::tt_to_string"),
    "now": ("chrono::Utc::now", "crate::verif_k::stubs::now"),
    "regex_new": ("regex::Regex::new", "crate::verif_k::stubs::regex_new_err"),
    "execute_text": ("crate::smartcalc::SmartCalc::execute_text", "crate::smartcalc::verif_k_local::stub_execute_text"),
}

STUB_TEXT = {
    "log": "log::max_level -> Off (no logger is installed by the harness; prunes Debug formatting of tokens/ASTs)",
    "fmt": "alloc::fmt::format -> empty String (error / log message text is never read by the oracle)",
    "drop": "Rc::drop_slow -> no-op (deallocation is not observed; cuts recursive drop glue)",
    "convert": "DynamicTypeItem::convert -> None (unit conversion re-enters the regex pipeline; decided by engine D)",
    "tt_to_string": "<TokenType as ToString>::to_string -> exact for Text, empty otherwise (float->decimal formatting cut)",
    "now": "chrono::Utc::now -> arbitrary instant within years 1..9999 drawn by the harness",
    "regex_new": "regex::Regex::new -> Err (selects Session::set_text's own fallback line splitter)",
    "execute_text": "SmartCalc::execute_text -> arbitrary per-line outcome (None / Err / Ok) inside the execute_session loop harnesses; per-line totality is decided by the stage harnesses",
}


@dataclass
class Harness:
    prop: str
    name: str                      # wrapper function name (unique)
    body: str                      # path of the body fn inside the crate, e.g. verif_k::c09::date_days
    args: str = ""                 # rust argument text
    tiers: tuple = ("quick", "thorough")
    unwind: int = 2                # default bound for every loop (also bounds recursion)
    unwindset: tuple = ()          # ((regex on "loop-id function file", bound), ...), first match wins
    stubs: tuple = ("log", "fmt")
    timeout: int = 600
    mem_gb: float = 12
    expect: str = "pass"           # "pass" | "finding:<key>"
    about: str = ""                # what is decided, with bounds
    finding_match: tuple = ()      # for expect=finding: substrings, one of which must occur in "<function> <description>" of every failed check
    replay_now: bool = False       # harness draws a clock value: native replay cannot control the clock
    kani: bool = True              # False: replay-only body (native oracle for engine M/D counterexamples)


@dataclass
class HResult:
    harness: Harness
    status: str = "inconclusive"   # pass | fail | inconclusive
    reason: str = ""
    failed: list = field(default_factory=list)     # [{property, description, function, file, line, class}]
    covers: dict = field(default_factory=dict)     # description -> satisfied?
    n_props: int = 0
    variables: int = 0
    clauses: int = 0
    solver_calls: int = 0
    t_symex: float = 0.0
    t_solver: float = 0.0
    wall: float = 0.0
    unwindset: str = ""
    loops_raised: int = 0
    replay: dict = None
    log_path: str = ""


def wrapper_name(h):
    return h.name


def gen_rs(harnesses):
    """Rust text of src/verif_k/gen.rs: one #[kani::proof] wrapper per harness + replay registry."""
    lines = ["//! generated by /verif/lib/kani.py - harness wrappers and replay registry",
             "#![allow(unused, dead_code)]", "use super::*;", ""]
    for h in harnesses:
        if not h.kani:
            lines.append("#[cfg(not(kani))]")
            lines.append("pub fn %s() { crate::%s(%s) }" % (h.name, h.body, h.args))
            lines.append("")
            continue
        lines.append("#[cfg_attr(kani, kani::proof)]")
        lines.append("#[cfg_attr(kani, kani::unwind(%d))]" % h.unwind)
        for s in h.stubs:
            o, r = STUBS[s]
            lines.append("#[cfg_attr(kani, kani::stub(%s, %s))]" % (o, r))
        lines.append("pub fn %s() { crate::%s(%s) }" % (h.name, h.body, h.args))
        lines.append("")
    lines.append("#[cfg(not(kani))]")
    lines.append("pub fn dispatch(name: &str) -> bool {")
    lines.append("    match name {")
    for h in harnesses:
        lines.append('        "%s" => { %s(); true }' % (h.name, h.name))
    lines.append("        _ => false")
    lines.append("    }")
    lines.append("}")
    lines.append("""
#[cfg(all(not(kani), test))]
mod replay_test {
    use super::super::std;
    use super::super::std::string::String;
    use super::super::std::vec::Vec;
    #[test]
    fn verif_replay_entry() {
        let name = std::env::var("VERIF_HARNESS").expect("VERIF_HARNESS");
        let vals = std::env::var("VERIF_VALUES").unwrap_or_default();
        let mut v: Vec<Vec<u8>> = Vec::new();
        for part in vals.split(';') {
            if part.is_empty() { continue; }
            let mut bytes = Vec::new();
            let mut i = 0;
            while i + 1 < part.len() + 1 && i + 2 <= part.len() {
                bytes.push(u8::from_str_radix(&part[i..i + 2], 16).unwrap());
                i += 2;
            }
            v.push(bytes);
        }
        unsafe { *core::ptr::addr_of_mut!(super::super::replay::VALS) = v; }
        std::println!("VERIF_REPLAY_START {}", name);
        let known = super::dispatch(&name);
        if !known { std::println!("VERIF_UNKNOWN_HARNESS"); return; }
        let exhausted = unsafe { super::super::replay::EXHAUSTED };
        std::println!("VERIF_REPLAY_END exhausted={}", exhausted);
    }
}
""")
    return "\n".join(lines) + "\n"


class KaniRun:
    def __init__(self, harnesses, tag="k"):
        self.harnesses = list(harnesses)
        self.scratch = mkscratch("smartcalc-verif-%s." % tag)
        self.copy = os.path.join(self.scratch, "repo")
        self.work = os.path.join(self.scratch, "work")
        os.makedirs(self.work)
        self.meta = {}
        self.outdir = None
        self.inject_report = None
        self.t_codegen = 0.0
        self.codegen_log = os.path.join(self.scratch, "codegen.log")

    # -------------------------------------------------------------- build
    def prepare(self):
        self.inject_report = inject.prepare(REPO, self.copy, "kani")
        with open(os.path.join(self.copy, "src/verif_k/gen.rs"), "w") as fh:
            fh.write(gen_rs(self.harnesses))
        self.token = re.sub(r"[^A-Za-z0-9]", "", os.path.basename(self.scratch).split(".")[-1]).lower() or "x"
        with open(os.path.join(self.copy, "src/verif_k/run_%s.rs" % self.token), "w") as fh:
            fh.write("//! marker module: identifies this scratch build in the shared target directory\n")
        with open(os.path.join(self.copy, "src/verif_k/mod.rs"), "a") as fh:
            fh.write("pub mod gen;\nmod run_%s;\n" % self.token)

    def codegen(self, timeout=1800):
        os.makedirs(TARGET_DIR, exist_ok=True)
        cmd = ["cargo", "kani", "--target-dir", TARGET_DIR] + KANI_FLAGS + ["--only-codegen", "--exact"]
        for h in self.harnesses:
            cmd += ["--harness", "verif_k::gen::" + h.name]
        env = env_offline()
        env["CARGO_INCREMENTAL"] = "0"
        rc, _, _, wall = run(cmd, cwd=self.copy, timeout=timeout, env=env, stdout_path=self.codegen_log,
                             stderr_path=self.codegen_log + ".err")
        self.t_codegen = wall
        if rc != 0:
            tail = ""
            for p in (self.codegen_log, self.codegen_log + ".err"):
                try:
                    txt = open(p, errors="replace").read()
                    errs = [l for l in txt.splitlines() if l.startswith("error")]
                    tail += "\n".join(errs[:20]) + "\n" + "\n".join(txt.splitlines()[-15:])
                except OSError:
                    pass
            raise RuntimeError("cargo kani --only-codegen failed (rc=%s)\n%s" % (rc, tail))
        # locate this build's out dir through its dep-info file (it names our scratch path)
        cands = glob.glob(os.path.join(TARGET_DIR, "kani/*/debug/build/smartcalc/*/out/smartcalc.d"))
        for d in cands:
            try:
                if ("run_%s.rs" % self.token) in open(d, errors="replace").read():
                    self.outdir = os.path.dirname(d)
            except OSError:
                pass
        if not self.outdir:
            raise RuntimeError("kani out dir for this build not found")
        md = json.load(open(os.path.join(self.outdir, "smartcalc.kani-metadata.json")))
        for ph in md["proof_harnesses"]:
            self.meta[ph["pretty_name"].split("::")[-1]] = ph
        missing = [h.name for h in self.harnesses if h.name not in self.meta]
        if missing:
            raise RuntimeError("harnesses missing from kani metadata: %s" % missing)
        # every requested stub must have been resolved
        for h in self.harnesses:
            have = {s["original"].replace(" ", "") for s in self.meta[h.name]["attributes"]["stubs"]}
            for s in h.stubs:
                want = STUBS[s][0].replace(" ", "")
                if not any(want.split("::")[-1] in x for x in have):
                    raise RuntimeError("stub %s not applied in %s" % (s, h.name))

    def cleanup(self):
        if self.outdir and os.path.isdir(self.outdir):
            # build/smartcalc/<hash>/ holds out/ and fingerprint/; remove the whole unit
            rmtree(os.path.dirname(self.outdir))
            # build-script units of this copy
        for d in glob.glob(os.path.join(TARGET_DIR, "kani/*/debug/build/smartcalc/*")) + \
                glob.glob(os.path.join(TARGET_DIR, "kani/debug/build/smartcalc/*")):
            try:
                age = time.time() - os.path.getmtime(d)
            except OSError:
                continue
            if age > 6 * 3600:
                rmtree(d)
        rmtree(self.scratch)

    # -------------------------------------------------------------- per-harness pipeline
    def _instrument(self, h):
        md = self.meta[h.name]
        symtab = md["goto_file"]
        base = symtab[:-len(".symtab.out")]
        wd = os.path.join(self.work, h.name)
        os.makedirs(wd, exist_ok=True)
        out = os.path.join(wd, "h.out")
        steps = []
        steps.append(["goto-cc", symtab, KANI_LIB_C, "-o", out])
        steps.append(["goto-cc", out, "--function", md["mangled_name"], "-o", out])
        # linked function-pointer restrictions (kani-driver: link_function_pointer_restrictions)
        r = json.load(open(base + ".restrictions.json"))
        pm = {}
        for e in r["possible_methods"]:
            k = (e["trait_method"]["trait_name"], e["trait_method"]["vtable_idx"])
            pm.setdefault(k, []).extend(e["possibilities"])
        linked = {}
        for c in r["call_sites"]:
            k = (c["trait_method"]["trait_name"], c["trait_method"]["vtable_idx"])
            linked[c["function_name"] + "." + c["label"]] = pm.get(k, [])
        lr = os.path.join(wd, "linked-restrictions.json")
        json.dump(linked, open(lr, "w"))
        steps.append(["goto-instrument", "--function-pointer-restrictions-file", lr, out, out])
        steps.append(["goto-instrument", "--add-library", "--no-malloc-may-fail", out, out])
        steps.append(["goto-instrument", "--generate-function-body-options", "assert-false-assume-false",
                      "--generate-function-body", ".*", "--drop-unused-functions", out, out])
        steps.append(["goto-instrument", "--ensure-one-backedge-per-target", out, out])
        for s in steps:
            rc, o, e, _ = run(s, cwd=wd, timeout=600, mem_gb=16)
            if rc != 0:
                raise RuntimeError("%s failed for %s: %s" % (s[0], h.name, (e or "")[-500:]))
        return out

    def _loops(self, out):
        rc, o, e, _ = run(["cbmc", "--show-loops", "--json-ui", out], timeout=600, mem_gb=16)
        loops = []
        try:
            for item in json.loads(o):
                if "loops" in item:
                    for l in item["loops"]:
                        sl = l.get("sourceLocation", {})
                        loops.append((l["name"], sl.get("function", ""), sl.get("file", ""), sl.get("line", "")))
        except (ValueError, TypeError):
            raise RuntimeError("cannot parse cbmc --show-loops output")
        return loops

    def _unwindset(self, h, loops):
        parts = []
        for name, fn, file, line in loops:
            key = "%s %s %s" % (name, fn, file)
            for rx, bound in h.unwindset:
                if re.search(rx, key):
                    parts.append("%s:%d" % (name, bound))
                    break
        return parts

    def run_one(self, h):
        res = HResult(harness=h)
        t0 = time.time()
        try:
            out = self._instrument(h)
            loops = self._loops(out)
            us = self._unwindset(h, loops)
            res.unwindset = ",".join(us)
            res.loops_raised = len(us)
            wd = os.path.dirname(out)
            with open(os.path.join(wd, "loops.txt"), "w") as fh:
                for l in loops:
                    fh.write("\t".join(l) + "\n")
            cmd = ["cbmc"] + CBMC_BASE + ["--unwind", str(h.unwind)]
            if us:
                cmd += ["--unwindset", ",".join(us)]
            cmd += [out, "--verbosity", "8", "--json-ui"]
            res.log_path = os.path.join(wd, "cbmc.json")
            rc, _, _, wall = run(cmd, cwd=wd, timeout=h.timeout, mem_gb=h.mem_gb, stdout_path=res.log_path,
                                 stderr_path=os.path.join(wd, "cbmc.err"))
            if rc is None:
                res.status, res.reason = "inconclusive", "timeout after %ds" % h.timeout
            else:
                self._interpret(res, rc)
            if res.status == "fail":
                self._counterexample(res, cmd)
        except Exception as ex:  # noqa: BLE001 - any driver problem is "no verdict"
            res.status, res.reason = "inconclusive", "driver error: %s" % ex
        res.wall = time.time() - t0
        return res

    def _interpret(self, res, rc):
        try:
            data = json.load(open(res.log_path))
        except ValueError:
            err = ""
            try:
                err = open(os.path.join(os.path.dirname(res.log_path), "cbmc.err"), errors="replace").read()[-300:]
            except OSError:
                pass
            res.status, res.reason = "inconclusive", "cbmc output unreadable (rc=%s; out of memory?) %s" % (rc, err)
            return
        results = None
        status = None
        for item in data:
            if not isinstance(item, dict):
                continue
            if "result" in item:
                results = item["result"]
            elif "cProverStatus" in item:
                status = item["cProverStatus"]
            elif "messageText" in item:
                t = item["messageText"]
                m = re.match(r"(\d+) variables, (\d+) clauses", t)
                if m:
                    res.variables = max(res.variables, int(m.group(1)))
                    res.clauses = max(res.clauses, int(m.group(2)))
                    res.solver_calls += 1
                m = re.match(r"Runtime Symex: ([0-9.e+-]+)s", t)
                if m:
                    res.t_symex += float(m.group(1))
                m = re.match(r"Runtime Solver: ([0-9.e+-]+)s", t)
                if m:
                    res.t_solver += float(m.group(1))
                if item.get("messageType") == "ERROR":
                    res.reason += " cbmc error: " + t[:200]
        if results is None:
            res.status = "inconclusive"
            res.reason = (res.reason + " no result section (rc=%s)" % rc).strip()
            return
        res.n_props = len(results)
        unwind_fail, unsupported = [], []
        for r in results:
            sl = r.get("sourceLocation", {})
            cls = sl.get("propertyClass") or (r["property"].split(".")[-2] if r["property"].count(".") >= 2 else "")
            st = r["status"]
            if cls == "cover":
                res.covers[r["description"]] = (st == "FAILURE")
                continue
            if cls == "reachability_check":
                continue
            if st == "FAILURE":
                entry = {"property": r["property"], "class": cls, "description": r["description"],
                         "function": sl.get("function", ""), "file": sl.get("file", ""), "line": sl.get("line", "")}
                if cls == "unwind" or r["property"].split(".")[-2:-1] == ["unwind"] or "unwinding assertion" in r["description"]:
                    unwind_fail.append(entry)
                elif cls == "unsupported_construct":
                    unsupported.append(entry)
                else:
                    res.failed.append(entry)
        if res.failed:
            res.status = "fail"
            res.reason = "; ".join("%s: %s" % (f["function"], f["description"][:80]) for f in res.failed[:4])
        elif unwind_fail:
            res.status = "inconclusive"
            res.reason = "unwinding assertion failed: " + ", ".join(sorted({f["property"] for f in unwind_fail})[:6])
        elif unsupported:
            res.status = "inconclusive"
            res.reason = "unsupported construct reachable: " + unsupported[0]["description"][:120]
        else:
            unsat = [d for d, ok in res.covers.items() if not ok]
            if unsat:
                res.status = "inconclusive"
                res.reason = "vacuity: cover not satisfied: " + "; ".join(d[:80] for d in unsat[:3])
            elif not res.covers:
                res.status = "inconclusive"
                res.reason = "vacuity: harness has no cover"
            elif status != "success" and status is not None and not any(res.covers.values()):
                res.status = "inconclusive"
                res.reason = "cbmc status %s" % status
            else:
                res.status = "pass"

    # -------------------------------------------------------------- counterexample -> concrete values
    def _counterexample(self, res, cmd):
        """Re-run CBMC for the first failed property with --trace; extract the values returned by
        kani::any (in call order) the way Kani's concrete playback does."""
        prop = res.failed[0]["property"]
        wd = os.path.dirname(res.log_path)
        tpath = os.path.join(wd, "trace.json")
        tcmd = [c for c in cmd]
        i = tcmd.index("--verbosity")
        tcmd[i + 1] = "4"
        tcmd += ["--trace", "--property", prop]
        rc, _, _, _ = run(tcmd, cwd=wd, timeout=res.harness.timeout, mem_gb=res.harness.mem_gb, stdout_path=tpath,
                          stderr_path=os.path.join(wd, "trace.err"))
        vals = []
        try:
            data = json.load(open(tpath))
            for item in data:
                if isinstance(item, dict) and "result" in item:
                    for r in item["result"]:
                        if r.get("property") == prop and "trace" in r:
                            vals = extract_any_values(r["trace"])
        except (ValueError, OSError):
            pass
        res.replay = {"property": prop, "values": vals}


def extract_any_values(trace):
    """Kani concrete playback (kani-driver/src/concrete_playback/test_generator.rs): the values are the
    assignments to the return value of kani::any_raw_* in trace order; bits -> little-endian bytes."""
    vals = []
    for step in trace:
        if step.get("stepType") != "assignment":
            continue
        lhs = step.get("lhs", "")
        fn = (step.get("sourceLocation") or {}).get("function", "")
        if not lhs.startswith("goto_symex$$return_value"):
            continue
        if "any_raw_" not in lhs and "any_raw_" not in fn:
            continue
        v = step.get("value", {})
        bits = v.get("binary")
        width = v.get("width")
        if bits is None:
            continue
        bits = bits.replace(" ", "")
        if width and len(bits) < width:
            bits = bits.rjust(width, "0")
        nbytes = (len(bits) + 7) // 8
        n = int(bits, 2) if bits else 0
        vals.append(list(n.to_bytes(nbytes, "little")))
    return vals


# ------------------------------------------------------------------ native replay
class ReplayBuild:
    """A second scratch copy without container substitution and without stubs, built as ordinary
    tests with --cfg verif_replay; the same harness bodies run on the extracted values."""

    def __init__(self, harnesses):
        self.harnesses = list(harnesses)
        self.scratch = mkscratch("smartcalc-verif-r.")
        self.copy = os.path.join(self.scratch, "repo")
        self.built = {}

    def prepare(self):
        inject.prepare(REPO, self.copy, "replay")
        with open(os.path.join(self.copy, "src/verif_k/gen.rs"), "w") as fh:
            fh.write(gen_rs(self.harnesses))
        with open(os.path.join(self.copy, "src/verif_k/mod.rs"), "a") as fh:
            fh.write("pub mod gen;\n")

    def _build(self, release):
        key = "release" if release else "dev"
        if key in self.built:
            return self.built[key]
        env = env_offline()
        env["RUSTFLAGS"] = (env.get("RUSTFLAGS", "") + " --cfg verif_replay -A warnings").strip()
        env["CARGO_INCREMENTAL"] = "0"
        tdir = os.path.join(CACHE, "replay-target")
        cmd = ["cargo", "test", "--offline", "--lib", "--no-run", "--target-dir", tdir, "--message-format=json"]
        if release:
            cmd.append("--release")
        rc, o, e, _ = run(cmd, cwd=self.copy, timeout=1800, env=env)
        exe = None
        if rc == 0:
            for line in (o or "").splitlines():
                try:
                    j = json.loads(line)
                except ValueError:
                    continue
                if j.get("reason") == "compiler-artifact" and j.get("executable") and j.get("target", {}).get("name") == "smartcalc":
                    exe = j["executable"]
        self.built[key] = (exe, (e or "")[-2000:])
        return self.built[key]

    def replay(self, harness_name, values, release=False, timeout=120, raw=False):
        exe, err = self._build(release)
        if not exe:
            return {"built": False, "error": err}
        env = env_offline()
        env["VERIF_HARNESS"] = harness_name
        env["VERIF_VALUES"] = ";".join("".join("%02x" % b for b in v) for v in values)
        env["RUST_BACKTRACE"] = "0"
        rc, o, e, wall = run([exe, "verif_k::gen::replay_test::verif_replay_entry", "--exact", "--nocapture", "--test-threads", "1"],
                             cwd=self.copy, timeout=timeout, env=env, mem_gb=8)
        text = (o or "") + (e or "")
        started = "VERIF_REPLAY_START" in text
        ended = "VERIF_REPLAY_END" in text
        assume_failed = "VERIF_ASSUME_FAILED" in text
        exhausted = "exhausted=true" in text or "width mismatch" in text
        panic = None
        m = re.search(r"panicked at ([^\n]*)\n([^\n]*)", text)
        if m:
            panic = (m.group(1) + " " + m.group(2)).strip()[:300]
        unknown = "VERIF_UNKNOWN_HARNESS" in text
        reproduced = started and not ended and not assume_failed and not unknown and (panic is not None or rc is None or rc != 0)
        extra = {"output": text} if raw else {}
        return {**extra, "built": True, "profile": "release" if release else "dev", "rc": rc, "reproduced": bool(reproduced),
                "assume_failed": assume_failed, "values_exhausted": exhausted, "panic": panic,
                "timeout": rc is None}

    def cleanup(self):
        rmtree(self.scratch)


# ------------------------------------------------------------------ scheduling
def run_all(kr, max_mem_gb=52, max_workers=None):
    """Run all harnesses of a prepared+codegen'd KaniRun in parallel under a global memory budget."""
    hs = list(kr.harnesses)
    rnd = seed()
    if rnd:
        import random
        random.Random(rnd).shuffle(hs)
    # longest first
    hs.sort(key=lambda h: -h.timeout)
    results = {}
    lock = threading.Condition()
    used = [0.0]
    workers = max_workers or min(16, os.cpu_count() or 4)

    def job(h):
        need = min(h.mem_gb, max_mem_gb)
        with lock:
            while used[0] + need > max_mem_gb:
                lock.wait()
            used[0] += need
        try:
            r = kr.run_one(h)
        finally:
            with lock:
                used[0] -= need
                lock.notify_all()
        log("  [K] %-38s %-12s %6.1fs vars=%d clauses=%d %s" % (h.name, r.status, r.wall, r.variables, r.clauses, r.reason[:110]))
        return r

    with cf.ThreadPoolExecutor(max_workers=workers) as ex:
        futs = {ex.submit(job, h): h for h in hs}
        for f in cf.as_completed(futs):
            results[futs[f].name] = f.result()
    return [results[h.name] for h in kr.harnesses]
