"""Engine K harness table: property -> harness specs (see kani.Harness)."""
from kani import Harness as H

MEMCMP = (r"^memcmp", 14)

def harnesses(prop, tier):
    return [h for h in ALL if h.prop == prop and tier in h.tiers]

ALL = []

def add(*hs):
    ALL.extend(hs)

# ----------------------------------------------------------------------------- C09
for op, txt in (("true", "add"), ("false", "sub")):
    add(H("C09", "c09_days_lt30_%s" % txt, "verif_k::c09::date_days_lt30", op, unwindset=(MEMCMP,), timeout=900,
          about="DateItem::calculate: every date of years 1..9999 %s n days, 0<=n<30, is the calendar date exactly n days away" % txt))

# ----------------------------------------------------------------------------- driver self tests
add(H("SELF", "selftest_pass", "verif_k::c09::selftest_pass", "", timeout=120, about="driver self-test (passes)"))
add(H("SELF", "selftest_fail", "verif_k::c09::selftest_fail", "", timeout=120, about="driver self-test (must fail and replay)"))
