"""Engine K harness table: property -> harness specs (see kani.Harness)."""
from kani import Harness as H

MEMCMP = (r"^memcmp", 14)
VMAP = (r"verif_map", 4)
OPS = ((0, "add"), (1, "sub"), (2, "mul"), (3, "div"))

ALL = []


def harnesses(prop, tier):
    return [h for h in ALL if h.prop == prop and tier in h.tiers and h.kani]


def add(*hs):
    ALL.extend(hs)


# ----------------------------------------------------------------------------- C02 / C13: NumberItem::calculate
for k, nm in OPS:
    add(H("C02", "c02_number_%s" % nm, "verif_k::c05::number_arith", str(k), unwindset=(MEMCMP,), timeout=300,
          about="NumberItem::calculate %s on all f64 pairs and NumberTypes: result is a NumberItem%s" % (nm, " with the bit-exact IEEE value" if k < 2 else " (value: engine M)")))
    add(H("C13", "c13_number_%s_keeps_type" % nm, "verif_k::c05::number_arith", str(k), unwindset=(MEMCMP,), timeout=300,
          about="NumberItem::calculate %s keeps the left operand's NumberType (Hex/Octal/Binary/Raw/Decimal), all f64 pairs" % nm))

# ----------------------------------------------------------------------------- C05 (kinds; formulas are engine M's)
for b, nm in (("true", "add"), ("false", "sub")):
    add(H("C05", "c05_number_%s_percent_kind" % nm, "verif_k::c05::number_pm_percent", b, unwindset=(MEMCMP,), timeout=300,
          about="NumberItem %s PercentItem yields a plain number for all f64 (value: engine M)" % nm))
    add(H("C05", "c05_money_%s_percent_kind" % nm, "verif_k::c05::money_pm_percent", b, unwindset=(MEMCMP,), stubs=("log", "fmt", "drop"), timeout=300,
          about="MoneyItem %s PercentItem yields money in the same currency for all f64 (value: engine M)" % nm))

# ----------------------------------------------------------------------------- C06 (kinds and currencies)
for k, nm in ((0, "add"), (1, "sub"), (3, "div")):
    add(H("C06", "c06_money_%s_money_kind" % nm, "verif_k::c05::money_money", str(k), unwindset=(MEMCMP, VMAP), stubs=("log", "fmt", "drop"), timeout=300,
          about="MoneyItem %s MoneyItem of another currency (symbolic rates): result is money in the LEFT currency (+,-) / a plain number (/)" % nm))
for k, nm in OPS:
    add(H("C06", "c06_money_%s_number" % nm, "verif_k::c05::money_number", str(k), unwindset=(MEMCMP,), stubs=("log", "fmt", "drop"), timeout=300,
          about="MoneyItem %s NumberItem: currency kept%s; all f64 pairs" % (nm, ", bit-exact IEEE value" if k < 2 else "")))

# ----------------------------------------------------------------------------- C09
for op, txt in (("true", "add"), ("false", "sub")):
    add(H("C09", "c09_days_lt30_%s" % txt, "verif_k::c09::date_days_lt30", op, unwindset=(MEMCMP,), timeout=900,
          about="DateItem::calculate: every date of years 1..9999 %s n days, -30<n<30 (negative counts too), is the calendar date exactly n days away" % txt))

# ----------------------------------------------------------------------------- replay-only bodies (engine M/D counterexamples)
for k in (0, 1, 2):
    add(H("REPLAY", "m_replay_percent_rule_%d" % k, "verif_k::c05::m_replay_percent_rule", str(k), kani=False))
for nm in ("find_numbers_percent", "find_total_from_percent", "number_calc", "calc_percent", "convert_money", "money_money", "money_number"):
    add(H("REPLAY", "m_replay_" + nm, "verif_k::c05::m_replay_" + nm, "", kani=False))

for nm in ("time_calc", "time_with_timezone", "unixtime", "to_unixtime", "to_duration_dates", "to_duration_times", "small_date", "parse_timezone", "based_calc", "program", "duration_parse_any", "huge_line"):
    add(H("REPLAY", "m_replay_" + nm, "verif_k::c10::m_replay_" + nm, "", kani=False))
for nm in ("duration_parse", "as_duration", "duration_calc", "combine_durations", "duration_print", "as_time", "number_print", "number_type_convert"):
    add(H("REPLAY", "m_replay_" + nm, "verif_k::c10::m_replay_" + nm, "", kani=False))
add(H("REPLAY", "m_replay_expression", "verif_k::c02::m_replay_expression", "", kani=False))
add(H("REPLAY", "m_probe_all", "verif_k::c10::m_probe_all", "", kani=False))
add(H("REPLAY", "m_replay_unit_calc", "verif_k::c12::m_replay_unit_calc", "", kani=False))
add(H("REPLAY", "m_replay_format_number", "verif_k::c12::m_replay_format_number", "", kani=False))
add(H("REPLAY", "m_replay_print_callers", "verif_k::c12::m_replay_print_callers", "", kani=False))
add(H("REPLAY", "m_replay_token_pipeline", "verif_k::c02::m_replay_token_pipeline", "", kani=False))
add(H("REPLAY", "m_replay_time_literal", "verif_k::c10::m_replay_time_literal", "", kani=False))
add(H("REPLAY", "m_dump_rules", "verif_k::c10::m_dump_rules", "", kani=False))
add(H("REPLAY", "m_replay_percent_phrase", "verif_k::c10::m_replay_percent_phrase", "", kani=False))
add(H("REPLAY", "m_replay_wiring", "verif_k::c10::m_replay_wiring", "", kani=False))
add(H("REPLAY", "m_replay_number_literal", "verif_k::c10::m_replay_number_literal", "", kani=False))
add(H("REPLAY", "m_replay_literal_text", "verif_k::c10::m_replay_literal_text", "", kani=False))
add(H("REPLAY", "m_replay_radix_literal", "verif_k::c10::m_replay_radix_literal", "", kani=False))
add(H("REPLAY", "m_replay_at_date", "verif_k::c10::m_replay_at_date", "", kani=False))
add(H("REPLAY", "m_replay_nested", "verif_k::c02::m_replay_nested", "", kani=False))
add(H("REPLAY", "m_replay_number_print_margin", "verif_k::c10::m_replay_number_print_margin", "", kani=False))
add(H("REPLAY", "m_replay_variable_operand", "verif_k::c10::m_replay_variable_operand", "", kani=False))
add(H("REPLAY", "m_replay_time_print", "verif_k::c10::m_replay_time_print", "", kani=False))
add(H("REPLAY", "m_replay_date_print", "verif_k::c10::m_replay_date_print", "", kani=False))
add(H("REPLAY", "m_replay_datetime_print", "verif_k::c10::m_replay_datetime_print", "", kani=False))
add(H("REPLAY", "d_dump_units", "verif_k::c12::d_dump_units", "", kani=False))
add(H("REPLAY", "k_replay_set_text_lines", "verif_k::c04::k_replay_set_text_lines", "", kani=False))
add(H("REPLAY", "k_replay_update_currency", "verif_k::c04::k_replay_update_currency", "", kani=False))
add(H("REPLAY", "k_replay_api_rule2", "verif_k::c04::k_replay_api_rule2", "", kani=False))
add(H("REPLAY", "k_replay_unit_history", "verif_k::c04::k_replay_unit_history", "", kani=False))
add(H("REPLAY", "k_replay_unit_recognition", "verif_k::c04::k_replay_unit_recognition", "", kani=False))
add(H("REPLAY", "k_replay_api_rule_places", "verif_k::c04::k_replay_api_rule_places", "", kani=False))
add(H("REPLAY", "k_replay_unit_chain", "verif_k::c04::k_replay_unit_chain", "", kani=False))
add(H("REPLAY", "m_replay_unit_amount", "verif_k::c12::m_replay_unit_amount", "", kani=False))
add(H("REPLAY", "m_replay_token_location", "verif_k::c10::m_replay_token_location", "", kani=False))
add(H("REPLAY", "k_replay_text_field", "verif_k::c04::k_replay_text_field", "", kani=False))
add(H("REPLAY", "m_replay_literal_string", "verif_k::c10::m_replay_literal_string", "", kani=False))
add(H("REPLAY", "m_replay_month_twice", "verif_k::c10::m_replay_month_twice", "", kani=False))
add(H("REPLAY", "k_replay_setters", "verif_k::c04::k_replay_setters", "", kani=False))
add(H("REPLAY", "k_replay_set_language", "verif_k::c04::k_replay_set_language", "", kani=False))
add(H("REPLAY", "k_replay_registration", "verif_k::c04::k_replay_registration", "", kani=False))
add(H("REPLAY", "k_replay_api_rule", "verif_k::c04::k_replay_api_rule", "", kani=False))
add(H("REPLAY", "k_replay_session_reuse", "verif_k::c04::k_replay_session_reuse", "", kani=False))

# ----------------------------------------------------------------------------- driver self tests
add(H("SELF", "selftest_pass", "verif_k::c09::selftest_pass", "", timeout=120, about="driver self-test (passes)"))
add(H("SELF", "selftest_fail", "verif_k::c09::selftest_fail", "", timeout=120, about="driver self-test (must fail and replay)"))

# ----------------------------------------------------------------------------- C04 / C01(a)
SESSION_LOOPS = (MEMCMP, (r"execute_session|session_with_lines|verif_k", 7))
for prop in ("C01", "C04"):
    add(H(prop, prop.lower() + "_execute_session_slots", "verif_k::c04::execute_session_slots", "", stubs=("log", "fmt", "drop", "execute_text"),
          unwindset=SESSION_LOOPS, timeout=600, about="execute_session from the state set_text must leave (n = 1..4 lines, cursor 0), arbitrary per-line outcomes: status true, exactly n slots in order, cursor on the last line (set_text's own effect on the cursor: engine M m_set_text_cursor)"))
add(H("C01", "c01_execute_session_empty", "verif_k::c04::execute_session_empty", "", stubs=("log", "fmt", "drop", "execute_text"),
      unwindset=SESSION_LOOPS, timeout=300, about="execute_session on a session without text: status false, no slots, no panic"))

# ----------------------------------------------------------------------------- C02 parser (compositional) + glue
PARSER_LOOPS = (MEMCMP, (r"parse_binary|match_operator|verif_k|left_spine|missing_token_adder|contains", 5))
EXPERIMENTAL = ("experimental",)
for n in (2, 3):
    add(H("C02", "c02_fold_leaf_%d" % n, "verif_k::c02::fold_leaf", str(n), stubs=("log", "fmt", "drop"), unwindset=PARSER_LOOPS, timeout=900,
          tiers=EXPERIMENTAL,
          about="parse_binary::<Leaf> on n0 o n1 .. (%d symbolic operators from + - * /, symbolic accepted set {+,-} or {*,/}): left-nested chain over the maximal accepted prefix, operators and operands in order, cursor exactly behind it" % n))
add(H("C02", "c02_ladder_levels", "verif_k::c02::ladder_levels", "", stubs=("log", "fmt", "drop"), unwindset=PARSER_LOOPS, timeout=900, tiers=EXPERIMENTAL,
      about="MultiplyDivideParser folds * / only and leaves + - to its caller; AddSubtractParser folds any of the four at the root: a o b with symbolic o through the real Unary/Primative parsers"))
add(H("C02", "c02_precedence_three", "verif_k::c02::precedence_three", "", stubs=("log", "fmt", "drop"), unwindset=PARSER_LOOPS, timeout=1200, tiers=EXPERIMENTAL,
      about="7 o1 2 o2 4 for all 16 operator pairs through the real parser ladder and interpreter equals the value given by precedence and left associativity"))
for b, nm in (("true", "left"), ("false", "right")):
    add(H("C02", "c02_parens_%s" % nm, "verif_k::c02::parens_three", b, stubs=("log", "fmt", "drop"), unwindset=PARSER_LOOPS, timeout=1200, tiers=EXPERIMENTAL,
          about="parenthesised %s group of three operands, all 16 operator pairs: the group is evaluated first, all 7 tokens consumed" % nm))
add(H("C02", "c02_sign_prefix_inner", "verif_k::c02::sign_prefix_inner", "", stubs=("log", "fmt", "drop"), unwindset=PARSER_LOOPS, timeout=1200, tiers=EXPERIMENTAL,
      expect="finding:C02-detached-sign", finding_match=("sign_prefix_inner",),
      about="7 o1 (+|-) 2 o2 4: a detached sign negates its operand only and the rest of the line is still evaluated"))
for n in (3, 4):
    add(H("C02", "c02_glue_missing_%d" % n, "verif_k::c02::glue_missing_tokens", str(n), stubs=("log", "fmt", "drop"), unwindset=PARSER_LOOPS, timeout=900,
          tiers=EXPERIMENTAL,
          about="missing_token_adder on all operand/operator lists of length %d: '+' inserted exactly between adjacent operands, 0 before a leading operator" % n))

# ----------------------------------------------------------------------------- chrono models of engine M (validated by K) + month arithmetic
add(H("C09", "c09_chrono_model_ymd", "verif_k::c09::chrono_model_ymd", "1600, 2400", timeout=600, tiers=("quick",),
      about="engine M's Gregorian model (validity predicate and day number) equals chrono's from_ymd_opt / num_days_from_ce for every year 1600..2400 (two full 400-year cycles), every month 0..13 and day 0..32"))
add(H("C09", "c09_chrono_model_ymd_all", "verif_k::c09::chrono_model_ymd", "1, 9999", timeout=1800, tiers=("thorough",),
      about="same for every year 1..9999"))
for i, (lo, hi) in enumerate(((-262143, -100000), (-100000, 0), (10000, 100000), (100000, 262142))):
    add(H("C09", "c09_chrono_model_ymd_far%d" % i, "verif_k::c09::chrono_model_ymd", "%d, %d" % (lo, hi), timeout=3000, tiers=("thorough",),
          about="same for years %d..%d" % (lo, hi)))
add(H("C14", "c14_chrono_model_timestamp", "verif_k::c09::chrono_model_timestamp", "", timeout=900,
      about="engine M's model of timestamp / and_hms / second of day equals chrono for every date-time of years 1..9999 (from_timestamp: documented inverse)"))
add(H("C11", "c11_chrono_model_datetime_add", "verif_k::c09::chrono_model_datetime_add", "1900, 2100, 3600", timeout=600, tiers=("quick",),
      about="engine M's model of NaiveDateTime + whole seconds equals chrono for all date-times of years 1901..2099 and |d| <= 1 h"))
add(H("C11", "c11_chrono_model_datetime_add_all", "verif_k::c09::chrono_model_datetime_add", "1, 9999, 172800", timeout=3000, tiers=("thorough",),
      about="same for years 2..9998 and |d| <= 2 days"))
add(H("C10", "c10_chrono_model_timedelta", "verif_k::c09::chrono_model_timedelta", "", timeout=900,
      about="engine M's model of TimeDelta::{seconds,minutes,hours,days,weeks}, num_seconds and + equals chrono for |n| <= 10^9"))
add(H("C09", "c09_add_months_years", "verif_k::c09::date_add_months", "2", unwindset=(MEMCMP,), timeout=1200,
      about="DateItem + (Y years M months as 365Y+30M days), Y <= 2, M <= 11, day <= 28, landing month not December-aligned: day kept, month index moved by 12Y+M; all dates of years 1..9996"))

# ----------------------------------------------------------------------------- C09 month arithmetic: strict sub-region + known-defect regions
add(H("C09", "c09_sub_months_years", "verif_k::c09::date_sub_months", "2", unwindset=(MEMCMP,), timeout=1200,
      about="DateItem - (Y years M months), Y <= 2, M <= 11, day <= 28, no month borrow (month - M >= 1): day kept, month index moved back by 12Y+M"))
add(H("C09", "c09_known_add_december", "verif_k::c09::date_add_months_december", "", unwindset=(MEMCMP,), timeout=1200,
      expect="finding:C09-add-months-december", finding_match=("date_add_months_december", "from_ymd", "invalid or out-of-range date", "expect_failed", "chrono"),
      about="known defect region: date + M months landing on December (month + M multiple of 12)"))
add(H("C09", "c09_known_add_day_overflow", "verif_k::c09::date_add_months_day_overflow", "", unwindset=(MEMCMP,), timeout=1200,
      expect="finding:C09-add-months-day-overflow", finding_match=("from_ymd", "invalid or out-of-range date", "expect_failed", "chrono"),
      about="known defect region: date + M months from day 29..31 into a shorter month"))
add(H("C09", "c09_known_sub_borrow", "verif_k::c09::date_sub_months_borrow", "", unwindset=(MEMCMP,), timeout=1200,
      expect="finding:C09-sub-months-borrow", finding_match=("date_sub_months_borrow", "from_ymd", "invalid or out-of-range date", "expect_failed", "chrono"),
      about="known defect region: date - M months across a year boundary"))
add(H("C09", "c09_known_days_ge30", "verif_k::c09::date_days_30_to_59", "", unwindset=(MEMCMP,), timeout=1200,
      expect="finding:C09-days-reread-as-months", finding_match=("date_days_30_to_59",),
      about="known defect region: date + n days for 30 <= n < 60 is re-read as one 30-day month plus n-30 days"))
add(H("C09", "c09_known_huge_years", "verif_k::c09::date_add_huge_years", "", unwindset=(MEMCMP,), timeout=1200,
      expect="finding:C09-huge-years-panic", finding_match=("from_ymd", "invalid or out-of-range date", "expect_failed", "chrono", "overflow"),
      about="known defect region: date + Y years with Y beyond chrono's year range (262143..400000)"))
