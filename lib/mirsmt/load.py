"""Regenerate the MIR dump from /repo's working tree and load it together with the crate's enum
definitions (variant order = discriminant) parsed from the sources."""
import os
import re
import shutil
import sys

sys.path.insert(0, os.path.dirname(os.path.dirname(os.path.abspath(__file__))))
import common  # noqa: E402
from mirsmt.mirparse import parse  # noqa: E402


def dump_mir(repo=None, keep=None):
    """returns (mir_text, seconds). The scratch copy is removed; build output of the registry
    dependencies is cached in .cache/mir-target (smartcalc itself is always re-dumped)."""
    repo = repo or common.REPO
    scratch = common.mkscratch("smartcalc-verif-mir.")
    try:
        for n in ("Cargo.toml", "Cargo.lock", "build.rs"):
            if os.path.exists(os.path.join(repo, n)):
                shutil.copy2(os.path.join(repo, n), os.path.join(scratch, n))
        shutil.copytree(os.path.join(repo, "src"), os.path.join(scratch, "src"))
        with open(os.path.join(scratch, "Cargo.toml"), "a") as fh:
            fh.write("\n[workspace]\n")
        env = common.env_offline()
        env["CARGO_INCREMENTAL"] = "0"
        out = os.path.join(scratch, "all.mir")
        rc, _, e, wall = common.run(
            ["cargo", "+nightly", "rustc", "--offline", "--lib", "--target-dir", os.path.join(common.CACHE, "mir-target"), "--",
             "-Zunpretty=mir", "-C", "debug-assertions=off", "-C", "overflow-checks=on"],
            cwd=scratch, timeout=900, env=env, stdout_path=out)
        if rc != 0:
            raise RuntimeError("MIR dump failed: %s" % (e or "")[-800:])
        text = open(out, errors="replace").read()
        if len(text) < 100000:
            raise RuntimeError("MIR dump is implausibly small (%d bytes)" % len(text))
        if keep:
            shutil.copy2(out, keep)
        return text, wall
    finally:
        common.rmtree(scratch)


ENUM_RE = re.compile(r"\benum\s+(\w+)\s*(?:<[^>{]*>)?\s*\{", re.S)


def parse_enums(repo=None):
    repo = repo or common.REPO
    enums = {}
    for root, _, files in os.walk(os.path.join(repo, "src")):
        for f in files:
            if not f.endswith(".rs"):
                continue
            text = open(os.path.join(root, f), errors="replace").read()
            text = re.sub(r"//[^\n]*", "", text)
            for m in ENUM_RE.finditer(text):
                i = m.end()
                depth, j = 1, i
                while j < len(text) and depth:
                    if text[j] == "{":
                        depth += 1
                    elif text[j] == "}":
                        depth -= 1
                    j += 1
                body = text[i:j - 1]
                variants, d, cur = [], 0, ""
                for ch in body:
                    if ch in "({[<":
                        d += 1
                    elif ch in ")}]>":
                        d -= 1
                    if ch == "," and d == 0:
                        variants.append(cur)
                        cur = ""
                    else:
                        cur += ch
                if cur.strip():
                    variants.append(cur)
                names, discr, nxt = [], [], 0
                for v in variants:
                    v = re.sub(r"#\[[^\]]*\]", "", v).strip()
                    vm = re.match(r"(\w+)", v)
                    if vm:
                        names.append(vm.group(1))
                        dm = re.search(r"=\s*(-?\d+)\s*$", v)
                        if dm:
                            nxt = int(dm.group(1))
                        discr.append(nxt)
                        nxt += 1
                enums[m.group(1)] = names
                DISCR[m.group(1)] = discr
    return enums


DISCR = {}


def load(repo=None, mir_path=None):
    if mir_path and os.path.exists(mir_path):
        text, wall = open(mir_path, errors="replace").read(), 0.0
    else:
        text, wall = dump_mir(repo)
    fns, consts = parse(text)
    return fns, consts, parse_enums(repo), wall
