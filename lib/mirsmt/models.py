"""Call handlers of the MIR executor: transparent wrappers, inputs (field map, configuration maps),
dyn dispatch, Option/Result helpers, f64 intrinsics, chrono models (validated by engine K)."""
import re

import z3

from .execmir import Outcome, Path, SymV, norm_type, last_seg, ITEM_KINDS, ITEM_MODULE, RM, F64
from .mirparse import Unsupported, split_top, strip_generics
from .values import *  # noqa: F401,F403

MAX_TD = I64_MAX // 1000   # chrono::TimeDelta::MAX in seconds


def deref(v):
    while isinstance(v, RefV):
        v = v.v
    return v


class FieldsV:
    """the `fields: &BTreeMap<String, Rc<TokenInfo>>` argument of a rule function: for each constant key a
    presence flag and a lazily initialised symbolic TokenInfo"""

    def __init__(self, ex, name="fields"):
        self.ex = ex
        self.name = name
        self.has = {}
        self.tok = {}
        self.keys_order = None
        self.closed = None     # set of field names of the rule's patterns: any other key is absent (closed world)

    def has_key(self, k):
        if self.closed is not None and k not in self.closed:
            return z3.BoolVal(False)
        if k not in self.has:
            self.has[k] = z3.Bool("%s.has[%s]" % (self.name, k))
            self.ex.inputs["%s.has[%s]" % (self.name, k)] = self.has[k]
        return self.has[k]

    def token(self, k):
        if k not in self.tok:
            self.tok[k] = SymV(self.ex, "%s[%s]" % (self.name, k), "tokinizer::TokenInfo")
        return self.tok[k]


class MapV:
    """a configuration map reached through a SymV: uninterpreted has/value functions of the key"""

    def __init__(self, ex, path, kty, vty):
        self.ex, self.path, self.kty, self.vty = ex, path, norm_type(kty), norm_type(vty)
        self.memo = {}

    def key_term(self, key):
        key = deref(key)
        if isinstance(key, StrV):
            return key.term()
        if isinstance(key, CurrencyV):
            return key.id
        if isinstance(key, IntV):
            return key.t
        raise Unsupported("map key %r" % (key,))

    def lookup(self, key):
        kt = self.key_term(key)
        ks = kt.sexpr()
        if ks in self.memo:
            return self.memo[ks]
        ex = self.ex
        has = z3.Function(self.path + ".has", kt.sort(), z3.BoolSort())(kt)
        vty = self.vty
        b = last_seg(vty.split("<")[0])
        if vty == "f64":
            if ex.mode == "fp":
                val = FloatV(z3.Function(self.path + ".val", kt.sort(), F64)(kt))
            else:
                val = FloatV(z3.Function(self.path + ".val", kt.sort(), z3.RealSort())(kt), z3.BoolVal(False))
        elif vty in INT_TYPES:
            bits, signed = INT_TYPES[vty]
            t = z3.Function(self.path + ".val", kt.sort(), z3.IntSort())(kt)
            val = IntV(t, bits, signed)
            ex.domain.append(z3.And(t >= val.lo(), t <= val.hi()))
        elif b == "CurrencyInfo":
            t = z3.Function(self.path + ".val", kt.sort(), z3.IntSort())(kt)
            ex.domain.append(z3.And(t >= 0, t < 4))
            val = CurrencyV(t)
        elif b == "BTreeMap":
            val = SymV(ex, "%s[%s]" % (self.path, ks), vty)
        elif b in ex.enums:
            t = z3.Function(self.path + ".val", kt.sort(), z3.IntSort())(kt)
            val = SymV(ex, "%s[%s]" % (self.path, ks), vty)
            val._tag = t
            ex.domain.append(z3.Or([t == d for d in ex.discr_of(b, ex.enums[b])]))
        elif re.match(r"^[A-Za-z_][\w:]*$", vty):
            # a plain struct value: lazily initialised symbolic object per key
            val = SymV(ex, "%s[%s]" % (self.path, ks), vty)
        else:
            raise Unsupported("map value type %s" % vty)
        self.memo[ks] = (has, val)
        return has, val


def get_map(ex, m):
    m = deref(m)
    if isinstance(m, (FieldsV, MapV)):
        return m
    if isinstance(m, SymV):
        if not hasattr(m, "_map"):
            inner = m.ty[m.ty.index("<") + 1:-1]
            kty, vty = split_top(inner)
            m._map = MapV(ex, m.path, kty, vty)
        return m._map
    raise Unsupported("map object %r" % (m,))


def fork(ex, path, cond, yes, no):
    """yield outcomes for the two branches of a symbolic condition (feasible ones only)"""
    c = z3.simplify(cond)
    if z3.is_true(c):
        yield Outcome("return", path, yes() if callable(yes) else yes)
        return
    if z3.is_false(c):
        yield Outcome("return", path, no() if callable(no) else no)
        return
    p1 = path.add(c)
    if ex.feasible(p1):
        yield Outcome("return", p1, yes() if callable(yes) else yes)
    p2 = path.add(z3.Not(c))
    if ex.feasible(p2):
        yield Outcome("return", p2, no() if callable(no) else no)


def some(v):
    return EnumV("Option", "Some", [v])


NONE = EnumV("Option", "None", [])


def option_cases(ex, path, opt):
    """yield (path, is_some, payload) for an Option value that may be symbolic"""
    opt = deref(opt)
    if isinstance(opt, EnumV):
        yield path, opt.variant == "Some", (opt.f[0] if opt.variant == "Some" else None)
        return
    if isinstance(opt, SymV):
        tag = opt.tag()
        p1 = path.add(tag == 1)
        if ex.feasible(p1):
            inner_ty = split_top(opt.ty[opt.ty.index("<") + 1:-1])[0] if "<" in opt.ty else "payload"
            yield p1, True, opt.payload("Some").field(0, inner_ty)
        p0 = path.add(tag == 0)
        if ex.feasible(p0):
            yield p0, False, None
        return
    raise Unsupported("option value %r" % (opt,))


def panic(path, msg, where):
    return Outcome("panic", path, msg=msg, where=where)


# ------------------------------------------------------------------ handlers
def h_identity(ex, name, args, path, depth, caller):
    yield Outcome("return", path, deref(args[0]) if not isinstance(args[0], RefV) else args[0].v)


def h_identity_keep(ex, name, args, path, depth, caller):
    yield Outcome("return", path, args[0])


def h_contains_key(ex, name, args, path, depth, caller):
    m = get_map(ex, args[0])
    key = deref(args[1])
    if isinstance(m, FieldsV):
        if not (isinstance(key, StrV) and key.is_concrete()):
            raise Unsupported("fields.contains_key with a non-constant key")
        yield Outcome("return", path, m.has_key(key.t))
        return
    has, _ = m.lookup(key)
    yield Outcome("return", path, has)


def h_map_get(ex, name, args, path, depth, caller):
    m = get_map(ex, args[0])
    key = deref(args[1])
    if isinstance(m, FieldsV):
        if not (isinstance(key, StrV) and key.is_concrete()):
            raise Unsupported("fields.get with a non-constant key")
        k = key.t
        yield from fork(ex, path, m.has_key(k), lambda: some(RefV(m.token(k))), NONE)
        return
    has, val = m.lookup(key)
    # insertions made on this path (BTreeMap::insert on a symbolic map): the latest matching one wins
    ov = map_overrides(path, m) if isinstance(m, MapV) else None
    if ov:
        kt = m.key_term(key)
        if not isinstance(val, FloatV):
            raise Unsupported("lookup in an updated map whose values are not numbers")
        for k_i, v_i in ov:
            has = z3.Or(kt == k_i, has)
            val = FloatV(z3.If(kt == k_i, v_i.t, val.t), z3.BoolVal(False))
    yield from fork(ex, path, has, lambda: some(RefV(val)), NONE)


def map_overrides(path, m):
    """[(key term, value)] written into the symbolic map m on this path: inserts, then stores through get_mut references"""
    ov = list(path.stores.get((m.path, "overrides")) or [])
    for k, v in path.stores.items():
        if k[0] == m.path and isinstance(k[1], tuple) and k[1][0] == "slot":
            ov.append((k[1][1], v))
    return ov


def h_map_get_mut_sym(ex, name, args, path, depth, caller):
    """BTreeMap::get_mut on a symbolic configuration map with number values: a reference whose assignment is recorded"""
    m = get_map(ex, args[0])
    if not isinstance(m, MapV):
        return NotImplemented
    key = deref(args[1])
    has, val = m.lookup(key)
    kt = m.key_term(key)
    for k_i, v_i in map_overrides(path, m):
        has = z3.Or(kt == k_i, has)
        val = FloatV(z3.If(kt == k_i, v_i.t, val.t), z3.BoolVal(False))
    return fork(ex, path, has, lambda: some(RefV(val, loc=(m.path, ("slot", kt)))), NONE)


def h_map_insert_sym(ex, name, args, path, depth, caller):
    """BTreeMap::insert on a symbolic configuration map with number values: recorded in the path"""
    m = get_map(ex, args[0])
    if not isinstance(m, MapV):
        return NotImplemented
    key, v = deref(args[1]), deref(args[2])
    if not isinstance(v, FloatV):
        raise Unsupported("insert of %r into a symbolic map" % (v,))
    kt = m.key_term(key)
    old = list(path.stores.get((m.path, "overrides")) or [])
    p2 = path.store(m.path, "overrides", "map", old + [(kt, v)])
    return ex.ret(p2, OpaqueV("previous value"))


def h_to_string(ex, name, args, path, depth, caller):
    v = deref(args[0])
    if isinstance(v, StrV):
        yield Outcome("return", path, v)
    else:
        yield Outcome("return", path, OpaqueV("to_string"))


def h_str_eq(ex, name, args, path, depth, caller):
    a, b = deref(args[0]), deref(args[1])
    if isinstance(a, StrV) and isinstance(b, StrV):
        if a.is_concrete() and b.is_concrete():
            yield Outcome("return", path, z3.BoolVal(a.t == b.t))
        else:
            yield Outcome("return", path, a.term() == b.term())
        return
    if (isinstance(a, TextV) and isinstance(b, StrV) and not b.is_concrete()) or (isinstance(b, TextV) and isinstance(a, StrV) and not a.is_concrete()):
        # a structured text against an unknown earlier text: either answer is possible
        key = "same_text_%d" % len([k for k in ex.inputs if k.startswith("same_text_")])
        t = z3.Bool(key)
        ex.inputs[key] = t
        yield Outcome("return", path, t)
        return
    raise Unsupported("str eq on %r, %r" % (a, b))


def h_str_ne(ex, name, args, path, depth, caller):
    for o in h_str_eq(ex, name, args, path, depth, caller):
        yield Outcome("return", o.path, z3.Not(o.value))


def h_char_to_string(ex, name, args, path, depth, caller):
    c = deref(args[0])
    t = z3.simplify(c.t)
    if z3.is_int_value(t):
        yield Outcome("return", path, StrV(chr(t.as_long())))
    else:
        yield Outcome("return", path, StrV(z3.StrFromCode(c.t)))


def h_to_lowercase(ex, name, args, path, depth, caller):
    v = deref(args[0])
    if isinstance(v, StrV) and v.is_concrete():
        yield Outcome("return", path, StrV(v.t.lower()))
    elif isinstance(v, StrV):
        t = z3.Function("str.lower", z3.StringSort(), z3.StringSort())(v.term())
        yield Outcome("return", path, StrV(t))
    else:
        raise Unsupported("to_lowercase of %r" % (v,))


def h_to_uppercase(ex, name, args, path, depth, caller):
    v = deref(args[0])
    if isinstance(v, StrV) and v.is_concrete():
        yield Outcome("return", path, StrV(v.t.upper()))
    elif isinstance(v, StrV):
        t = z3.Function("str.upper", z3.StringSort(), z3.StringSort())(v.term())
        yield Outcome("return", path, StrV(t))
    else:
        raise Unsupported("to_uppercase of %r" % (v,))


def closure_fn(ex, name):
    # the closure passed to the method is among the method's own generic arguments (after the last ">::"), not among
    # the closures that are part of the receiver's type (Filter<Chars, {closure}>::map::<_, {closure}>)
    idx = name.rfind(">::")
    m = re.search(r"\{closure@([^}]*)\}", name[idx:]) if idx >= 0 else None
    if not m:
        m = re.search(r"\{closure@([^}]*)\}", name)
    if not m:
        raise Unsupported("closure in " + name)
    key = "{closure@%s}" % m.group(1)
    for n, f in ex.fns.items():
        if f.args and key in f.args[0][1]:
            return f
    raise Unsupported("closure body not found for " + key)


def h_option_map(ex, name, args, path, depth, caller):
    f = closure_fn(ex, name)
    for p, is_some, payload in option_cases(ex, path, args[0]):
        if not is_some:
            yield Outcome("return", p, NONE)
            continue
        for o in ex.run(f, [args[1], payload], p, depth + 1):
            if o.kind == "panic":
                yield o
            else:
                yield Outcome("return", o.path, some(o.value))


def h_option_map_or(ex, name, args, path, depth, caller):
    f = closure_fn(ex, name)
    for p, is_some, payload in option_cases(ex, path, args[0]):
        if not is_some:
            yield Outcome("return", p, args[1])
            continue
        yield from ex.run(f, [args[2], payload], p, depth + 1)


def h_option_unwrap(ex, name, args, path, depth, caller):
    for p, is_some, payload in option_cases(ex, path, args[0]):
        if is_some:
            yield Outcome("return", p, payload)
        else:
            yield panic(p, "called `Option::unwrap()` on a `None` value", caller.name)


def h_option_branch(ex, name, args, path, depth, caller):
    for p, is_some, payload in option_cases(ex, path, args[0]):
        if is_some:
            yield Outcome("return", p, EnumV("ControlFlow", "Continue", [payload]))
        else:
            yield Outcome("return", p, EnumV("ControlFlow", "Break", [NONE]))


def h_option_from_residual(ex, name, args, path, depth, caller):
    yield Outcome("return", path, NONE)


def h_option_cloned(ex, name, args, path, depth, caller):
    for p, is_some, payload in option_cases(ex, path, args[0]):
        yield Outcome("return", p, some(deref(payload)) if is_some else NONE)


def h_option_is_some(ex, name, args, path, depth, caller):
    want = name.endswith("is_some")
    for p, is_some, payload in option_cases(ex, path, args[0]):
        yield Outcome("return", p, z3.BoolVal(is_some == want))


def h_result_unwrap(ex, name, args, path, depth, caller):
    v = deref(args[0])
    if isinstance(v, EnumV) and v.enum == "Result":
        if v.variant == "Ok":
            yield Outcome("return", path, v.f[0])
        else:
            yield panic(path, "called `Result::unwrap()` on an `Err` value", caller.name)
        return
    raise Unsupported("Result::unwrap of %r" % (v,))


def h_f64_pred(ex, name, args, path, depth, caller):
    if name.endswith("is_finite") or name.endswith("is_normal"):
        a = deref(args[0])
        ok = z3.Not(z3.Or(ex.f_is_special(a, "inf"), ex.f_is_special(a, "nan")))
        if name.endswith("is_normal"):
            if ex.mode == "fp":
                raise Unsupported("is_normal in fp mode")
            ok = z3.And(ok, a.t != 0)      # real relaxation: no subnormals, zero is the only finite non-normal value
        yield Outcome("return", path, ok)
        return
    which = "inf" if name.endswith("is_infinite") else "nan"
    yield Outcome("return", path, ex.f_is_special(args[0], which))


def h_f64_round(ex, name, args, path, depth, caller):
    a = args[0]
    fn = name.split("::")[-1]
    if ex.mode == "fp":
        if fn == "round":
            t = z3.fpRoundToIntegral(z3.RNA(), a.t)
        elif fn == "trunc":
            t = z3.fpRoundToIntegral(z3.RTZ(), a.t)
        elif fn == "abs":
            t = z3.fpAbs(a.t)
        elif fn == "floor":
            t = z3.fpRoundToIntegral(z3.RTN(), a.t)
        else:
            raise Unsupported("f64::" + fn)
        yield Outcome("return", path, FloatV(t))
        return
    x = a.t
    if fn == "abs":
        t = z3.If(x >= 0, x, -x)
    elif fn == "trunc":
        t = z3.ToReal(z3.If(x >= 0, z3.ToInt(x), -z3.ToInt(-x)))
    elif fn == "floor":
        t = z3.ToReal(z3.ToInt(x))
    elif fn == "fract":
        t = x - z3.ToReal(z3.If(x >= 0, z3.ToInt(x), -z3.ToInt(-x)))
    elif fn == "round":   # half away from zero
        t = z3.ToReal(z3.If(x >= 0, z3.ToInt(x + z3.Q(1, 2)), -z3.ToInt(-x + z3.Q(1, 2))))
    else:
        raise Unsupported("f64::" + fn)
    yield Outcome("return", path, FloatV(t, a.undef))


def h_f64_mul_ref(ex, name, args, path, depth, caller):
    op = {"mul": "Mul", "add": "Add", "sub": "Sub", "div": "Div"}[name.split("::")[-1]]
    yield Outcome("return", path, ex.f_bin(op, deref(args[0]), deref(args[1])))


def int_binop(ex, path, op, a, b, caller):
    """outcomes of a checked integer operation (dev profile: overflow and zero divisors panic)"""
    if op in ("div", "rem"):
        z = path.add(b.t == 0)
        if ex.feasible(z):
            yield panic(z, "attempt to %s by zero" % ("divide" if op == "div" else "calculate the remainder with a divisor of zero"), caller.name)
        path = path.add(b.t != 0)
        if not ex.feasible(path):
            return
        q = ex.tdiv(a.t, b.t)
        r = q if op == "div" else a.t - q * b.t
    else:
        r = {"add": a.t + b.t, "sub": a.t - b.t, "mul": a.t * b.t}[op]
    ok = z3.And(r >= a.lo(), r <= a.hi())
    bad = path.add(z3.Not(ok))
    if ex.feasible(bad):
        yield panic(bad, "attempt to %s with overflow" % op, caller.name)
    good = path.add(ok)
    if ex.feasible(good):
        yield Outcome("return", good, IntV(r, a.bits, a.signed))


def h_int_saturating(ex, name, args, path, depth, caller):
    a, b = deref(args[0]), deref(args[1])
    op = name.split("::")[-1]
    r = a.t - b.t if op == "saturating_sub" else a.t + b.t
    r = z3.If(r < a.lo(), a.lo(), z3.If(r > a.hi(), a.hi(), r))
    yield Outcome("return", path, IntV(z3.simplify(r), a.bits, a.signed))


def h_int_op_ref(ex, name, args, path, depth, caller):
    op = name.split("::")[-1]
    yield from int_binop(ex, path, op, deref(args[0]), deref(args[1]), caller)


def h_int_op_assign(ex, name, args, path, depth, caller):
    op = name.split("::")[-1].replace("_assign", "")
    for o in int_binop(ex, path, op, cur(path, args[0]), deref(args[1]), caller):
        if o.kind == "panic":
            yield o
            continue
        p2, wr = writeback(o.path, args[0], o.value, "integer")
        yield Outcome("return", p2, UNIT, writes=wr)


def h_typeid_of(ex, name, args, path, depth, caller):
    m = re.search(r"of::<(.*)>$", name)
    yield Outcome("return", path, TypeIdV(last_seg(m.group(1))))


def h_typeid_eq(ex, name, args, path, depth, caller):
    a, b = deref(args[0]), deref(args[1])
    yield Outcome("return", path, z3.BoolVal((a.name == b.name) != name.endswith("::ne")))


def item_impl(ex, kind, method):
    mod = ITEM_MODULE[kind]
    rx = re.compile(r"^(?:compiler::)?%s::<impl at src/compiler/%s\.rs[^>]*>::%s$" % (mod, mod, re.escape(method)))
    for n, f in ex.fns.items():
        if rx.match(n) and f.args and norm_type(f.args[0][1]).split("::")[-1] == kind:
            return f
    raise Unsupported("impl %s::%s not found" % (kind, method))


def item_cases(ex, path, recv):
    """yield (path, ItemV) for a receiver that is a concrete item or a symbolic dyn DataItem"""
    recv = deref(recv)
    if isinstance(recv, ItemV):
        yield path, recv
        return
    if isinstance(recv, SymV):
        kinds = ex.item_kinds
        for i, k in enumerate(ITEM_KINDS):
            if k not in kinds:
                continue
            p = path.add(recv.tag() == i)
            if ex.feasible(p):
                yield p, ItemV(k, recv.payload(k))
        return
    raise Unsupported("dyn receiver %r" % (recv,))


def h_dyn_dataitem(ex, name, args, path, depth, caller):
    method = name.split("::")[-1]
    for p, item in item_cases(ex, path, args[0]):
        if method == "as_any":
            yield Outcome("return", p, item)
            continue
        if method == "type_id":
            yield Outcome("return", p, TypeIdV(item.kind))
            continue
        f = item_impl(ex, item.kind, method)
        yield from ex.run(f, [item] + list(args[1:]), p, depth + 1)


def h_static_dataitem(ex, name, args, path, depth, caller):
    m = re.match(r"^<(\w+) as DataItem>::(\w+)$", name)
    kind, method = m.group(1), m.group(2)
    if kind not in ITEM_KINDS:
        return NotImplemented
    recv = deref(args[0])
    if isinstance(recv, SymV):
        recv = ItemV(kind, recv)
    if method == "type_id":
        return ex.ret(path, TypeIdV(kind))
    if method == "as_any":
        return ex.ret(path, recv)
    return ex.run(item_impl(ex, kind, method), [recv] + list(args[1:]), path, depth + 1)


def h_downcast_ref(ex, name, args, path, depth, caller):
    m = re.search(r"downcast_ref::<(.*)>$", name)
    want = last_seg(m.group(1))
    v = deref(args[0])
    if isinstance(v, ItemV):
        yield Outcome("return", path, some(RefV(v)) if v.kind == want else NONE)
        return
    if isinstance(v, (FloatV, IntV, TupleV, DurationV, DateV, DateTimeV, StrV)):
        # is_same(&dyn Any) with a plain payload: used by variable_compare only
        raise Unsupported("downcast_ref of a plain value")
    raise Unsupported("downcast_ref of %r" % (v,))


def h_currency_eq(ex, name, args, path, depth, caller):
    a, b = deref(args[0]), deref(args[1])
    if isinstance(a, CurrencyV) and isinstance(b, CurrencyV):
        r = a.id == b.id
        yield Outcome("return", path, z3.Not(r) if name.endswith("::ne") else r)
        return
    raise Unsupported("currency comparison on %r" % (a,))


def h_rc_ptr_eq(ex, name, args, path, depth, caller):
    a, b = deref(args[0]), deref(args[1])
    if isinstance(a, CurrencyV) and isinstance(b, CurrencyV):
        # distinct Rc allocations of one currency are not modelled: pointer identity = currency identity
        yield Outcome("return", path, a.id == b.id)
        return
    raise Unsupported("Rc::ptr_eq on %r" % (a,))


def h_rc_new(ex, name, args, path, depth, caller):
    yield Outcome("return", path, args[0])


def h_money_get(ex, name, args, path, depth, caller):
    v = deref(args[0])
    idx = 0 if name.endswith("get_price") else 1
    yield Outcome("return", path, ex.project(v, idx, "f64" if idx == 0 else "Rc<CurrencyInfo>"))


def h_string_index_full(ex, name, args, path, depth, caller):
    yield Outcome("return", path, deref(args[0]))


def h_unit(ex, name, args, path, depth, caller):
    yield Outcome("return", path, UNIT)


def h_opaque(ex, name, args, path, depth, caller):
    yield Outcome("return", path, OpaqueV(name[:40]))


# ------------------------------------------------------------------ chrono models
def dur_new(ex, path, secs_term, caller, what):
    """TimeDelta constructor: panics ("out of bounds") unless |secs| <= i64::MAX/1000"""
    ok = z3.And(secs_term >= -MAX_TD, secs_term <= MAX_TD)
    okp = path.add(ok)
    bad = path.add(z3.Not(ok))
    if ex.feasible(bad):
        yield panic(bad, "%s out of bounds" % what, caller.name)
    if ex.feasible(okp):
        yield Outcome("return", okp, DurationV(z3.simplify(secs_term)))


UNIT_SECS = {"seconds": 1, "minutes": 60, "hours": 3600, "days": 86400, "weeks": 604800}


def h_td_ctor(ex, name, args, path, depth, caller):
    unit = name.split("::")[-1]
    n = deref(args[0])
    yield from dur_new(ex, path, n.t * UNIT_SECS[unit], caller, "TimeDelta::" + unit)


def h_td_zero(ex, name, args, path, depth, caller):
    yield Outcome("return", path, DurationV(z3.IntVal(0)))


def h_td_num(ex, name, args, path, depth, caller):
    unit = name.split("::")[-1]
    d = deref(args[0])
    div = {"num_seconds": 1, "num_minutes": 60, "num_hours": 3600, "num_days": 86400, "num_weeks": 604800}[unit]
    t = d.secs if div == 1 else ex.tdiv(d.secs, z3.IntVal(div))
    yield Outcome("return", path, IntV(t, 64, True))


def h_td_addsub(ex, name, args, path, depth, caller):
    a, b = deref(args[0]), deref(args[1])
    sub = "Sub" in name
    yield from dur_new(ex, path, a.secs - b.secs if sub else a.secs + b.secs, caller, "TimeDelta " + ("-" if sub else "+"))


def h_td_cmp(ex, name, args, path, depth, caller):
    a, b = deref(args[0]), deref(args[1])
    op = name.split("::")[-1]
    x, y = (a.secs, b.secs) if isinstance(a, DurationV) else (a.total(), b.total()) if isinstance(a, DateTimeV) else (a.days, b.days)
    r = {"gt": x > y, "lt": x < y, "ge": x >= y, "le": x <= y, "eq": x == y, "ne": x != y}[op]
    yield Outcome("return", path, r)


def h_int_into(ex, name, args, path, depth, caller):
    m = re.match(r"^<(\w+) as (?:Into|From)<(\w+)>>::(into|from)$", name)
    src, dst = (m.group(1), m.group(2)) if m.group(3) == "into" else (m.group(2), m.group(1))
    a = deref(args[0])
    if dst == "f64":
        yield Outcome("return", path, ex.i_to_float(a))
        return
    bits, signed = INT_TYPES[dst]
    yield Outcome("return", path, IntV(a.t, bits, signed))   # lossless widening only (From/Into between integers)


def h_int_pow(ex, name, args, path, depth, caller):
    """base.pow(exp) with a small exponent: If-chain over 0..19; overflow panics (dev profile)"""
    b, e = deref(args[0]), deref(args[1])
    if not (z3.is_int_value(b.t) or isinstance(b.t, int)):
        raise Unsupported("pow with a symbolic base")
    base = b.t.as_long() if z3.is_expr(b.t) else int(b.t)
    val = z3.IntVal(0)
    for k in range(19, -1, -1):
        val = z3.If(e.t == k, z3.IntVal(base ** k), val)
    ok = z3.And(e.t >= 0, e.t <= 19, val <= b.hi())
    bad = path.add(z3.Not(ok))
    if ex.feasible(bad):
        yield panic(bad, "attempt to multiply with overflow (pow)", caller.name)
    okp = path.add(ok)
    if ex.feasible(okp):
        yield Outcome("return", okp, IntV(val, b.bits, b.signed))


def h_minmax(ex, name, args, path, depth, caller):
    a, b = deref(args[0]), deref(args[1])
    is_min = "::min" in name
    if isinstance(a, IntV):
        t = z3.If(a.t <= b.t, a.t, b.t) if is_min else z3.If(a.t >= b.t, a.t, b.t)
        yield Outcome("return", path, IntV(t, a.bits, a.signed))
        return
    raise Unsupported("min/max of %r" % (a,))


def h_rem_euclid(ex, name, args, path, depth, caller):
    a, b = deref(args[0]), deref(args[1])
    fn = name.split("::")[-1]
    bad = path.add(b.t == 0)
    if ex.feasible(bad):
        yield panic(bad, "attempt to calculate the remainder with a divisor of zero", caller.name)
    ok = path.add(b.t != 0)
    if ex.feasible(ok):
        m = a.t % z3.If(b.t >= 0, b.t, -b.t)       # z3: 0 <= a mod |b| < |b|
        q = (a.t - m) / b.t
        yield Outcome("return", ok, IntV(m if fn == "rem_euclid" else q, a.bits, a.signed))


def h_str_pred(ex, name, args, path, depth, caller):
    """str::contains / starts_with / ends_with on (symbolic) strings: z3 string theory"""
    a, b = deref(args[0]), deref(args[1])
    if isinstance(a, StrV) and isinstance(b, StrV):
        fn = strip_generics(name).split("::")[-1]
        if fn == "contains":
            t = z3.Contains(a.term(), b.term())
        elif fn == "starts_with":
            t = z3.PrefixOf(b.term(), a.term())
        else:
            t = z3.SuffixOf(b.term(), a.term())
        yield Outcome("return", path, t)
        return
    raise Unsupported("%s on %r" % (name, a))


def h_int_abs(ex, name, args, path, depth, caller):
    a = deref(args[0])
    bad = path.add(a.t == a.lo())
    if ex.feasible(bad):
        yield panic(bad, "attempt to negate with overflow (abs)", caller.name)
    ok = path.add(a.t != a.lo())
    if ex.feasible(ok):
        yield Outcome("return", ok, IntV(z3.If(a.t >= 0, a.t, -a.t), a.bits, a.signed))


def h_int_is_negative(ex, name, args, path, depth, caller):
    yield Outcome("return", path, deref(args[0]).t < 0)


def install(ex):
    H = []

    def add(rx, fn):
        H.append((re.compile(rx), fn))

    add(r"^<(Rc|Ref|alloc::rc::Rc|&)<.*> as Deref>::deref$", h_identity)
    add(r"^<RefMut<.*> as Deref>::deref$", h_refmut_deref)
    add(r"^<(alloc::string::)?String as Deref>::deref$", h_identity)
    add(r"^RefCell::<.*>::borrow$", h_identity)
    add(r"^<.* as Clone>::clone$", h_identity)
    add(r"^<.* as Borrow<.*>>::borrow$", h_identity)
    add(r"^<.* as AsRef<.*>>::as_ref$", h_identity)
    add(r"^BTreeMap::<.*>::contains_key::<.*>$", h_contains_key)
    add(r"^BTreeMap::<.*>::get::<.*>$", h_map_get)
    add(r"^<(str|alloc::string::String|String) as ToString>::to_string$", h_to_string)
    add(r"^<(alloc::string::)?String as From<&str>>::from$", h_to_string)
    add(r"^<(str|&str|alloc::string::String|String) as PartialEq(<.*>)?>::eq$", h_str_eq)
    add(r"^<(str|&str|alloc::string::String|String) as PartialEq(<.*>)?>::ne$", h_str_ne)
    add(r"^alloc::str::<impl str>::to_lowercase$", h_to_lowercase)
    add(r"^<char as ToString>::to_string$", h_char_to_string)
    add(r"^alloc::str::<impl str>::to_uppercase$", h_to_uppercase)
    add(r"^core::option::Option::<.*>::map::<.*>$", h_option_map)
    add(r"^core::option::Option::<.*>::unwrap$", h_option_unwrap)
    add(r"^<(core::option::)?Option<.*> as Try>::branch$", h_option_branch)
    add(r"^<(core::option::)?Option<.*> as FromResidual<.*>>::from_residual$", h_option_from_residual)
    add(r"^core::option::Option::<.*>::cloned$", h_option_cloned)
    add(r"^core::option::Option::<.*>::(is_some|is_none)$", h_option_is_some)
    add(r"^(core::result::)?Result::<.*>::unwrap$", h_result_unwrap)
    add(r"^(core::|std::)?f64::<impl f64>::(is_infinite|is_nan|is_finite|is_normal)$", h_f64_pred)
    add(r"^(core::|std::)?f64::<impl f64>::(round|trunc|abs|floor|fract)$", h_f64_round)
    add(r"^<(&)?(i8|i16|i32|i64|isize|u8|u16|u32|u64|usize) as (Mul|Add|Sub|Div|Rem)<(&)?(i8|i16|i32|i64|isize|u8|u16|u32|u64|usize)>>::(mul|add|sub|div|rem)$", h_int_op_ref)
    add(r"^<(i8|i16|i32|i64|isize|u8|u16|u32|u64|usize) as (Mul|Add|Sub|Div|Rem)Assign<(&)?(i8|i16|i32|i64|isize|u8|u16|u32|u64|usize)>>::(mul|add|sub|div|rem)_assign$", h_int_op_assign)
    add(r"^core::num::<impl (i8|i16|i32|i64|isize|u8|u16|u32|u64|usize)>::saturating_(sub|add)$", h_int_saturating)
    add(r"^<f64 as (Mul|Add|Sub|Div)<&f64>>::(mul|add|sub|div)$", h_f64_mul_ref)
    add(r"^<&f64 as (Mul|Add|Sub|Div)<(&)?f64>>::(mul|add|sub|div)$", h_f64_mul_ref)
    add(r"^TypeId::of::<.*>$", h_typeid_of)
    add(r"^<TypeId as PartialEq>::(eq|ne)$", h_typeid_eq)
    add(r"^<dyn DataItem as DataItem>::\w+$", h_dyn_dataitem)
    add(r"^<\w+ as DataItem>::\w+$", h_static_dataitem)
    add(r"^<\(dyn Any \+ 'static\)>::downcast_ref::<.*>$", h_downcast_ref)
    add(r"^Rc::<.*>::new$", h_rc_new)
    add(r"^<(Rc<)?(types::)?CurrencyInfo>? as PartialEq>::(eq|ne)$", h_currency_eq)
    add(r"^Rc::<(types::)?CurrencyInfo>::ptr_eq$", h_rc_ptr_eq)
    add(r"^Money::(get_price|get_currency)$", h_money_get)
    add(r"^<(alloc::string::)?String as core::ops::Index<RangeFull>>::index$", h_string_index_full)
    add(r"^(chrono::)?(TimeDelta|Duration)::(seconds|minutes|hours|days|weeks)$", h_td_ctor)
    add(r"^(chrono::)?(TimeDelta|Duration)::zero$", h_td_zero)
    add(r"^(chrono::)?(TimeDelta|Duration)::(num_seconds|num_minutes|num_hours|num_days|num_weeks)$", h_td_num)
    add(r"^<(chrono::)?(TimeDelta|Duration) as (Add|Sub)>::(add|sub)$", h_td_addsub)
    add(r"^<(chrono::)?(TimeDelta|Duration|NaiveDateTime|NaiveDate) as PartialOrd>::(gt|lt|ge|le)$", h_td_cmp)
    add(r"^<(chrono::)?(TimeDelta|Duration|NaiveDateTime|NaiveDate) as PartialEq>::(eq|ne)$", h_td_cmp)
    add(r"^<(u8|u16|u32|u64|usize|i8|i16|i32|i64) as (Into|From)<(u8|u16|u32|u64|usize|i8|i16|i32|i64|f64)>>::(into|from)$", h_int_into)
    add(r"^core::num::<impl (u8|u16|u32|u64|usize|i32|i64)>::pow$", h_int_pow)
    add(r"^core::cmp::(min|max)::<(i64|i32|u32|u64|usize)>$|^<(i64|i32|u32|u64|usize) as Ord>::(min|max)$", h_minmax)
    add(r"^core::num::<impl (i64|i32)>::(rem_euclid|div_euclid)$", h_rem_euclid)
    add(r"^core::str::<impl str>::(contains|starts_with|ends_with)::<&str>$", h_str_pred)
    add(r"^core::str::<impl str>::split::<.*>$", h_opaque)
    add(r"^core::num::<impl i64>::abs$", h_int_abs)
    add(r"^core::num::<impl i64>::is_negative$", h_int_is_negative)
    ex.handlers = H + ex.handlers
    install_chrono(ex)
    install_heap(ex)
    install_c03(ex)
    install_rules(ex)
    install_checked(ex)
    install_chrono2(ex)
    install_text(ex)


# ------------------------------------------------------------------ chrono: dates, times, zones
EPOCH_DAYS = 719162          # days from 0001-01-01 to 1970-01-01


def days_from_civil_py(y, m, d):
    y -= m <= 2
    era = (y if y >= 0 else y - 399) // 400
    yoe = y - era * 400
    doy = (153 * (m + (-3 if m > 2 else 9)) + 2) // 5 + d - 1
    doe = yoe * 365 + yoe // 4 - yoe // 100 + doy
    return era * 146097 + doe - 719468 + EPOCH_DAYS


CHRONO_MIN_DAYS = days_from_civil_py(-262143, 1, 1)
CHRONO_MAX_DAYS = days_from_civil_py(262142, 12, 31)


def days_from_civil(y, m, d):
    """z3 Int terms; proleptic Gregorian; day 0 = 0001-01-01 (Howard Hinnant's algorithm, floor division)"""
    y2 = z3.If(m <= 2, y - 1, y)
    era = y2 / 400              # z3 Int division by a positive constant is floor division
    yoe = y2 - era * 400
    mp = z3.If(m > 2, m - 3, m + 9)
    doy = (153 * mp + 2) / 5 + d - 1
    doe = yoe * 365 + yoe / 4 - yoe / 100 + doy
    return era * 146097 + doe - 719468 + EPOCH_DAYS


def is_leap(y):
    return z3.And(y % 4 == 0, z3.Or(y % 100 != 0, y % 400 == 0))


def valid_ymd(y, m, d):
    dim = z3.If(m == 2, z3.If(is_leap(y), 29, 28), z3.If(z3.Or(m == 4, m == 6, m == 9, m == 11), 30, 31))
    return z3.And(y >= -262143, y <= 262142, m >= 1, m <= 12, d >= 1, d <= dim)


class ZonedV:
    """chrono::DateTime<Tz>: the UTC instant (DateTimeV) and the offset in seconds"""
    __slots__ = ("utc", "off")

    def __init__(self, utc, off):
        self.utc, self.off = utc, off


class OffsetV:
    __slots__ = ("secs",)

    def __init__(self, secs):
        self.secs = secs


def dt_from_total(total):
    return DateTimeV(total / 86400, total % 86400)


def dt_checked(ex, path, total, caller, what):
    days = total / 86400
    ok = z3.And(days >= CHRONO_MIN_DAYS, days <= CHRONO_MAX_DAYS)
    bad = path.add(z3.Not(ok))
    if ex.feasible(bad):
        yield panic(bad, what + " overflowed", caller.name)
    okp = path.add(ok)
    if ex.feasible(okp):
        yield Outcome("return", okp, dt_from_total(z3.simplify(total)))


def h_ndt_addsub_td(ex, name, args, path, depth, caller):
    a, d = deref(args[0]), deref(args[1])
    sub = " as Sub<" in name
    if isinstance(a, DateTimeV):
        yield from dt_checked(ex, path, a.total() - d.secs if sub else a.total() + d.secs, caller, "`NaiveDateTime %s TimeDelta`" % ("-" if sub else "+"))
        return
    if isinstance(a, DateV):
        # NaiveDate +- TimeDelta: whole days of the duration (truncated toward zero)
        dd = ex.tdiv(d.secs, z3.IntVal(86400))
        days = a.days - dd if sub else a.days + dd
        ok = z3.And(days >= CHRONO_MIN_DAYS, days <= CHRONO_MAX_DAYS)
        bad = path.add(z3.Not(ok))
        if ex.feasible(bad):
            yield panic(bad, "`NaiveDate %s TimeDelta` overflowed" % ("-" if sub else "+"), caller.name)
        okp = path.add(ok)
        if ex.feasible(okp):
            yield Outcome("return", okp, DateV(z3.simplify(days)))
        return
    raise Unsupported("date arithmetic on %r" % (a,))


def h_ndt_sub_ndt(ex, name, args, path, depth, caller):
    a, b = deref(args[0]), deref(args[1])
    if isinstance(a, DateTimeV):
        yield Outcome("return", path, DurationV(a.total() - b.total()))
    else:
        yield Outcome("return", path, DurationV((a.days - b.days) * 86400))


def h_timelike(ex, name, args, path, depth, caller):
    a = deref(args[0])
    secs = a.secs
    fn = name.split("::")[-1]
    t = {"num_seconds_from_midnight": secs, "hour": secs / 3600, "minute": (secs / 60) % 60, "second": secs % 60,
         "nanosecond": z3.IntVal(0)}[fn]
    yield Outcome("return", path, IntV(t, 32, False))


def h_datelike(ex, name, args, path, depth, caller):
    raise Unsupported("Datelike accessor %s (needs civil-from-days)" % name)


def hms_checked(ex, path, h, m, s, caller, what, build):
    ok = z3.And(h.t < 24, m.t < 60, s.t < 60)
    bad = path.add(z3.Not(ok))
    if ex.feasible(bad):
        yield panic(bad, what + ": invalid time", caller.name)
    okp = path.add(ok)
    if ex.feasible(okp):
        yield Outcome("return", okp, build(h.t * 3600 + m.t * 60 + s.t))


def h_and_hms(ex, name, args, path, depth, caller):
    d = deref(args[0])
    yield from hms_checked(ex, path, args[1], args[2], args[3], caller, "NaiveDate::and_hms", lambda sod: DateTimeV(d.days, sod))


def h_time_from_hms(ex, name, args, path, depth, caller):
    yield from hms_checked(ex, path, args[0], args[1], args[2], caller, "NaiveTime::from_hms", lambda sod: TimeV(sod))


def h_time_from_hms_opt(ex, name, args, path, depth, caller):
    h, m, s_ = deref(args[0]), deref(args[1]), deref(args[2])
    ok = z3.And(h.t < 24, m.t < 60, s_.t < 60)
    yield from fork(ex, path, ok, lambda: some(TimeV(h.t * 3600 + m.t * 60 + s_.t)), NONE)


def h_ndt_new(ex, name, args, path, depth, caller):
    yield Outcome("return", path, DateTimeV(deref(args[0]).days, deref(args[1]).secs))


def h_ndt_date(ex, name, args, path, depth, caller):
    yield Outcome("return", path, DateV(deref(args[0]).days))


def h_ndt_timestamp(ex, name, args, path, depth, caller):
    a = deref(args[0])
    yield Outcome("return", path, IntV(a.total() - EPOCH_DAYS * 86400, 64, True))


def h_ndt_from_timestamp(ex, name, args, path, depth, caller):
    secs = deref(args[0])
    total = secs.t + EPOCH_DAYS * 86400
    yield from dt_checked(ex, path, total, caller, "NaiveDateTime::from_timestamp")


def h_utc_now(ex, name, args, path, depth, caller):
    if not hasattr(ex, "_now"):
        ex._now = ex.make_sym("now", "chrono::NaiveDateTime")
    yield Outcome("return", path, ZonedV(ex._now, z3.IntVal(0)))


def h_zoned_date(ex, name, args, path, depth, caller):
    yield Outcome("return", path, deref(args[0]))


def h_now_year(ex, name, args, path, depth, caller):
    """Datelike::year of 'now': a symbolic year 1..9999 (over-approximation: not tied to the day number)"""
    z = deref(args[0])
    if not isinstance(z, ZonedV):
        raise Unsupported("Datelike::year of %r" % (z,))
    if not hasattr(ex, "_now_year"):
        ex._now_year = z3.Int("now.year")
        ex.inputs["now.year"] = ex._now_year
        ex.domain.append(z3.And(ex._now_year >= 1, ex._now_year <= 9999))
    yield Outcome("return", path, IntV(ex._now_year, 32, True))


def h_from_ymd_opt(ex, name, args, path, depth, caller):
    y, m, d = deref(args[0]).t, deref(args[1]).t, deref(args[2]).t
    ok = valid_ymd(y, m, d)
    yield from fork(ex, path, ok, lambda: some(DateV(days_from_civil(y, m, d))), NONE)


def h_zoned_naive(ex, name, args, path, depth, caller):
    z = deref(args[0])
    if name.endswith("naive_utc"):
        yield Outcome("return", path, z.utc)
    else:
        yield Outcome("return", path, dt_from_total(z.utc.total() + z.off))


def h_fixed_east(ex, name, args, path, depth, caller):
    s = deref(args[0])
    ok = z3.And(s.t > -86400, s.t < 86400)
    bad = path.add(z3.Not(ok))
    if ex.feasible(bad):
        yield panic(bad, "FixedOffset::east out of bounds", caller.name)
    okp = path.add(ok)
    if ex.feasible(okp):
        yield Outcome("return", okp, OffsetV(s.t))


def h_from_utc_datetime(ex, name, args, path, depth, caller):
    tz, dt = deref(args[0]), deref(args[1])
    off = tz.secs if isinstance(tz, OffsetV) else z3.IntVal(0)
    yield Outcome("return", path, ZonedV(dt, off))


def h_from_local_datetime(ex, name, args, path, depth, caller):
    tz, dt = deref(args[0]), deref(args[1])
    if isinstance(tz, OffsetV):
        off = tz.secs
    else:
        # chrono::Local: the host's zone. Contract stub (DESIGN 2.3): a single offset within +-14 h;
        # the ambiguous / nonexistent local time outcome is environment dependent and reported separately
        if not hasattr(ex, "_host_off"):
            ex._host_off = z3.Int("host_offset")
            ex.inputs["host_offset"] = ex._host_off
            ex.domain.append(z3.And(ex._host_off >= -14 * 3600, ex._host_off <= 14 * 3600))
            ex.notes_env = "chrono::Local modelled as one arbitrary fixed offset"
        off = ex._host_off
    yield Outcome("return", path, EnumV("LocalResult", "Single", [ZonedV(dt_from_total(dt.total() - off), off)]))


def h_localresult_unwrap(ex, name, args, path, depth, caller):
    v = deref(args[0])
    if isinstance(v, EnumV) and v.variant == "Single":
        yield Outcome("return", path, v.f[0])
    else:
        yield panic(path, "No such local time", caller.name)


class KeysIterV:
    def __init__(self, fields, keys, idx=0):
        self.fields, self.keys, self.idx = fields, keys, idx


def h_fields_keys(ex, name, args, path, depth, caller):
    m = get_map(ex, args[0])
    if not isinstance(m, FieldsV):
        raise Unsupported("keys() of a configuration map")
    if m.keys_order is None:
        raise Unsupported("fields.keys(): candidate key list not declared by the spec")
    yield Outcome("return", path, KeysIterV(m, sorted(m.keys_order)))


def h_keys_next(ex, name, args, path, depth, caller):
    """Iterator::next(&mut keys): absent keys are skipped by forking on their presence flag; the advanced
    iterator is written back to the caller's local"""
    it = deref(args[0])

    def go(p, i):
        if i >= len(it.keys):
            yield Outcome("return", p, NONE, writes={0: KeysIterV(it.fields, it.keys, i)})
            return
        k = it.keys[i]
        has = it.fields.has_key(k)
        p1 = p.add(has)
        if ex.feasible(p1):
            yield Outcome("return", p1, some(RefV(StrV(k))), writes={0: KeysIterV(it.fields, it.keys, i + 1)})
        p0 = p.add(z3.Not(has))
        if ex.feasible(p0):
            yield from go(p0, i + 1)
    yield from go(path, it.idx)


def h_cell_set(ex, name, args, path, depth, caller):
    cell = deref(args[0])
    who = str(cell.t) if isinstance(cell, IntV) else repr(cell)
    yield Outcome("return", path.event(("cell_set", who, deref(args[1]))), UNIT)


def h_cell_get(ex, name, args, path, depth, caller):
    yield Outcome("return", path, deref(args[0]))


def h_regex_new(ex, name, args, path, depth, caller):
    yield Outcome("return", path, EnumV("Result", "Ok", [OpaqueV("Regex")]))
    yield Outcome("return", path, EnumV("Result", "Err", [OpaqueV("regex::Error")]))


class CapturesV:
    """regex::Captures as an input: for each group name a presence flag and the matched text"""

    def __init__(self, ex, name="cap"):
        self.ex, self.name, self.has, self.text = ex, name, {}, {}

    def group(self, g):
        if g not in self.has:
            self.has[g] = z3.Bool("%s.has[%s]" % (self.name, g))
            self.text[g] = z3.String("%s.text[%s]" % (self.name, g))
            self.ex.inputs["%s.has[%s]" % (self.name, g)] = self.has[g]
            self.ex.inputs["%s.text[%s]" % (self.name, g)] = self.text[g]
        return self.has[g], self.text[g]


def h_captures_name(ex, name, args, path, depth, caller):
    cap, g = deref(args[0]), deref(args[1])
    if not isinstance(cap, CapturesV) or not (isinstance(g, StrV) and g.is_concrete()):
        raise Unsupported("Captures::name on %r" % (cap,))
    has, text = cap.group(g.t)
    preset = getattr(cap, "preset", {}).get(g.t)
    yield from fork(ex, path, has, lambda: some(preset if preset is not None else StrV(text)), NONE)


def h_match_as_str(ex, name, args, path, depth, caller):
    yield Outcome("return", path, deref(args[0]))


def h_str_parse_int(ex, name, args, path, depth, caller):
    """str::parse::<iN>: Ok(n) for a string that is a decimal numeral of n (modelled with an uninterpreted
    numeral function), Err otherwise"""
    s_ = deref(args[0])
    m = re.search(r"parse::<(\w+)>$", name)
    bits, signed = INT_TYPES[m.group(1)]
    ok = z3.Function("str.is_numeral", z3.StringSort(), z3.BoolSort())(s_.term())
    n = z3.Function("str.numeral", z3.StringSort(), z3.IntSort())(s_.term())
    v = IntV(n, bits, signed)
    ex.domain.append(z3.And(n >= v.lo(), n <= v.hi()))
    yield from fork(ex, path, ok, lambda: EnumV("Result", "Ok", [v]), lambda: EnumV("Result", "Err", [OpaqueV("ParseIntError")]))


def h_event_call(ex, name, args, path, depth, caller):
    """a call recorded as an output event instead of being executed"""
    short = strip_generics(name).split("::")[-1]
    yield Outcome("return", path.event((short, [deref(a) for a in args])), UNIT)


def install_chrono(ex):
    def add(rx, fn):
        ex.handlers.insert(0, (re.compile(rx), fn))

    add(r"^<(chrono::)?(NaiveDateTime|NaiveDate) as (Add|Sub)<(chrono::)?(TimeDelta|Duration)>>::(add|sub)$", h_ndt_addsub_td)
    add(r"^<(chrono::)?(NaiveDateTime|NaiveDate) as Sub>::sub$", h_ndt_sub_ndt)
    add(r"^<(chrono::)?(NaiveDateTime|NaiveTime) as Timelike>::(num_seconds_from_midnight|hour|minute|second|nanosecond)$", h_timelike)
    add(r"^(chrono::)?NaiveDate::and_hms$", h_and_hms)
    add(r"^(chrono::)?NaiveTime::from_hms$", h_time_from_hms)
    add(r"^(chrono::)?NaiveTime::from_hms_opt$", h_time_from_hms_opt)
    add(r"^(chrono::)?NaiveDateTime::new$", h_ndt_new)
    add(r"^(chrono::)?NaiveDateTime::date$", h_ndt_date)
    add(r"^(chrono::)?NaiveDateTime::timestamp$", h_ndt_timestamp)
    add(r"^(chrono::)?NaiveDateTime::from_timestamp$", h_ndt_from_timestamp)
    add(r"^(chrono::)?Utc::now$", h_utc_now)
    add(r"^DateTime::<.*>::(naive_local|naive_utc)$", h_zoned_naive)
    add(r"^DateTime::<.*>::date$", h_zoned_date)
    add(r"^<(Date|DateTime)<.*> as Datelike>::year$", h_now_year)
    add(r"^(chrono::)?NaiveDate::from_ymd_opt$", h_from_ymd_opt)
    add(r"^(chrono::)?FixedOffset::east$", h_fixed_east)
    add(r"^<(FixedOffset|Utc) as TimeZone>::from_utc_datetime$", h_from_utc_datetime)
    add(r"^<(FixedOffset|Local) as TimeZone>::from_local_datetime$", h_from_local_datetime)
    add(r"^LocalResult::<.*>::unwrap$", h_localresult_unwrap)
    add(r"^Cell::<.*>::set$", h_cell_set)
    add(r"^Cell::<.*>::(get|new)$", h_cell_get)
    add(r"^regex::Regex::new$", h_regex_new)
    add(r"^regex::Regex::split$|^core::str::<impl str>::lines$|^<.* as Iterator>::(map|collect)::<.*>$", h_opaque)
    add(r"^regex::Captures::<'_>::name$", h_captures_name)
    add(r"^regex::Match::<'_>::as_str$", h_match_as_str)
    add(r"^core::str::<impl str>::parse::<(i32|i64|u32|u64|usize|u8)>$", h_str_parse_int)
    add(r"^BTreeMap::<alloc::string::String, Rc<TokenInfo>>::keys$", h_fields_keys)
    add(r"^<alloc::collections::btree_map::Keys<.*> as IntoIterator>::into_iter$", h_identity_keep)
    add(r"^<alloc::collections::btree_map::Keys<.*> as Iterator>::next$", h_keys_next)


# ------------------------------------------------------------------ heap cells, vectors, slices, iterators
def cur(path, ref):
    """current value behind a reference (consults stores made on this path)"""
    if isinstance(ref, RefV) and ref.entry is not None:
        m = cur(path, ref.entry[0])
        if isinstance(m, MapC) and ref.entry[1] in m.d:
            return m.d[ref.entry[1]]
        return ref.v
    if isinstance(ref, RefV):
        if ref.loc is not None and ref.loc in path.stores:
            return path.stores[ref.loc]
        if ref.frame is not None and ref.slot and ("~frame%d" % ref.frame, ref.slot) in path.stores:
            return path.stores[("~frame%d" % ref.frame, ref.slot)]     # a local of a frame further up, written on this path
        return cur(path, ref.v) if isinstance(ref.v, RefV) else ref.v
    return ref


def conc_int(v):
    t = z3.simplify(v.t) if isinstance(v, IntV) else v
    if z3.is_int_value(t):
        return t.as_long()
    raise Unsupported("symbolic index / length")


def h_cell_set2(ex, name, args, path, depth, caller):
    ref = args[0]
    val = deref(args[1])
    if isinstance(ref, RefV) and ref.loc is not None:
        who = str(ref.v.t) if isinstance(ref.v, IntV) else ""
        p2 = path.store(ref.loc[0], ref.loc[1], "Cell", val).event(("cell_set", who, val))
        yield Outcome("return", p2, UNIT)
        return
    cell = deref(ref)
    who = str(cell.t) if isinstance(cell, IntV) else repr(cell)
    yield Outcome("return", path.event(("cell_set", who, val)), UNIT)


def h_cell_get2(ex, name, args, path, depth, caller):
    yield Outcome("return", path, cur(path, args[0]))


def vec_of(path, ref):
    v = cur(path, ref)
    if isinstance(v, VecV):
        return v
    raise Unsupported("vector value %r" % (v,))


def h_vec_len(ex, name, args, path, depth, caller):
    v0 = cur(path, args[0])
    if isinstance(v0, SymV):
        # a vector nobody has written yet (a field of a symbolic object): its length is an unknown non-negative integer
        key = "len(%s)" % v0.path
        n = z3.Int(key)
        if key not in ex.inputs:
            ex.inputs[key] = n
            ex.domain.append(n >= 0)
        yield Outcome("return", path, (n == 0) if name.endswith("is_empty") else IntV(n, 64, False))
        return
    v = vec_of(path, args[0])
    if name.endswith("is_empty"):
        yield Outcome("return", path, z3.BoolVal(len(v.items) == 0))
    else:
        yield Outcome("return", path, IntV(len(v.items), 64, False))


def h_vec_deref(ex, name, args, path, depth, caller):
    yield Outcome("return", path, vec_of(path, args[0]))


def h_vec_index(ex, name, args, path, depth, caller):
    v = vec_of(path, args[0])
    i = conc_int(deref(args[1]))
    if i >= len(v.items):
        yield panic(path, "index out of bounds: the len is %d but the index is %d" % (len(v.items), i), caller.name)
    else:
        yield Outcome("return", path, RefV(v.items[i]))


def h_slice_get(ex, name, args, path, depth, caller):
    v = vec_of(path, args[0])
    i = conc_int(deref(args[1]))
    yield Outcome("return", path, some(RefV(v.items[i])) if 0 <= i < len(v.items) else NONE)


def h_vec_mut(ex, name, args, path, depth, caller):
    ref = args[0]
    if not (isinstance(ref, RefV) and ref.loc is not None):
        raise Unsupported("%s on a vector that is not an object field" % name)
    v = vec_of(path, ref)
    op = strip_generics(name).split("::")[-1]
    items = list(v.items)
    ret = UNIT
    if op == "push":
        items.append(args[1])
    elif op == "insert":
        i = conc_int(deref(args[1]))
        if i > len(items):
            yield panic(path, "insertion index (is %d) should be <= len (is %d)" % (i, len(items)), caller.name)
            return
        items.insert(i, args[2])
    elif op == "remove":
        i = conc_int(deref(args[1]))
        if i >= len(items):
            yield panic(path, "removal index (is %d) should be < len (is %d)" % (i, len(items)), caller.name)
            return
        ret = items.pop(i)
    else:
        raise Unsupported("Vec::" + op)
    yield Outcome("return", path.store(ref.loc[0], ref.loc[1], "Vec", VecV(items)), ret)


def h_slice_iter(ex, name, args, path, depth, caller):
    v = cur(path, args[0])
    if isinstance(v, TupleV):
        v = VecV(v.f)
    if not isinstance(v, VecV):
        raise Unsupported("iteration over %r" % (v,))
    yield Outcome("return", path, IterV(list(v.items), 0, False))


def h_iter_enumerate(ex, name, args, path, depth, caller):
    it = deref(args[0])
    yield Outcome("return", path, IterV(it.items, it.idx, True, it.owned, it.idx))


def h_iter_next(ex, name, args, path, depth, caller):
    it = deref(args[0])
    if not isinstance(it, IterV):
        return NotImplemented
    if it.idx >= len(it.items):
        return ex.ret_w(path, NONE, {0: IterV(it.items, it.idx, it.enum, it.owned, it.base)})
    el = it.items[it.idx] if it.owned else RefV(it.items[it.idx])
    val = TupleV([IntV(it.idx - it.base, 64, False), el]) if it.enum else el
    return ex.ret_w(path, some(val), {0: IterV(it.items, it.idx + 1, it.enum, it.owned, it.base)})


def h_iter_skip(ex, name, args, path, depth, caller):
    it = deref(args[0])
    n = conc_int(deref(args[1]))
    yield Outcome("return", path, IterV(it.items, it.idx + n, it.enum, it.owned, it.base))


def h_result_is(ex, name, args, path, depth, caller):
    v = deref(args[0])
    if isinstance(v, EnumV) and v.enum == "Result":
        want = "Err" if name.endswith("is_err") else "Ok"
        yield Outcome("return", path, z3.BoolVal(v.variant == want))
        return
    raise Unsupported("Result::is_* of %r" % (v,))


def h_result_branch(ex, name, args, path, depth, caller):
    v = deref(args[0])
    if isinstance(v, EnumV) and v.enum == "Result":
        if v.variant == "Ok":
            yield Outcome("return", path, EnumV("ControlFlow", "Continue", [v.f[0]]))
        else:
            yield Outcome("return", path, EnumV("ControlFlow", "Break", [EnumV("Result", "Err", [v.f[0]])]))
        return
    raise Unsupported("Result::branch of %r" % (v,))


def h_result_ok(ex, name, args, path, depth, caller):
    v = deref(args[0])
    if isinstance(v, EnumV) and v.enum == "Result":
        want = "Ok" if name.endswith("::ok") else "Err"
        yield Outcome("return", path, some(v.f[0]) if v.variant == want else NONE)
        return
    raise Unsupported("Result::ok of %r" % (v,))


def h_result_from_residual(ex, name, args, path, depth, caller):
    v = deref(args[0])
    yield Outcome("return", path, EnumV("Result", "Err", [v.f[0]]))


def h_log_max_level(ex, name, args, path, depth, caller):
    yield Outcome("return", path, OpaqueV("LevelFilter::Off"))


def h_log_le(ex, name, args, path, depth, caller):
    yield Outcome("return", path, z3.BoolVal(False))   # no logger installed: max_level() is Off


def h_char_eq(ex, name, args, path, depth, caller):
    a, b = deref(args[0]), deref(args[1])
    r = a.t == b.t
    yield Outcome("return", path, z3.Not(r) if name.endswith("::ne") else r)


def h_slice_contains(ex, name, args, path, depth, caller):
    v = cur(path, args[0])
    x = deref(args[1])
    items = v.items if isinstance(v, VecV) else v.f
    yield Outcome("return", path, z3.Or([deref(i).t == x.t for i in items]) if items else z3.BoolVal(False))


def install_heap(ex):
    def add(rx, fn):
        ex.handlers.insert(0, (re.compile(rx), fn))

    add(r"^Cell::<.*>::set$", h_cell_set2)
    add(r"^Cell::<.*>::get$", h_cell_get2)
    add(r"^Vec::<.*>::(len|is_empty)$|^core::slice::<impl \[.*\]>::(len|is_empty)$", h_vec_len)
    add(r"^core::option::Option::<.*>::or_else::<.*>$", lambda *a: h_option_or_else(*a))
    add(r"^(core::ops::)?RangeInclusive::<.*>::new$", lambda *a: h_range_inclusive_new(*a))
    add(r"^BTreeMap::<usize, .*>::range::<.*>$", lambda *a: h_mapc_range(*a))
    add(r"^core::slice::<impl \[(usize|u8|u16|u32|u64|i32|i64|isize)\]>::contains$", lambda *a: h_slice_contains_int(*a))
    add(r"^<Vec<.*> as Deref(Mut)?>::deref(_mut)?$", h_vec_deref)
    add(r"^<Vec<.*> as (core::ops::)?Index<usize>>::index$", h_vec_index)
    add(r"^core::slice::<impl \[.*\]>::get::<usize>$|^Vec::<.*>::get::<usize>$", h_slice_get)
    add(r"^Vec::<.*>::(push|insert|remove)$", h_vec_mut)
    add(r"^core::slice::<impl \[.*\]>::iter$|^<&\[.*\] as IntoIterator>::into_iter$|^<&Vec<.*> as IntoIterator>::into_iter$", h_slice_iter)
    add(r"^<core::slice::Iter<.*> as Iterator>::enumerate$", h_iter_enumerate)
    add(r"^<core::slice::Iter<.*> as Iterator>::skip$|^<Enumerate<.*> as Iterator>::skip$", h_iter_skip)
    add(r"^<(Enumerate<)?core::slice::Iter<.*>>? as IntoIterator>::into_iter$|^<Skip<.*> as IntoIterator>::into_iter$", h_identity_keep)
    add(r"^<(Enumerate<|Skip<Enumerate<|Skip<)?core::slice::Iter<.*>>?>? as Iterator>::next$", h_iter_next)
    add(r"^(core::result::)?Result::<.*>::(is_err|is_ok)$", h_result_is)
    add(r"^<(core::result::)?Result<.*> as Try>::branch$", h_result_branch)
    add(r"^(core::result::)?Result::<.*>::(ok|err)$", h_result_ok)
    add(r"^<(core::result::)?Result<.*> as FromResidual<.*>>::from_residual$", h_result_from_residual)
    add(r"^(log::)?max_level$", h_log_max_level)
    add(r"^<log::Level as PartialOrd<LevelFilter>>::le$", h_log_le)
    add(r"^<(&)?char as PartialEq(<(&)?char>)?>::(eq|ne)$", h_char_eq)
    add(r"^core::slice::<impl \[char\]>::contains$", h_slice_contains)
    add(r"^Arguments::<'_>::(from_str|new|new_const)(::<.*>)?$|^log::__private_api::\w+(::<.*>)?$", h_opaque)


# ------------------------------------------------------------------ strings, owned vectors, concrete maps (C03)
def find_loc(ref):
    while isinstance(ref, RefV):
        if ref.loc is not None:
            return ref.loc
        ref = ref.v
    return None


def writeback(path, ref, newval, what):
    """store `newval` behind `ref`: into an object field (heap store) or into the caller's local (write-back)"""
    r = ref
    while isinstance(r, RefV):
        if r.entry is not None:
            owner, key = r.entry
            m = cur(path, owner)
            d = dict(m.d)
            d[key] = newval
            return writeback(path, owner, MapC(d), "BTreeMap")
        if r.loc is not None:
            break
        r = r.v
    loc = find_loc(ref)
    if loc is not None:
        return path.store(loc[0], loc[1], what, newval), None
    if isinstance(ref, RefV) and ref.slot:
        return path, {0: newval}
    raise Unsupported("mutation of %s through a reference that is neither a field nor a caller local" % what)


def h_new_empty(ex, name, args, path, depth, caller):
    if name.startswith("BTreeMap"):
        yield Outcome("return", path, MapC())
    elif name.startswith("Vec"):
        yield Outcome("return", path, VecV([]))
    else:
        yield Outcome("return", path, StrV(""))


def str_concat(a, b):
    if a.is_concrete() and b.is_concrete():
        return StrV(a.t + b.t)
    return StrV(z3.Concat(a.term(), b.term()))


def h_push_str(ex, name, args, path, depth, caller):
    cur_s = cur(path, args[0])
    add = deref(args[1])
    if not (isinstance(cur_s, StrV) and isinstance(add, StrV)):
        raise Unsupported("push_str on %r" % (cur_s,))
    p2, wr = writeback(path, args[0], str_concat(cur_s, add), "String")
    yield Outcome("return", p2, UNIT, writes=wr)


def h_vec_mut_any(ex, name, args, path, depth, caller):
    """Vec::{push,insert,remove,drain} on a field or on a caller local"""
    v = vec_of(path, args[0])
    op = strip_generics(name).split("::")[-1]
    items = list(v.items)
    ret = UNIT
    if op == "push":
        items.append(args[1])
    elif op == "insert":
        i = conc_int(deref(args[1]))
        if i > len(items):
            yield panic(path, "insertion index (is %d) should be <= len (is %d)" % (i, len(items)), caller.name)
            return
        items.insert(i, args[2])
    elif op == "remove":
        i = conc_int(deref(args[1]))
        if i >= len(items):
            yield panic(path, "removal index (is %d) should be < len (is %d)" % (i, len(items)), caller.name)
            return
        ret = items.pop(i)
    elif op == "drain":
        a, b = range_bounds(deref(args[1]), len(items))
        if a > b or b > len(items):
            yield panic(path, "drain range %d..%d out of bounds (len %d)" % (a, b, len(items)), caller.name)
            return
        ret = IterV(items[a:b], 0, False, True)
        del items[a:b]
    elif op == "extend_from_slice":
        src = cur(path, args[1])
        if isinstance(src, TupleV):
            src = VecV(src.f)
        if not isinstance(src, VecV):
            raise Unsupported("extend_from_slice of %r" % (src,))
        items += list(src.items)
    elif op == "clear":
        items = []
    else:
        raise Unsupported("Vec::" + op)
    p2, wr = writeback(path, args[0], VecV(items), "Vec")
    yield Outcome("return", p2, ret, writes=wr)


def range_bounds(r, n):
    if isinstance(r, StructV) and r.name in ("Range", "RangeFrom", "RangeTo", "RangeFull"):
        if r.name == "Range":
            return conc_int(r.f[0]), conc_int(r.f[1])
        if r.name == "RangeFrom":
            return conc_int(r.f[0]), n
        if r.name == "RangeTo":
            return 0, conc_int(r.f[0])
        return 0, n
    raise Unsupported("range %r" % (r,))


def h_vec_range_index(ex, name, args, path, depth, caller):
    v = vec_of(path, args[0])
    a, b = range_bounds(deref(args[1]), len(v.items))
    if a > b or b > len(v.items):
        yield panic(path, "range %d..%d out of bounds for a slice of length %d" % (a, b, len(v.items)), caller.name)
        return
    yield Outcome("return", path, VecV(v.items[a:b]))


def h_to_vec(ex, name, args, path, depth, caller):
    yield Outcome("return", path, VecV(vec_of(path, args[0]).items))


def h_vec_into_iter(ex, name, args, path, depth, caller):
    v = cur(path, args[0])
    if isinstance(v, VecV):
        yield Outcome("return", path, IterV(list(v.items), 0, False, True))
    else:
        raise Unsupported("into_iter of %r" % (v,))


def run_closure_each(ex, f, clos, items, path, depth, acc=()):
    """apply closure f to every item in order; yields (path, [results]) over all outcome combinations"""
    if not items:
        yield path, list(acc)
        return
    for o in ex.run(f, [clos, items[0]], path, depth + 1):
        if o.kind == "panic":
            yield o, None
            continue
        yield from run_closure_each(ex, f, clos, items[1:], o.path, depth, acc + (o.value,))


def h_iter_map(ex, name, args, path, depth, caller):
    it = deref(args[0])
    if not isinstance(it, IterV):
        return NotImplemented
    f = closure_fn(ex, name)
    rest = [(x if it.owned else RefV(x)) for x in it.items[it.idx:]]

    def gen():
        for p, res in run_closure_each(ex, f, RefV(args[1]), rest, path, depth):
            if res is None:
                yield p            # a panic outcome
            else:
                yield Outcome("return", p, IterV(res, 0, False, True))
    return gen()


def h_iter_collect(ex, name, args, path, depth, caller):
    it = deref(args[0])
    if not isinstance(it, IterV):
        return NotImplemented
    items = it.items[it.idx:]
    if name.endswith("collect::<alloc::string::String>") or name.endswith("collect::<String>"):
        out = StrV("")
        for x in items:
            out = str_concat(out, deref(x))
        return ex.ret(path, out)
    if "collect::<Vec<" in name or "collect::<alloc::vec::Vec<" in name:
        return ex.ret(path, VecV(items))
    return NotImplemented


def h_iter_sum(ex, name, args, path, depth, caller):
    it = deref(args[0])
    if not isinstance(it, IterV):
        return NotImplemented
    tot = z3.IntVal(0)
    for x in it.items[it.idx:]:
        tot = tot + deref(x).t
    return ex.ret(path, IntV(z3.simplify(tot), 64, False))


def mapc_of(path, ref):
    v = cur(path, ref)
    return v if isinstance(v, MapC) else None


def conc_key(k):
    k = deref(k)
    if isinstance(k, StrV) and k.is_concrete():
        return k.t
    if isinstance(k, IntV):
        return conc_int(k)
    raise Unsupported("map key must be a concrete string / integer, got %r" % (k,))


def h_mapc_contains(ex, name, args, path, depth, caller):
    m = mapc_of(path, args[0])
    if m is None:
        return NotImplemented
    return ex.ret(path, z3.BoolVal(conc_key(args[1]) in m.d))


def h_mapc_get(ex, name, args, path, depth, caller):
    m = mapc_of(path, args[0])
    if m is None:
        return NotImplemented
    k = conc_key(args[1])
    return ex.ret(path, some(RefV(m.d[k])) if k in m.d else NONE)


def h_mapc_index(ex, name, args, path, depth, caller):
    m = mapc_of(path, args[0])
    if m is None:
        return NotImplemented
    k = conc_key(args[1])
    if k not in m.d:
        return ex.ret_panic(path, "no entry found for key", caller.name)
    return ex.ret(path, RefV(m.d[k]))


def h_mapc_insert(ex, name, args, path, depth, caller):
    m = mapc_of(path, args[0])
    if m is None:
        return NotImplemented
    k = conc_key(args[1])
    d = dict(m.d)
    old = d.get(k)
    d[k] = args[2]
    p2, wr = writeback(path, args[0], MapC(d), "BTreeMap")
    return ex.ret_w(p2, some(old) if old is not None else NONE, wr)


class EntryV:
    """BTreeMap::entry(key) on a concrete-key map: the owning map reference and the key"""
    def __init__(self, owner, key):
        self.owner, self.key = owner, key


def h_mapc_entry(ex, name, args, path, depth, caller):
    m = mapc_of(path, args[0])
    if m is None:
        return NotImplemented
    return ex.ret(path, EntryV(args[0], conc_key(args[1])))


def h_entry_or_insert(ex, name, args, path, depth, caller):
    e = deref(args[0])
    if not isinstance(e, EntryV):
        raise Unsupported("Entry::or_insert on %r" % (e,))
    m = mapc_of(path, e.owner)
    if e.key in m.d:
        return ex.ret(path, RefV(m.d[e.key], entry=(e.owner, e.key)))
    d = dict(m.d)
    d[e.key] = args[1]
    p2, wr = writeback(path, e.owner, MapC(d), "BTreeMap")
    return ex.ret_w(p2, RefV(args[1], entry=(e.owner, e.key)), wr)


def h_mapc_get_mut(ex, name, args, path, depth, caller):
    m = mapc_of(path, args[0])
    if m is None:
        return NotImplemented
    k = conc_key(args[1])
    if k not in m.d:
        return ex.ret(path, NONE)
    return ex.ret(path, some(RefV(m.d[k], entry=(args[0], k))))


def h_iter_position(ex, name, args, path, depth, caller):
    it = deref(args[0])
    if not isinstance(it, IterV):
        return NotImplemented
    f = closure_fn(ex, name)
    items = it.items[it.idx:]

    def go(p, i):
        if i >= len(items):
            yield Outcome("return", p, NONE, writes={0: IterV(it.items, len(it.items), it.enum, it.owned, it.base)})
            return
        el = items[i] if it.owned else RefV(items[i])
        for o in ex.run(f, [RefV(args[1]), el], p, depth + 1):
            if o.kind == "panic":
                yield o
                continue
            c = z3.simplify(o.value) if z3.is_expr(o.value) else o.value
            pt = o.path.add(c)
            if ex.feasible(pt):
                yield Outcome("return", pt, some(IntV(i, 64, False)), writes={0: IterV(it.items, it.idx + i + 1, it.enum, it.owned, it.base)})
            pf = o.path.add(z3.Not(c))
            if ex.feasible(pf):
                yield from go(pf, i + 1)
    return go(path, 0)


def h_vec_swap_remove(ex, name, args, path, depth, caller):
    v = vec_of(path, args[0])
    i = conc_int(deref(args[1]))
    items = list(v.items)
    if i >= len(items):
        return ex.ret_panic(path, "swap_remove index (is %d) should be < len (is %d)" % (i, len(items)), caller.name)
    ret = items[i]
    items[i] = items[-1]
    items.pop()
    p2, wr = writeback(path, args[0], VecV(items), "Vec")
    return ex.ret_w(p2, ret, wr)


def h_mapc_remove(ex, name, args, path, depth, caller):
    m = mapc_of(path, args[0])
    if m is None:
        return NotImplemented
    k = conc_key(args[1])
    d = dict(m.d)
    old = d.pop(k, None)
    p2, wr = writeback(path, args[0], MapC(d), "BTreeMap")
    return ex.ret_w(p2, some(old) if old is not None else NONE, wr)


def h_mapc_iter(ex, name, args, path, depth, caller):
    m = mapc_of(path, args[0])
    if m is None:
        return NotImplemented
    keyv = lambda k: StrV(k) if isinstance(k, str) else IntV(k, 64, False)
    return ex.ret(path, IterV([TupleV([RefV(keyv(k)), RefV(m.d[k])]) for k in sorted(m.d)], 0, False, True))


def h_borrow_mut_tracked(ex, name, args, path, depth, caller):
    """RefCell::borrow_mut on a cell that is an object's field: the exclusive borrow is recorded in the path until the
    RefMut is dropped (MIR has the drop explicitly), so a borrow() in between panics as it does natively"""
    loc = find_loc(args[0])
    if loc is not None:
        if path.stores.get(("~borrow", loc)) == "mut":
            yield panic(path, "RefCell already mutably borrowed", caller.name)
            return
        path = path.store("~borrow", loc, "borrow", "mut")
    yield Outcome("return", path, args[0])


def h_borrow_tracked(ex, name, args, path, depth, caller):
    loc = find_loc(args[0])
    if loc is not None and path.stores.get(("~borrow", loc)) == "mut":
        yield panic(path, "RefCell already mutably borrowed", caller.name)
        return
    yield Outcome("return", path, args[0])


def install_borrow_tracking(ex):
    ex.handlers.insert(0, (re.compile(r"^RefCell::<.*>::borrow_mut$"), h_borrow_mut_tracked))
    ex.handlers.insert(0, (re.compile(r"^RefCell::<.*>::borrow$"), h_borrow_tracked))


def h_refmut_deref(ex, name, args, path, depth, caller):
    """<RefMut<T> as Deref>::deref: the cell's CURRENT content (stores made through the same RefMut included)"""
    loc = find_loc(args[0])
    yield Outcome("return", path, RefV(cur(path, args[0]), loc=loc))


def h_borrow_keep(ex, name, args, path, depth, caller):
    """RefCell::borrow_mut / DerefMut::deref_mut: keep the reference (it carries the location)"""
    yield Outcome("return", path, args[0])


def h_enum_eq(ex, name, args, path, depth, caller):
    a, b = deref(args[0]), deref(args[1])

    def tag(v):
        if isinstance(v, EnumV):
            return z3.IntVal(ex.discr(v.enum, v.variant))
        if isinstance(v, SymV):
            return v.tag()
        raise Unsupported("enum comparison on %r" % (v,))
    r = tag(a) == tag(b)
    yield Outcome("return", path, z3.Not(r) if name.endswith("::ne") else r)


def h_string_len(ex, name, args, path, depth, caller):
    v = cur(path, args[0])
    if isinstance(v, StrV) and v.is_concrete():
        yield Outcome("return", path, IntV(len(v.t.encode("utf-8")), 64, False))
    elif isinstance(v, StrV):
        yield Outcome("return", path, IntV(z3.Length(v.term()), 64, False))
    else:
        raise Unsupported("String::len of %r" % (v,))


def h_usize_max(ex, name, args, path, depth, caller):
    yield Outcome("return", path, IntV((1 << 64) - 1, 64, False))


def h_deref_assign(ex, name, args, path, depth, caller):
    raise Unsupported("deref assign")


def install_c03(ex):
    def add(rx, fn):
        ex.handlers.insert(0, (re.compile(rx), fn))

    add(r"^(alloc::string::)?String::(new|with_capacity)$|^Vec::<.*>::(new|with_capacity)$|^BTreeMap::<.*>::new$", h_new_empty)
    add(r"^(alloc::string::)?String::push_str$", h_push_str)
    add(r"^Vec::<.*>::(push|insert|remove|extend_from_slice|clear)$|^Vec::<.*>::drain::<.*>$", h_vec_mut_any)
    add(r"^<Vec<.*> as (core::ops::)?Index<(core::ops::)?Range(From|To|Full)?(<usize>)?>>::index$", h_vec_range_index)
    add(r"^alloc::slice::<impl \[.*\]>::to_vec$", h_to_vec)
    add(r"^<Vec<.*> as IntoIterator>::into_iter$", h_vec_into_iter)
    add(r"^<alloc::vec::IntoIter<.*> as Iterator>::next$|^<alloc::collections::btree_map::Iter<.*> as Iterator>::next$|^<alloc::vec::Drain<.*> as Iterator>::next$", h_iter_next)
    add(r"^<alloc::collections::btree_map::Iter<.*> as IntoIterator>::into_iter$|^<alloc::vec::IntoIter<.*> as IntoIterator>::into_iter$", h_identity_keep)
    add(r"^<core::slice::Iter<.*> as Iterator>::map::<.*>$|^<(alloc::collections::)?btree_map::(Range|Iter)<.*> as Iterator>::map::<.*>$", h_iter_map)
    add(r"^<core::iter::Map<.*> as Iterator>::collect::<.*>$", h_iter_collect)
    add(r"^<core::iter::Map<.*> as Iterator>::sum::<usize>$", h_iter_sum)
    add(r"^BTreeMap::<alloc::string::String, Rc<VariableInfo>>::contains_key::<.*>$", h_mapc_contains)
    add(r"^BTreeMap::<alloc::string::String, Rc<VariableInfo>>::get::<.*>$", h_mapc_get)
    add(r"^<BTreeMap<alloc::string::String, Rc<VariableInfo>> as (core::ops::)?Index<&(alloc::string::)?String>>::index$", h_mapc_index)
    add(r"^BTreeMap::<alloc::string::String, Rc<VariableInfo>>::insert$", h_mapc_insert)
    add(r"^BTreeMap::<alloc::string::String, Rc<VariableInfo>>::iter$", h_mapc_iter)
    add(r"^BTreeMap::<alloc::string::String, Rc<VariableInfo>>::remove::<.*>$", h_mapc_remove)
    add(r"^RefCell::<.*>::borrow_mut$|^<RefMut<.*> as DerefMut>::deref_mut$", h_borrow_keep)
    add(r"^RefCell::<.*>::new$|^Cell::<.*>::new$", h_rc_new)
    add(r"^<(TokenInfoStatus|tokinizer::TokenInfoStatus|NumberType|types::NumberType) as PartialEq>::(eq|ne)$", h_enum_eq)
    add(r"^core::num::<impl usize>::max_value$", h_usize_max)
    add(r"^(alloc::string::)?String::len$|^core::str::<impl str>::len$", h_string_len)


# ------------------------------------------------------------------ rule application (C04 / C18)
class RuleObjV:
    """a `dyn RuleTrait` object of the harness: a fixed name and a symbolic decision"""

    def __init__(self, name, accept, result):
        self.name, self.accept, self.result = name, accept, result
        self.calls = []


def h_rule_name(ex, name, args, path, depth, caller):
    r = deref(args[0])
    if not isinstance(r, RuleObjV):
        raise Unsupported("dyn RuleTrait receiver %r" % (r,))
    yield Outcome("return", path, StrV(getattr(r.name, "term_", r.name)))


def h_rule_call(ex, name, args, path, depth, caller):
    r = deref(args[0])
    if not isinstance(r, RuleObjV):
        raise Unsupported("dyn RuleTrait receiver %r" % (r,))
    fields = cur(path, args[2])
    p2 = path.event(("rule_call", r.name, fields))
    accept = r.accept(fields) if callable(r.accept) else r.accept
    yield from fork(ex, p2, accept, lambda: some(r.result(fields) if callable(r.result) else r.result), NONE)


def h_range_iter_next(ex, name, args, path, depth, caller):
    r = deref(args[0])
    if not (isinstance(r, StructV) and r.name == "Range"):
        return NotImplemented
    a = conc_int(r.f[0])
    bits, signed = (r.f[0].bits, r.f[0].signed) if isinstance(r.f[0], IntV) else (64, False)
    bt = z3.simplify(r.f[1].t) if isinstance(r.f[1], IntV) and z3.is_expr(r.f[1].t) else None
    if bt is not None and not z3.is_int_value(bt):
        # symbolic upper bound (for _ in 0..digits): both continuations, each only when satisfiable
        def gen():
            more = path.add(bt > a)
            if ex.feasible(more):
                yield from ex.ret_w(more, some(IntV(a, bits, signed)), {0: StructV("Range", [IntV(a + 1, bits, signed), r.f[1]], r.path)})
            done = path.add(bt <= a)
            if ex.feasible(done):
                yield from ex.ret_w(done, NONE, {0: r})
        return gen()
    b = conc_int(r.f[1])
    if a >= b:
        return ex.ret_w(path, NONE, {0: r})
    return ex.ret_w(path, some(IntV(a, bits, signed)), {0: StructV("Range", [IntV(a + 1, bits, signed), r.f[1]], r.path)})


def h_slice_first_last(ex, name, args, path, depth, caller):
    v = vec_of(path, args[0])
    if not v.items:
        yield Outcome("return", path, NONE)
    else:
        yield Outcome("return", path, some(RefV(v.items[0] if name.endswith("first") else v.items[-1])))


def h_option_as_ref(ex, name, args, path, depth, caller):
    for p, is_some, payload in option_cases(ex, path, cur(path, args[0])):
        yield Outcome("return", p, some(RefV(payload)) if is_some else NONE)


def h_mapiter_map(ex, name, args, path, depth, caller):
    return h_iter_map(ex, name, args, path, depth, caller)


def h_collect_map(ex, name, args, path, depth, caller):
    it = deref(args[0])
    if not isinstance(it, IterV):
        return NotImplemented
    d = {}
    for kv in it.items[it.idx:]:
        kv = deref(kv)
        d[conc_key(kv.f[0])] = kv.f[1]
    return ex.ret(path, MapC(d))


def install_rules(ex):
    def add(rx, fn):
        ex.handlers.insert(0, (re.compile(rx), fn))

    add(r"^<dyn RuleTrait as RuleTrait>::name$", h_rule_name)
    add(r"^<dyn RuleTrait as RuleTrait>::call$", h_rule_call)
    add(r"^<core::ops::Range<(usize|u8|u16|u32|u64|i32|i64)> as Iterator>::next$", h_range_iter_next)
    add(r"^<core::ops::Range<(u8|u16|u32|u64|i32|i64)> as IntoIterator>::into_iter$", h_identity_keep)
    add(r"^<core::slice::Iter<.*> as Iterator>::position::<.*>$", lambda *a: h_iter_position(*a))
    add(r"^<core::ops::Range(Inclusive)?<.*> as Iterator>::fold::<.*>$", lambda *a: h_range_fold(*a))
    add(r"^<core::ops::Range<usize> as IntoIterator>::into_iter$", h_identity_keep)
    add(r"^core::option::Option::<.*>::as_ref$", h_option_as_ref)
    add(r"^core::slice::<impl \[.*\]>::(first|last)$", h_slice_first_last)
    add(r"^<alloc::collections::btree_map::Iter<.*> as Iterator>::map::<.*>$", h_mapiter_map)
    add(r"^<core::iter::Map<alloc::collections::btree_map::Iter<.*>, .*> as Iterator>::collect::<BTreeMap<.*>>$", h_collect_map)
    add(r"^BTreeMap::<alloc::string::String, .*>::contains_key::<.*>$", h_mapc_contains)
    add(r"^BTreeMap::<alloc::string::String, .*>::get::<.*>$", h_mapc_get)
    add(r"^BTreeMap::<alloc::string::String, .*>::insert$", h_mapc_insert)
    add(r"^BTreeMap::<alloc::string::String, .*>::entry$", h_mapc_entry)
    add(r"^alloc::collections::btree_map::Entry::<.*>::or_insert$", h_entry_or_insert)
    add(r"^BTreeMap::<alloc::string::String, .*>::iter$|^BTreeMap::<usize, .*>::iter$", h_mapc_iter)
    add(r"^<core::slice::Iter<'_, .*> as Iterator>::any::<.*>$", h_iter_any)
    add(r"^BTreeMap::<.*>::get_mut::<.*>$", h_mapc_get_mut)
    add(r"^BTreeMap::<usize, .*>::(contains_key)::<.*>$", h_mapc_contains)
    add(r"^BTreeMap::<usize, .*>::get::<.*>$", h_mapc_get)
    add(r"^BTreeMap::<usize, .*>::insert$", h_mapc_insert)
    add(r"^<core::slice::Iter<.*> as Iterator>::position::<.*>$", h_iter_position)
    add(r"^Vec::<.*>::swap_remove$", h_vec_swap_remove)


# ------------------------------------------------------------------ checked arithmetic (Option-returning)
def as_option(gen):
    """turn the outcomes of a panicking model into Option outcomes: panic -> None"""
    for o in gen:
        if o.kind == "panic":
            yield Outcome("return", o.path, NONE)
        else:
            yield Outcome("return", o.path, some(o.value))


def h_td_try_ctor(ex, name, args, path, depth, caller):
    unit = name.split("::")[-1][4:]
    n = deref(args[0])
    yield from as_option(dur_new(ex, path, n.t * UNIT_SECS[unit], caller, "TimeDelta::try_" + unit))


def h_td_checked(ex, name, args, path, depth, caller):
    a, b = deref(args[0]), deref(args[1])
    sub = name.endswith("checked_sub")
    yield from as_option(dur_new(ex, path, a.secs - b.secs if sub else a.secs + b.secs, caller, "TimeDelta checked"))


def h_int_checked(ex, name, args, path, depth, caller):
    a, b = deref(args[0]), deref(args[1])
    op = name.split("::")[-1]
    r = {"checked_mul": a.t * b.t, "checked_add": a.t + b.t, "checked_sub": a.t - b.t}[op]
    ok = z3.And(r >= a.lo(), r <= a.hi())
    yield from fork(ex, path, ok, lambda: some(IntV(r, a.bits, a.signed)), NONE)


def h_option_and_then(ex, name, args, path, depth, caller):
    """Option::and_then(f): f is a closure or a function item"""
    f = None
    fname = None
    m = re.search(r"\{closure@([^}]*)\}", name)
    if m:
        f = closure_fn(ex, name)
    else:
        gm = re.search(r"and_then::<[^,]*, (.*)>$", name)
        if gm:
            fname = re.sub(r"^fn\([^)]*\) -> [^{]* \{(.*)\}$", r"\1", gm.group(1).strip())
    if f is None and len(args) > 1 and isinstance(deref(args[1]), FnPtrV):
        fname = deref(args[1]).name
    for p, is_some, payload in option_cases(ex, path, args[0]):
        if not is_some:
            yield Outcome("return", p, NONE)
            continue
        if f is not None:
            yield from ex.run(f, [args[1], payload], p, depth + 1)
        elif fname:
            yield from ex.call(fname, [payload], p, depth + 1, caller)
        else:
            raise Unsupported("and_then target in " + name)


def h_ndt_checked_signed(ex, name, args, path, depth, caller):
    a, d = deref(args[0]), deref(args[1])
    sub = "checked_sub_signed" in name
    if isinstance(a, DateTimeV):
        yield from as_option(dt_checked(ex, path, a.total() - d.secs if sub else a.total() + d.secs, caller, "checked"))
    else:
        raise Unsupported("checked_*_signed on %r" % (a,))


def h_ndt_from_timestamp_opt(ex, name, args, path, depth, caller):
    secs = deref(args[0])
    yield from as_option(dt_checked(ex, path, secs.t + EPOCH_DAYS * 86400, caller, "from_timestamp_opt"))


def install_checked(ex):
    def add(rx, fn):
        ex.handlers.insert(0, (re.compile(rx), fn))

    add(r"^(chrono::)?(TimeDelta|Duration)::try_(seconds|minutes|hours|days|weeks)$", h_td_try_ctor)
    add(r"^(chrono::)?(TimeDelta|Duration)::checked_(add|sub)$", h_td_checked)
    add(r"^core::num::<impl (i64|i32|u32|u64|usize)>::checked_(mul|add|sub)$", h_int_checked)
    add(r"^core::option::Option::<.*>::and_then::<.*>$", h_option_and_then)
    add(r"^(chrono::)?NaiveDateTime::checked_(add|sub)_signed$", h_ndt_checked_signed)
    add(r"^(chrono::)?NaiveDateTime::from_timestamp_opt$", h_ndt_from_timestamp_opt)


# ------------------------------------------------------------------ more chrono constructors
def h_from_ymd(ex, name, args, path, depth, caller):
    y, m, d = deref(args[0]).t, deref(args[1]).t, deref(args[2]).t
    ok = valid_ymd(y, m, d)
    bad = path.add(z3.Not(ok))
    if ex.feasible(bad):
        yield panic(bad, "invalid or out-of-range date", caller.name)
    okp = path.add(ok)
    if ex.feasible(okp):
        yield Outcome("return", okp, DateV(z3.simplify(days_from_civil(y, m, d))))


def h_date_checked_signed(ex, name, args, path, depth, caller):
    a, d = deref(args[0]), deref(args[1])
    sub = "checked_sub_signed" in name
    dd = ex.tdiv(d.secs, z3.IntVal(86400))
    days = a.days - dd if sub else a.days + dd
    ok = z3.And(days >= CHRONO_MIN_DAYS, days <= CHRONO_MAX_DAYS)
    yield from fork(ex, path, ok, lambda: some(DateV(z3.simplify(days))), NONE)


def h_date_and_time(ex, name, args, path, depth, caller):
    yield Outcome("return", path, DateTimeV(deref(args[0]).days, deref(args[1]).secs))


def h_time_from_secs(ex, name, args, path, depth, caller):
    secs, nano = deref(args[0]), deref(args[1])
    ok = z3.And(secs.t >= 0, secs.t < 86400, nano.t >= 0, nano.t < 2000000000)
    bad = path.add(z3.Not(ok))
    if ex.feasible(bad):
        yield panic(bad, "invalid time", caller.name)
    okp = path.add(ok)
    if ex.feasible(okp):
        yield Outcome("return", okp, TimeV(secs.t))


def install_chrono2(ex):
    def add(rx, fn):
        ex.handlers.insert(0, (re.compile(rx), fn))

    add(r"^(chrono::)?NaiveDate::from_ymd$", h_from_ymd)
    add(r"^(chrono::)?NaiveDate::checked_(add|sub)_signed$", h_date_checked_signed)
    add(r"^(chrono::)?NaiveDate::and_time$", h_date_and_time)
    add(r"^(chrono::)?NaiveTime::from_num_seconds_from_midnight$", h_time_from_secs)


# ------------------------------------------------------------------ line splitting of a structured text (Session::set_text)
def h_regex_new2(ex, name, args, path, depth, caller):
    pat = deref(args[0])
    if isinstance(pat, StrV) and pat.is_concrete() and pat.t in LINE_PATTERNS:
        # assumption (stated in the evidence): Regex::new succeeds on this constant, valid pattern
        yield Outcome("return", path, EnumV("Result", "Ok", [RegexV(pat.t)]))
        return
    raise Unsupported("Regex::new with a pattern other than the line-separator pattern: %r" % (pat,))


LINE_PATTERNS = ("\\r\\n|\\n", "\r\n|\n")


def split_text(text, sep):
    parts = []
    curp = text.lines[0]
    for i in range(len(text.lines) - 1):
        s_ = text.seps[i]
        nxt = text.lines[i + 1]
        if sep == "\n":
            parts.append(str_concat(curp, StrV("\r")) if s_ == "\r\n" else curp)
            curp = nxt
        elif sep == "\r\n":
            if s_ == "\r\n":
                parts.append(curp)
                curp = nxt
            else:
                curp = str_concat(str_concat(curp, StrV("\n")), nxt)
        else:
            raise Unsupported("split on %r" % sep)
    parts.append(curp)
    return parts


def h_regex_split(ex, name, args, path, depth, caller):
    re_, text = deref(args[0]), cur(path, args[1])
    if isinstance(re_, RegexV) and isinstance(text, TextV):
        if re_.pattern not in ("\\r\\n|\\n", "\r\n|\n"):
            raise Unsupported("Regex::split with pattern %r (only the line-separator pattern is modelled)" % re_.pattern)
        # regex semantics of \r\n|\n on a text whose lines contain neither CR nor LF: one part per line
        yield Outcome("return", path, IterV(list(text.lines), 0, False, True))
        return
    yield Outcome("return", path, OpaqueV("Split"))


def h_str_lines(ex, name, args, path, depth, caller):
    text = cur(path, args[0])
    if isinstance(text, TextV):
        # str::lines strips "\n" and "\r\n" and yields no final empty line
        last = text.lines[-1].term()
        pe = path.add(last == z3.StringVal(""))
        if ex.feasible(pe):
            yield Outcome("return", pe, IterV(list(text.lines[:-1]), 0, False, True))
        pn = path.add(last != z3.StringVal(""))
        if ex.feasible(pn):
            yield Outcome("return", pn, IterV(list(text.lines), 0, False, True))
        return
    yield Outcome("return", path, OpaqueV("Lines"))


def h_str_contains_text(ex, name, args, path, depth, caller):
    text, pat = cur(path, args[0]), deref(args[1])
    if isinstance(text, TextV):
        if not (isinstance(pat, StrV) and pat.is_concrete() and pat.t in ("\n", "\r\n", "\r")):
            raise Unsupported("contains(%r) on a structured text" % (pat,))
        if pat.t == "\n":
            yield Outcome("return", path, z3.BoolVal(len(text.seps) > 0))
        else:
            yield Outcome("return", path, z3.BoolVal(any(s_ == "\r\n" for s_ in text.seps)))
        return
    return (yield from h_str_pred(ex, name, args, path, depth, caller))


def h_str_split_text(ex, name, args, path, depth, caller):
    text, pat = cur(path, args[0]), deref(args[1])
    if isinstance(text, TextV):
        if not (isinstance(pat, StrV) and pat.is_concrete()):
            raise Unsupported("split with a symbolic separator on a structured text")
        yield Outcome("return", path, IterV(split_text(text, pat.t), 0, False, True))
        return
    yield Outcome("return", path, OpaqueV("Split"))


def h_generic_iter_map(ex, name, args, path, depth, caller):
    it = deref(args[0])
    if isinstance(it, IterV):
        return h_iter_map(ex, name, args, path, depth, caller)
    return ex.ret(path, OpaqueV("Map"))


def h_generic_collect(ex, name, args, path, depth, caller):
    it = deref(args[0])
    if isinstance(it, IterV):
        return ex.ret(path, VecV(it.items[it.idx:]))
    return ex.ret(path, OpaqueV("collected"))


def install_text(ex):
    def add(rx, fn):
        ex.handlers.insert(0, (re.compile(rx), fn))

    add(r"^regex::Regex::new$", h_regex_new2)
    add(r"^regex::Regex::split$", h_regex_split)
    add(r"^core::str::<impl str>::lines$", h_str_lines)
    add(r"^core::str::<impl str>::contains::<&str>$", h_str_contains_text)
    add(r"^core::str::<impl str>::split::<&str>$", h_str_split_text)
    add(r"^<(regex::Split<.*>|regex::regex::string::Split<.*>|Lines<.*>|core::str::Lines<.*>|core::str::Split<.*>|Split<.*>) as Iterator>::map::<.*>$", h_generic_iter_map)
    add(r"^<core::iter::Map<(regex::Split|regex::regex::string::Split|Lines|core::str::Lines|core::str::Split|Split)<.*>, .*> as Iterator>::collect::<Vec<.*>>$", h_generic_collect)


# ------------------------------------------------------------------ rendering of floats as decimal text (C07)
# Contract models of core::fmt's float printing (the digit generation itself - grisu/dragon - is assumed correct):
#   format!("{:.N}", v), v >= 0  ->  the decimal digits of R = round-half-even(v * 10^N), with N fraction digits
#   format!("{}", v) / v.to_string(), v >= 0 with at most FMT_MAX_FRACT fraction digits -> shortest exact decimal text
FMT_MAX_INT_DIGITS = [7]
FMT_MAX_FRACT = [3]


def round_half_even(y):
    f = z3.ToInt(y)
    fr = y - z3.ToReal(f)
    return z3.If(fr < z3.Q(1, 2), f, z3.If(fr > z3.Q(1, 2), f + 1, z3.If(f % 2 == 0, f, f + 1)))


def digits_of(r, n):
    """the n low decimal digits of the integer term r, most significant first"""
    return [("d", (r / (10 ** i)) % 10) for i in reversed(range(n))]


def int_digit_range(r, l, n):
    """r (scaled by 10^n) has exactly l integer digits"""
    lo = 0 if l == 1 else 10 ** (l - 1 + n)
    return z3.And(r >= lo, r < 10 ** (l + n))


def render_fixed(ex, path, v, n):
    """outcomes (path, DecStrV) of format!("{:.n}", v) for v >= 0"""
    r = round_half_even(v * (10 ** n))
    for l in range(1, FMT_MAX_INT_DIGITS[0] + 1):
        p = path.add(int_digit_range(r, l, n))
        if not ex.feasible(p):
            continue
        ds = digits_of(r, l + n)
        chars = ds[:l] + ([("c", ".")] + ds[l:] if n > 0 else [])
        yield p, DecStrV(chars)
    p = path.add(r >= 10 ** (FMT_MAX_INT_DIGITS[0] + n))
    if ex.feasible(p):
        raise Unsupported("a rendered number with more than %d integer digits (outside the stated bound)" % FMT_MAX_INT_DIGITS[0])


def render_shortest(ex, path, v):
    """outcomes of format!("{}", v) for v >= 0 with at most FMT_MAX_FRACT fraction digits"""
    for k in range(0, FMT_MAX_FRACT[0] + 1):
        y = v * (10 ** k)
        r = z3.ToInt(y)
        exact = z3.And(z3.ToReal(r) == y, r % 10 != 0 if k > 0 else z3.BoolVal(True))
        for l in range(1, FMT_MAX_INT_DIGITS[0] + 1):
            p = path.add(z3.And(exact, int_digit_range(r, l, k)))
            if not ex.feasible(p):
                continue
            ds = digits_of(r, l + k)
            yield p, DecStrV(ds[:l] + ([("c", ".")] + ds[l:] if k > 0 else []))


def h_fmt_arg(ex, name, args, path, depth, caller):
    if "from_usize" in name:
        yield Outcome("return", path, FmtArgV("usize", deref(args[0])))
    else:
        kind = re.search(r"::new_(\w+)::", name).group(1)
        yield Outcome("return", path, FmtArgV(kind, deref(args[0])))


def h_fmt_arguments_new(ex, name, args, path, depth, caller):
    arr = deref(args[1]) if len(args) > 1 else None
    items = []
    if arr is not None:
        raw = arr.items if isinstance(arr, VecV) else getattr(arr, "f", None)
        if raw is None:
            raise Unsupported("format arguments %r" % (arr,))
        items = [deref(x) for x in raw]
    yield Outcome("return", path, FmtArgsV(deref(args[0]), items))


def h_fmt_format(ex, name, args, path, depth, caller):
    a = deref(args[0])
    if not isinstance(a, FmtArgsV):
        yield Outcome("return", path, OpaqueV("formatted"))
        return
    kinds = [(x.kind if isinstance(x, FmtArgV) else "?") for x in a.args]
    if kinds == ["display", "usize"] and isinstance(a.args[0].v, FloatV):
        v, n = a.args[0].v, conc_int(a.args[1].v)
        ex.fmt_log.append(("fixed", v.t, n))
        for p, s in render_fixed(ex, path.add(v.t >= 0), v.t, n):
            yield Outcome("return", p, s)
        return
    if kinds == ["display"] and isinstance(a.args[0].v, FloatV):
        v = a.args[0].v
        ex.fmt_log.append(("shortest", v.t, None))
        for p, s in render_shortest(ex, path.add(v.t >= 0), v.t):
            yield Outcome("return", p, s)
        return
    pieces = decode_template(a.template)
    if pieces is not None and all(isinstance(x, FmtArgV) and x.kind == "display" and isinstance(x.v, StrV) for x in a.args) \
            and sum(1 for q in pieces if q is None) == len(a.args):
        out, it = StrV(""), iter(a.args)
        for q in pieces:
            out = str_concat(out, StrV(q) if q is not None else next(it).v)
        yield Outcome("return", path, out)
        return
    yield Outcome("return", path, OpaqueV("formatted"))


def decode_template(t):
    """format_args! template bytes of the plain form: <len><literal bytes> | 0xC0 (next argument, default format) | 0x00 end.
    Returns a list of literal strings and None placeholders, or None for any other form."""
    if not isinstance(t, BytesV):
        return None
    b, i, out = t.b, 0, []
    while i < len(b):
        c = b[i]
        if c == 0:
            return out if i == len(b) - 1 else None
        if c == 0xC0:
            out.append(None)
            i += 1
        elif c < 0x80:
            try:
                out.append(b[i + 1:i + 1 + c].decode("utf-8"))
            except UnicodeError:
                return None
            i += 1 + c
        else:
            return None
    return None


def h_option_map_or(ex, name, args, path, depth, caller):
    f = closure_fn(ex, name)
    for p, is_some, payload in option_cases(ex, path, args[0]):
        if not is_some:
            yield Outcome("return", p, args[1])
        else:
            yield from ex.run(f, [args[2], payload], p, depth + 1)


def h_f64_to_string(ex, name, args, path, depth, caller):
    v = deref(args[0])
    ex.fmt_log.append(("shortest", v.t, None))
    for p, s in render_shortest(ex, path.add(v.t >= 0), v.t):
        yield Outcome("return", p, s)


def h_int_to_string(ex, name, args, path, depth, caller):
    """<uN/iN as ToString>::to_string: the decimal digits of the integer (sign in front)"""
    v = deref(args[0])
    a = z3.If(v.t >= 0, v.t, -v.t)
    maxd = len(str(v.hi()))
    for neg in ((False, True) if v.signed else (False,)):
        ps = path.add(v.t < 0 if neg else v.t >= 0)
        if not ex.feasible(ps):
            continue
        for l in range(1, maxd + 1):
            p = ps.add(int_digit_range(a, l, 0))
            if not ex.feasible(p):
                continue
            yield Outcome("return", p, DecStrV(([("c", "-")] if neg else []) + digits_of(a, l)))


def h_identity0(ex, name, args, path, depth, caller):
    yield Outcome("return", path, args[0])


def h_decstr_len(ex, name, args, path, depth, caller):
    v = cur(path, args[0])
    if isinstance(v, DecStrV):
        yield Outcome("return", path, IntV(len(v.chars), 64, False))
        return
    return (yield from h_string_len(ex, name, args, path, depth, caller))


def h_str_find_char(ex, name, args, path, depth, caller):
    v, c = cur(path, args[0]), deref(args[1])
    if not isinstance(v, DecStrV):
        raise Unsupported("str::find on %r" % (v,))
    code = conc_int(c)
    if 48 <= code <= 57:
        raise Unsupported("searching a digit in a rendered number")
    for i, ch in enumerate(v.chars):
        if ch[0] == "c" and ord(ch[1]) == code:
            yield Outcome("return", path, some(IntV(i, 64, False)))
            return
    yield Outcome("return", path, NONE)


def char_value(ch):
    return IntV(ord(ch[1]), 32, False) if ch[0] == "c" else IntV(48 + ch[1], 32, False)


def h_str_chars(ex, name, args, path, depth, caller):
    v = cur(path, args[0])
    if not isinstance(v, DecStrV):
        raise Unsupported("str::chars on %r" % (v,))
    yield Outcome("return", path, CharsV(v.chars, 0))


def h_chars_nth(ex, name, args, path, depth, caller):
    it, n = deref(args[0]), conc_int(deref(args[1]))
    i = it.idx + n
    yield Outcome("return", path, some(char_value(it.chars[i])) if i < len(it.chars) else NONE)


def h_chars_skip(ex, name, args, path, depth, caller):
    it, n = deref(args[0]), conc_int(deref(args[1]))
    yield Outcome("return", path, CharsV(it.chars, min(len(it.chars), it.idx + n)))


def h_chars_all(ex, name, args, path, depth, caller):
    it = deref(args[0])
    f = closure_fn(ex, name)
    states = [(path, [])]
    for ch in it.chars[it.idx:]:
        nxt = []
        for p, acc in states:
            for o in ex.run(f, [args[1], char_value(ch)], p, depth + 1):
                if o.kind == "panic":
                    yield o
                else:
                    nxt.append((o.path, acc + [o.value if not isinstance(o.value, IntV) else o.value.t != 0]))
        states = nxt
    for p, acc in states:
        yield Outcome("return", p, z3.And(acc) if acc else z3.BoolVal(True))


def h_string_push_char(ex, name, args, path, depth, caller):
    cur_s = cur(path, args[0])
    ch = deref(args[1])
    if not isinstance(cur_s, StrV):
        raise Unsupported("String::push on %r" % (cur_s,))
    t = z3.simplify(ch.t) if not isinstance(ch.t, int) else ch.t
    if isinstance(t, int) or z3.is_int_value(t):
        add = StrV(chr(t if isinstance(t, int) else t.as_long()))
    else:
        add = StrV(z3.StrFromCode(ch.t))
    p2, wr = writeback(path, args[0], str_concat(cur_s, add), "String")
    yield Outcome("return", p2, UNIT, writes=wr)


def h_option_unwrap_or(ex, name, args, path, depth, caller):
    for p, is_some, payload in option_cases(ex, path, args[0]):
        yield Outcome("return", p, payload if is_some else args[1])


def install_fmt(ex):
    """only for the specs about rendering: the other specs keep formatting opaque"""
    def add(rx, fn):
        ex.handlers.insert(0, (re.compile(rx), fn))

    ex.fmt_log = []
    add(r"^core::fmt::rt::Argument::<'_>::(new_\w+::<.*>|from_usize)$", h_fmt_arg)
    add(r"^Arguments::<'_>::new::<.*>$", h_fmt_arguments_new)
    add(r"^alloc::fmt::format$", h_fmt_format)
    add(r"^must_use::<.*>$", h_identity0)
    add(r"^<f64 as ToString>::to_string$", h_f64_to_string)
    add(r"^<(u8|u16|u32|u64|usize|i8|i16|i32|i64|isize) as ToString>::to_string$", h_int_to_string)
    add(r"^(alloc::string::)?String::len$|^core::str::<impl str>::len$", h_decstr_len)
    add(r"^core::str::<impl str>::find::<char>$", h_str_find_char)
    add(r"^core::str::<impl str>::chars$", h_str_chars)
    add(r"^<Chars<'_> as Iterator>::nth$", h_chars_nth)
    add(r"^<Chars<'_> as Iterator>::skip$", h_chars_skip)
    add(r"^<Skip<Chars<'_>> as Iterator>::all::<.*>$", h_chars_all)
    add(r"^(alloc::string::)?String::push$", h_string_push_char)
    add(r"^core::option::Option::<.*>::unwrap_or$", h_option_unwrap_or)
    add(r"^core::option::Option::<.*>::map_or::<.*>$", h_option_map_or)


# ------------------------------------------------------------------ the clock-time tokeniser's kernel (C11): one regex match as input
class TodayV:
    """Utc::today(): a Date<Utc> with a symbolic day number and its civil triple"""
    def __init__(self, days, off=None):
        self.days, self.off = days, off


def today_parts(ex):
    if not hasattr(ex, "_today"):
        d, y, m, dd = z3.Int("today.days"), z3.Int("today.year"), z3.Int("today.month"), z3.Int("today.day")
        for n_, t_ in (("today.days", d), ("today.year", y), ("today.month", m), ("today.day", dd)):
            ex.inputs[n_] = t_
        # the civil triple of the day number (chrono's Datelike accessors; the model of days_from_civil is validated
        # against the real chrono by the K harness chrono_model_ymd)
        ex.domain.append(z3.And(y >= 1971, y <= 9998, valid_ymd(y, m, dd), d == days_from_civil(y, m, dd)))
        ex._today = (d, y, m, dd)
    return ex._today


def h_utc_today(ex, name, args, path, depth, caller):
    yield Outcome("return", path, TodayV(today_parts(ex)[0]))


def h_today_naive(ex, name, args, path, depth, caller):
    yield Outcome("return", path, DateV(deref(args[0]).days))


def h_datelike_today(ex, name, args, path, depth, caller):
    a = deref(args[0])
    d, y, m, dd = today_parts(ex)
    if not (isinstance(a, (DateV, TodayV)) and a.days.eq(d)):
        raise Unsupported("Datelike accessor %s on a date other than today (needs civil-from-days)" % name)
    fn = name.split("::")[-1]
    if fn == "year":
        yield Outcome("return", path, IntV(y, 32, True))
    else:
        yield Outcome("return", path, IntV(m if fn == "month" else dd, 32, False))


def h_tz_ymd(ex, name, args, path, depth, caller):
    tz = deref(args[0])
    y, m, d = deref(args[1]).t, deref(args[2]).t, deref(args[3]).t
    off = tz.secs if isinstance(tz, OffsetV) else z3.IntVal(0)
    ok = valid_ymd(y, m, d)
    bad = path.add(z3.Not(ok))
    if ex.feasible(bad):
        yield panic(bad, "TimeZone::ymd: invalid date", caller.name)
    okp = path.add(ok)
    if ex.feasible(okp):
        yield Outcome("return", okp, TodayV(days_from_civil(y, m, d), off))


def h_date_tz_and_hms(ex, name, args, path, depth, caller):
    d = deref(args[0])
    off = d.off if d.off is not None else z3.IntVal(0)
    yield from hms_checked(ex, path, deref(args[1]), deref(args[2]), deref(args[3]), caller, "Date::and_hms",
                           lambda sod: ZonedV(dt_from_total(d.days * 86400 + sod - off), off))


def h_regex_captures_iter(ex, name, args, path, depth, caller):
    """one match of the regex in the line (bound of the spec): its named groups are symbolic inputs"""
    cap = CapturesV(ex)
    ex._captures = cap
    yield Outcome("return", path, IterV([cap], 0, False, True))


def h_captures_get(ex, name, args, path, depth, caller):
    cap = deref(args[0])
    yield Outcome("return", path, some(StrV(z3.String("%s.text[0]" % cap.name))))


def h_match_pos(ex, name, args, path, depth, caller):
    m = deref(args[0])
    f = z3.Function("match." + name.split("::")[-1], z3.StringSort(), z3.IntSort())(m.term())
    ex.domain.append(z3.And(f >= 0, f < 1000))
    yield Outcome("return", path, IntV(f, 64, False))


def h_str_lower_sym(ex, name, args, path, depth, caller):
    v = deref(args[0])
    if isinstance(v, StrV) and v.is_concrete():
        yield Outcome("return", path, StrV(v.t.lower() if name.endswith("to_lowercase") else v.t.upper()))
    else:
        yield Outcome("return", path, StrV(z3.Function("str." + name.split("::")[-1], z3.StringSort(), z3.StringSort())(v.term())))


def h_time_addsub_td(ex, name, args, path, depth, caller):
    """NaiveTime +- TimeDelta wraps around midnight (the day carry is dropped: chrono's documented behaviour)"""
    a, d = deref(args[0]), deref(args[1])
    t = a.secs - d.secs if name.endswith("::sub") else a.secs + d.secs
    yield Outcome("return", path, TimeV(t % 86400))


def install_time_tokeniser(ex):
    def add(rx, fn):
        ex.handlers.insert(0, (re.compile(rx), fn))

    add(r"^(chrono::)?Utc::today$", h_utc_today)
    add(r"^<(chrono::)?NaiveTime as (Add|Sub)<(chrono::)?(TimeDelta|Duration)>>::(add|sub)$", h_time_addsub_td)
    add(r"^(chrono::)?Date::<.*>::naive_utc$", h_today_naive)
    add(r"^<(chrono::)?NaiveDate as Datelike>::(year|month|day)$", h_datelike_today)
    add(r"^<(FixedOffset|Utc) as TimeZone>::ymd$", h_tz_ymd)
    add(r"^(chrono::)?Date::<.*>::and_hms$", h_date_tz_and_hms)
    add(r"^regex::Regex::captures_iter$", h_regex_captures_iter)
    add(r"^<regex::CaptureMatches<.*> as Iterator>::next$|^<CaptureMatches<.*> as Iterator>::next$", h_iter_next)
    add(r"^<regex::CaptureMatches<.*> as IntoIterator>::into_iter$|^<CaptureMatches<.*> as IntoIterator>::into_iter$", h_identity_keep)
    add(r"^regex::Captures::<'_>::get$", h_captures_get)
    add(r"^regex::Match::<'_>::(start|end)$", h_match_pos)
    add(r"^core::str::<impl str>::(to_lowercase|to_uppercase)$|^alloc::str::<impl str>::(to_lowercase|to_uppercase)$", h_str_lower_sym)
    add(r"^<(str|alloc::string::String|String) as ToOwned>::to_owned$", h_to_string)


# ------------------------------------------------------------------ pattern matching of the rule engine (phrase specs)
def h_slice_contains_str(ex, name, args, path, depth, caller):
    v = cur(path, args[0])
    x = deref(args[1])
    items = v.items if isinstance(v, VecV) else v.f
    conds = []
    for i in items:
        i = deref(i)
        if isinstance(i, StrV) and isinstance(x, StrV) and i.is_concrete() and x.is_concrete():
            conds.append(z3.BoolVal(i.t == x.t))
        else:
            conds.append(i.term() == x.term())
    yield Outcome("return", path, z3.simplify(z3.Or(conds)) if conds else z3.BoolVal(False))


def h_iter_any(ex, name, args, path, depth, caller):
    it = deref(args[0])
    if not isinstance(it, IterV):
        raise Unsupported("Iterator::any on %r" % (it,))
    f = closure_fn(ex, name)
    states = [(path, [])]
    for el in it.items[it.idx:]:
        nxt = []
        for p, acc in states:
            for o in ex.run(f, [args[1], el if it.owned else RefV(el)], p, depth + 1):
                if o.kind == "panic":
                    yield o
                else:
                    nxt.append((o.path, acc + [o.value if z3.is_expr(o.value) else z3.BoolVal(bool(o.value))]))
        states = nxt
    for p, acc in states:
        yield Outcome("return", p, z3.simplify(z3.Or(acc)) if acc else z3.BoolVal(False))


def h_option_as_ref(ex, name, args, path, depth, caller):
    for p, is_some, payload in option_cases(ex, path, args[0]):
        yield Outcome("return", p, some(RefV(payload) if not isinstance(payload, RefV) else payload) if is_some else NONE)


def install_map_updates(ex):
    ex.handlers.insert(0, (re.compile(r"^BTreeMap::<Rc<(types::)?CurrencyInfo>, f64>::insert$"), h_map_insert_sym))
    ex.handlers.insert(0, (re.compile(r"^BTreeMap::<Rc<(types::)?CurrencyInfo>, f64>::get_mut::<.*>$"), h_map_get_mut_sym))


def install_phrases(ex):
    def add(rx, fn):
        ex.handlers.insert(0, (re.compile(rx), fn))

    add(r"^core::slice::<impl \[(alloc::string::)?String\]>::contains$", h_slice_contains_str)
    add(r"^<core::slice::Iter<'_, (alloc::string::)?String> as Iterator>::any::<.*>$", h_iter_any)
    add(r"^core::option::Option::<.*>::map_or::<.*>$", h_option_map_or)
    add(r"^core::str::<impl str>::(to_lowercase|to_uppercase)$|^alloc::str::<impl str>::(to_lowercase|to_uppercase)$", h_str_lower_sym)
    add(r"^core::fmt::rt::Argument::<'_>::new_\\w+::<.*>$", h_opaque)


# ------------------------------------------------------------------ the number tokeniser's kernel (C08 / C02 / C13): written literals
def h_str_replace_chars(ex, name, args, path, depth, caller):
    """str::replace(pattern, to) on a written literal (DecStrV) with concrete pattern and replacement"""
    v, pat, to = deref(args[0]), deref(args[1]), deref(args[2])
    if not isinstance(v, DecStrV):
        raise Unsupported("str::replace on %r" % (v,))
    if not (isinstance(pat, StrV) and pat.is_concrete() and isinstance(to, StrV) and to.is_concrete()):
        raise Unsupported("str::replace with a symbolic pattern on a written literal")
    if pat.t == "":
        if to.t == "":
            yield Outcome("return", path, v)      # nothing is inserted between the characters
            return
        raise Unsupported("str::replace with an empty pattern (inserts between all characters)")
    if any(ch.isdigit() for ch in pat.t):
        raise Unsupported("a separator that contains digits")
    out, i, chars = [], 0, v.chars
    n = len(pat.t)
    while i < len(chars):
        window = chars[i:i + n]
        if len(window) == n and all(c[0] == "c" and c[1] == pat.t[j] for j, c in enumerate(window)):
            out += [("c", ch) for ch in to.t]
            i += n
        else:
            out.append(chars[i])
            i += 1
    yield Outcome("return", path, DecStrV(out))


def h_parse_f64_written(ex, name, args, path, depth, caller):
    """str::parse::<f64> on a written literal: [sign] digits [. digits] (at least one digit) is Ok(exact decimal value);
    anything else (a second '.', a ',' ...) is Err - the documented grammar of f64::from_str without exponent/inf/nan"""
    v = deref(args[0])
    if not isinstance(v, DecStrV):
        raise Unsupported("parse::<f64> on %r" % (v,))
    chars = list(v.chars)
    neg = False
    if chars and chars[0][0] == "c" and chars[0][1] in "+-":
        neg = chars[0][1] == "-"
        chars = chars[1:]
    dots = [i for i, c in enumerate(chars) if c == ("c", ".")]
    ok = len(dots) <= 1 and all(c[0] == "d" or c == ("c", ".") for c in chars) and any(c[0] == "d" for c in chars)
    if not ok:
        yield Outcome("return", path, EnumV("Result", "Err", [OpaqueV("ParseFloatError")]))
        return
    dot = dots[0] if dots else len(chars)
    ints, frac = [c[1] for c in chars[:dot]], [c[1] for c in chars[dot + 1:]]
    val = z3.IntVal(0)
    for d in ints:
        val = val * 10 + d
    val = z3.ToReal(val)
    for i, d in enumerate(frac):
        val = val + z3.ToReal(d) / (10 ** (i + 1))
    yield Outcome("return", path, EnumV("Result", "Ok", [FloatV(-val if neg else val, z3.BoolVal(False))]))


def h_from_str_radix(ex, name, args, path, depth, caller):
    """{i,u}N::from_str_radix on a written literal of symbolic digits: Ok(value) when it fits i64, Err otherwise"""
    v, radix = deref(args[0]), conc_int(deref(args[1]))
    if not isinstance(v, DecStrV) or not all(c[0] == "d" for c in v.chars):
        raise Unsupported("from_str_radix on %r" % (v,))
    val = z3.IntVal(0)
    for c in v.chars:
        val = val * radix + c[1]
    m = re.search(r"<impl ([iu](?:8|16|32|64|128|size))>", name)
    bits, signed = INT_TYPES[m.group(1)] if m and m.group(1) in INT_TYPES else (64, True)
    ok = val <= ((1 << (bits - 1)) - 1 if signed else (1 << bits) - 1)
    yield from fork(ex, path, ok, lambda: EnumV("Result", "Ok", [IntV(val, bits, signed)]), lambda: EnumV("Result", "Err", [OpaqueV("ParseIntError")]))


def h_str_eq_written(ex, name, args, path, depth, caller):
    a, b = deref(args[0]), deref(args[1])
    if isinstance(a, StrV) and isinstance(b, StrV):
        if a.is_concrete() and b.is_concrete():
            r = z3.BoolVal(a.t == b.t)
        else:
            r = a.term() == b.term()
        yield Outcome("return", path, z3.Not(r) if name.endswith("::ne") else r)
        return
    raise Unsupported("str comparison on %r" % (a,))


def h_str_chars_iter(ex, name, args, path, depth, caller):
    """str::chars as a plain iterator of chars (filter / map / collect style code)"""
    v = cur(path, args[0])
    if isinstance(v, DecStrV):
        items = [CharIntV(char_value(c).t, c) for c in v.chars]
    elif isinstance(v, StrV) and v.is_concrete():
        items = [CharIntV(ord(c), ("c", c)) for c in v.t]
    else:
        raise Unsupported("str::chars on %r" % (v,))
    yield Outcome("return", path, IterV(items, 0, False, True))


def h_iter_filter(ex, name, args, path, depth, caller):
    it = deref(args[0])
    if not isinstance(it, IterV):
        raise Unsupported("Iterator::filter on %r" % (it,))
    f = closure_fn(ex, name)
    states = [(path, [])]
    for el in it.items[it.idx:]:
        nxt = []
        for p, acc in states:
            for o in ex.run(f, [RefV(args[1]), RefV(el)], p, depth + 1):
                if o.kind == "panic":
                    yield o
                    continue
                keep = o.value if z3.is_expr(o.value) else z3.BoolVal(bool(o.value))
                keep = z3.simplify(keep)
                if z3.is_true(keep):
                    nxt.append((o.path, acc + [el]))
                elif z3.is_false(keep):
                    nxt.append((o.path, acc))
                else:
                    py, pn = o.path.add(keep), o.path.add(z3.Not(keep))
                    if ex.feasible(py):
                        nxt.append((py, acc + [el]))
                    if ex.feasible(pn):
                        nxt.append((pn, acc))
        states = nxt
    for p, acc in states:
        yield Outcome("return", p, IterV(acc, 0, False, True))


def h_collect_string_chars(ex, name, args, path, depth, caller):
    it = deref(args[0])
    if not isinstance(it, IterV):
        return NotImplemented
    chars = []
    for x in it.items[it.idx:]:
        x = deref(x)
        if isinstance(x, CharIntV):
            chars.append(x.src)
        elif isinstance(x, IntV) and z3.is_int_value(z3.simplify(x.t)):
            chars.append(("c", chr(z3.simplify(x.t).as_long())))
        else:
            raise Unsupported("collecting %r into a String" % (x,))
    return ex.ret(path, DecStrV(chars))


def install_number_tokeniser(ex):
    def add(rx, fn):
        ex.handlers.insert(0, (re.compile(rx), fn))

    install_time_tokeniser(ex)
    add(r"^alloc::str::<impl str>::replace::<&str>$|^core::str::<impl str>::replace::<&str>$", h_str_replace_chars)
    add(r"^core::str::<impl str>::parse::<f64>$", h_parse_f64_written)
    add(r"^core::num::<impl [iu](8|16|32|64|size)>::from_str_radix$", h_from_str_radix)
    add(r"^<(alloc::string::)?String as (core::ops::)?Index<(core::ops::)?RangeFull>>::index$", h_identity0)
    add(r"^<str as PartialEq>::(eq|ne)$", h_str_eq_written)
    add(r"^core::str::<impl str>::chars$", h_str_chars_iter)
    add(r"^<Chars<'_> as Iterator>::next$", h_iter_next)
    add(r"^core::option::Option::<.*>::unwrap_or$", h_option_unwrap_or)
    add(r"^<Chars<'_> as Iterator>::filter::<.*>$", h_iter_filter)
    add(r"^<Filter<Chars<'_>, .*> as Iterator>::map::<.*>$|^<Chars<'_> as Iterator>::map::<.*>$", h_iter_map)
    add(r"^<(core::iter::)?Map<.*Chars<'_>.*> as Iterator>::collect::<(alloc::string::)?String>$|^<Filter<Chars<'_>, .*> as Iterator>::collect::<(alloc::string::)?String>$|^<Chars<'_> as Iterator>::collect::<(alloc::string::)?String>$", h_collect_string_chars)
    install_written_predicates(ex)



# ------------------------------------------------------------------ object fields rewritten through container calls (C04: set_language)
def h_container_wipe(ex, name, args, path, depth, caller):
    """clear / insert / remove / push / retain ... on a container that is a field of a symbolic object: recorded as a store to
    that field (the new content is not modelled - a spec that only asks WHICH fields a function writes needs no more)"""
    loc = find_loc(args[0])
    if loc is None:
        return NotImplemented
    yield Outcome("return", path.store(loc[0], loc[1], "container:" + name.rsplit("::", 1)[-1], OpaqueV("rewritten by " + name)), OpaqueV("unit"))


def h_string_is_empty(ex, name, args, path, depth, caller):
    v = deref(args[0])
    if not isinstance(v, StrV):
        return NotImplemented
    yield Outcome("return", path, z3.Length(v.term()) == 0)


def install_field_writes(ex):
    ex.handlers.insert(0, (re.compile(r"^(BTreeMap|Vec|alloc::string::String|String|VecDeque)::?<?.*>?::(clear|insert|remove|push|push_str|pop|retain|truncate|append|extend)(::<.*>)?$"), h_container_wipe))
    ex.handlers.insert(0, (re.compile(r"^(alloc::string::)?String::is_empty$|^core::str::<impl str>::is_empty$"), h_string_is_empty))



def h_slice_contains_int(ex, name, args, path, depth, caller):
    v = cur(path, args[0])
    x = deref(args[1])
    if not isinstance(v, VecV) or not isinstance(x, IntV):
        return NotImplemented
    conds = []
    for i in v.items:
        i = deref(i)
        if not isinstance(i, IntV):
            return NotImplemented
        conds.append(i.t == x.t)
    yield Outcome("return", path, z3.simplify(z3.Or(conds)) if conds else z3.BoolVal(False))



# ------------------------------------------------------------------ BTreeMap::range over a concrete map (ascending key order)
def h_range_inclusive_new(ex, name, args, path, depth, caller):
    yield Outcome("return", path, StructV("RangeInclusive", [args[0], args[1]]))


def h_mapc_range(ex, name, args, path, depth, caller):
    m = mapc_of(path, args[0])
    r = deref(args[1])
    if m is None or not (isinstance(r, StructV) and r.name in ("RangeInclusive", "Range")):
        return NotImplemented
    lo, hi = conc_int(deref(r.f[0])), conc_int(deref(r.f[1]))
    if lo > hi or (lo == hi and r.name == "Range"):
        if lo > hi:
            yield panic(path, "range start is greater than range end in BTreeMap", caller.name)
            return
    keys = [k for k in sorted(m.d) if isinstance(k, int) and lo <= k and (k <= hi if r.name == "RangeInclusive" else k < hi)]
    yield Outcome("return", path, IterV([TupleV([RefV(IntV(k, 64, False)), RefV(m.d[k])]) for k in keys], 0, False, True))



# ------------------------------------------------------------------ "{:.Pe}" and back: rounding to P+1 significant digits
SCI_EXP_RANGE = (-25, 25)      # decimal exponents modelled; beyond them the text round trip is taken as the identity (outside the claim)


class SciTextV(StrV):
    """the text of format!("{:.Pe}", v): only its numeric value is modelled"""

    def __init__(self, value, digits):
        SciTextV.n = getattr(SciTextV, "n", 0) + 1
        StrV.__init__(self, z3.String("scitext%d" % SciTextV.n))
        self.value, self.digits = value, digits


def round_sig(v, digits):
    """v rounded (half to even) to `digits` significant decimal digits, for 10^lo <= |v| < 10^(hi+1); v itself elsewhere"""
    a = z3.If(v >= 0, v, -v)
    out = v
    for e in range(SCI_EXP_RANGE[1], SCI_EXP_RANGE[0] - 1, -1):
        k = e - digits + 1
        scale = z3.Q(10 ** k, 1) if k >= 0 else z3.Q(1, 10 ** (-k))
        r = z3.ToReal(round_half_even(a / scale)) * scale
        lo = z3.Q(10 ** e, 1) if e >= 0 else z3.Q(1, 10 ** (-e))
        hi = z3.Q(10 ** (e + 1), 1) if e + 1 >= 0 else z3.Q(1, 10 ** (-(e + 1)))
        out = z3.If(z3.And(a >= lo, a < hi), z3.If(v >= 0, r, -r), out)
    return out


def decode_placeholders(t):
    """placeholders of a format_args! template as (flags, width, precision) with None for absent (library/core/src/fmt/mod.rs)"""
    if not isinstance(t, BytesV):
        return None
    b, i, out = t.b, 0, []
    while i < len(b):
        c = b[i]
        if c == 0:
            return out
        if c < 0x80:
            i += 1 + c
        elif c == 0x80:
            i += 3 + (b[i + 1] | (b[i + 2] << 8))
        elif c >= 0xC0:
            i += 1
            flags = width = prec = None
            if c & 1:
                flags = int.from_bytes(b[i:i + 4], "little")
                i += 4
            if c & 2:
                width = int.from_bytes(b[i:i + 2], "little")
                i += 2
            if c & 4:
                prec = int.from_bytes(b[i:i + 2], "little")
                i += 2
            if c & 8:
                i += 2
            if c & 0x30:
                return None          # width / precision taken from an argument
            out.append((flags, width, prec))
        else:
            return None
    return out


def h_sci_arg(ex, name, args, path, depth, caller):
    yield Outcome("return", path, FmtArgV("sci", deref(args[0])))


def h_sci_arguments(ex, name, args, path, depth, caller):
    arr = deref(args[1]) if len(args) > 1 else None
    raw = arr.items if isinstance(arr, VecV) else getattr(arr, "f", None)
    if not raw:
        return NotImplemented
    items = [deref(x) for x in raw]
    if not (len(items) == 1 and isinstance(items[0], FmtArgV) and items[0].kind == "sci"):
        return NotImplemented
    return iter([Outcome("return", path, FmtArgsV(deref(args[0]), items))])


def h_sci_format(ex, name, args, path, depth, caller):
    a = deref(args[0])
    if not (isinstance(a, FmtArgsV) and len(a.args) == 1 and isinstance(a.args[0], FmtArgV) and a.args[0].kind == "sci"):
        return NotImplemented
    ph = decode_placeholders(a.template)
    v = a.args[0].v
    if not (ph and len(ph) == 1 and ph[0][2] is not None and ph[0][1] is None and isinstance(v, FloatV)):
        raise Unsupported("scientific format with template %r" % (a.template,))
    return iter([Outcome("return", path, SciTextV(round_sig(v.t, ph[0][2] + 1), ph[0][2] + 1))])


def h_sci_parse(ex, name, args, path, depth, caller):
    v = deref(args[0])
    if not isinstance(v, SciTextV):
        return NotImplemented
    return iter([Outcome("return", path, EnumV("Result", "Ok", [FloatV(v.value, z3.BoolVal(False))]))])


def install_sci(ex):
    """lowest priority: only reached when nothing else claims these calls"""
    ex.handlers.append((re.compile(r"^core::fmt::rt::Argument::<'_>::new_(lower|upper)_exp::<f64>$"), h_sci_arg))
    ex.handlers.insert(0, (re.compile(r"^Arguments::<'_>::new::<\d+, 1>$"), h_sci_arguments))
    ex.handlers.insert(0, (re.compile(r"^alloc::fmt::format$"), h_sci_format))
    ex.handlers.insert(0, (re.compile(r"^core::str::<impl str>::parse::<f64>$"), h_sci_parse))
    ex.handlers.append((re.compile(r"^must_use::<.*>$"), h_identity0))



# ------------------------------------------------------------------ Iterator::position / Range::fold / Range<uN> loops
def h_iter_position(ex, name, args, path, depth, caller):
    """Iterator::position over a slice iterator: Some(i) for the first element the closure accepts"""
    it = deref(args[0])
    if not isinstance(it, IterV):
        return NotImplemented
    f = closure_fn(ex, name)

    def gen():
        states = [path]
        for i, el in enumerate(it.items[it.idx:]):
            nxt = []
            for p in states:
                for o in ex.run(f, [args[1], el if it.owned else RefV(el)], p, depth + 1):
                    if o.kind == "panic":
                        yield o
                        continue
                    c = o.value if z3.is_expr(o.value) else z3.BoolVal(bool(o.value))
                    pt = o.path.add(c)
                    if z3.is_true(z3.simplify(c)) or ex.feasible(pt):
                        yield Outcome("return", pt, some(IntV(i, 64, False)))
                    pf = o.path.add(z3.Not(c))
                    if not z3.is_true(z3.simplify(c)) and ex.feasible(pf):
                        nxt.append(pf)
            states = nxt
        for p in states:
            yield Outcome("return", p, NONE)
    return gen()


def h_range_fold(ex, name, args, path, depth, caller):
    """Range / RangeInclusive ::fold with concrete bounds: the closure applied in order"""
    r = deref(args[0])
    if not (isinstance(r, StructV) and r.name in ("Range", "RangeInclusive")):
        return NotImplemented
    lo, hi = conc_int(deref(r.f[0])), conc_int(deref(r.f[1]))
    bits, signed = (deref(r.f[0]).bits, deref(r.f[0]).signed) if isinstance(deref(r.f[0]), IntV) else (64, False)
    idx = list(range(lo, hi + 1 if r.name == "RangeInclusive" else hi))
    f = closure_fn(ex, name)

    def gen():
        states = [(path, args[1])]
        for i in idx:
            nxt = []
            for p, acc in states:
                for o in ex.run(f, [RefV(args[2]), acc, IntV(i, bits, signed)], p, depth + 1):
                    if o.kind == "panic":
                        yield o
                    else:
                        nxt.append((o.path, o.value))
            states = nxt
        for p, acc in states:
            yield Outcome("return", p, acc)
    return gen()



def h_option_or_else(ex, name, args, path, depth, caller):
    """Option::or_else: the option itself when Some, the closure's result otherwise"""
    f = closure_fn(ex, name)
    for p, is_some, payload in option_cases(ex, path, args[0]):
        if is_some:
            yield Outcome("return", p, some(payload))
        else:
            yield from ex.run(f, [args[1]], p, depth + 1)



# ------------------------------------------------------------------ written literals under char-predicate closures (|ch| ch == '.' || ...)
def char_pred(ex, f, clos, ch, path, depth):
    """the closure's verdict on one character of a written literal; must be the same for every value of a symbolic digit"""
    res = None
    for o in ex.run(f, [clos, char_value(ch)], path, depth + 1):
        if o.kind == "panic":
            raise Unsupported("a character predicate that can panic")
        v = o.value if z3.is_expr(o.value) else z3.BoolVal(bool(o.value))
        can_t, can_f = ex.feasible(o.path.add(v)), ex.feasible(o.path.add(z3.Not(v)))
        if can_t and can_f:
            raise Unsupported("a character predicate that depends on the value of a digit")
        r = bool(can_t)
        if res is not None and res != r:
            raise Unsupported("a character predicate with diverging paths")
        res = r
    if res is None:
        raise Unsupported("a character predicate without a result")
    return res


def h_written_trim_end(ex, name, args, path, depth, caller):
    v = cur(path, args[0])
    if not isinstance(v, DecStrV):
        return NotImplemented
    f = closure_fn(ex, name)
    chars = list(v.chars)
    while chars and char_pred(ex, f, RefV(args[1]), chars[-1], path, depth):
        chars.pop()
    return iter([Outcome("return", path, DecStrV(chars))])


def h_written_rfind(ex, name, args, path, depth, caller):
    v = cur(path, args[0])
    if not isinstance(v, DecStrV):
        return NotImplemented
    f = closure_fn(ex, name)
    idx = range(len(v.chars) - 1, -1, -1) if "rfind" in name else range(len(v.chars))
    for i in idx:
        if char_pred(ex, f, RefV(args[1]), v.chars[i], path, depth):
            return iter([Outcome("return", path, some(IntV(i, 64, False)))])
    return iter([Outcome("return", path, NONE)])


def h_written_replace_pred(ex, name, args, path, depth, caller):
    v, to = cur(path, args[0]), deref(args[2])
    if not isinstance(v, DecStrV) or not (isinstance(to, StrV) and to.is_concrete()):
        return NotImplemented
    f = closure_fn(ex, name)
    out = []
    for ch in v.chars:
        if char_pred(ex, f, RefV(args[1]), ch, path, depth):
            out += [("c", c) for c in to.t]
        else:
            out.append(ch)
    return iter([Outcome("return", path, DecStrV(out))])


def h_written_slice(ex, name, args, path, depth, caller):
    v, r = cur(path, args[0]), deref(args[1])
    if not isinstance(v, DecStrV) or not isinstance(r, StructV):
        return NotImplemented
    n = len(v.chars)
    if r.name == "RangeTo":
        a, b = 0, conc_int(deref(r.f[0]))
    elif r.name == "RangeFrom":
        a, b = conc_int(deref(r.f[0])), n
    elif r.name == "Range":
        a, b = conc_int(deref(r.f[0])), conc_int(deref(r.f[1]))
    elif r.name == "RangeFull":
        a, b = 0, n
    else:
        return NotImplemented
    if a > b or b > n:
        return iter([panic(path, "byte index out of range of a written literal", caller.name)])
    return iter([Outcome("return", path, DecStrV(v.chars[a:b]))])


def h_written_format(ex, name, args, path, depth, caller):
    """format! whose arguments are written literals shown with {}: the pieces concatenated"""
    a = deref(args[0])
    if not isinstance(a, FmtArgsV) or not a.args or not all(isinstance(x, FmtArgV) and x.kind == "display" and isinstance(x.v, DecStrV) for x in a.args):
        return NotImplemented
    pieces = decode_template(a.template)
    if pieces is None or sum(1 for q in pieces if q is None) != len(a.args):
        return NotImplemented
    out, it = [], iter(a.args)
    for q in pieces:
        out += [("c", c) for c in q] if q is not None else list(next(it).v.chars)
    return iter([Outcome("return", path, DecStrV(out))])


def install_written_predicates(ex):
    def add(rx, fn):
        ex.handlers.insert(0, (re.compile(rx), fn))
    add(r"^core::str::<impl str>::trim_end_matches::<\{closure@.*\}>$", h_written_trim_end)
    add(r"^core::str::<impl str>::r?find::<\{closure@.*\}>$", h_written_rfind)
    add(r"^(alloc|core)::str::<impl str>::replace::<\{closure@.*\}>$", h_written_replace_pred)
    add(r"^core::str::traits::<impl (core::ops::)?Index<.*> for str>::index$|^<str as (core::ops::)?Index<.*>>::index$|^<(alloc::string::)?String as (core::ops::)?Index<(core::ops::)?Range(To|From)?<usize>>>::index$", h_written_slice)
    add(r"^core::fmt::rt::Argument::<'_>::new_display::<.*>$", h_fmt_arg)
    add(r"^Arguments::<'_>::new::<.*>$", h_fmt_arguments_new)
    add(r"^alloc::fmt::format$", h_written_format)
    add(r"^must_use::<.*>$", h_identity0)
    add(r"^(alloc::string::)?String::len$|^core::str::<impl str>::len$", h_decstr_len)
