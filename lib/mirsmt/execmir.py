"""Symbolic executor for rustc MIR text (engine M), by path enumeration.

Every construct or call it does not know raises Unsupported -> the function is refused (exit 2 at
the check level); nothing is guessed. Integers are mathematical integers with the explicit overflow
asserts of dev-profile MIR; f64 is either exact IEEE (mode 'fp') or the real relaxation (mode 'real')."""
import functools
import re

import time

import z3

from .mirparse import Unsupported, parse_operand, parse_place, split_top, strip_generics
from .values import *  # noqa: F401,F403

BUILTIN_ENUMS = {
    "Option": ["None", "Some"],
    "Result": ["Ok", "Err"],
    "Ordering": ["Less", "Equal", "Greater"],
    "LocalResult": ["None", "Single", "Ambiguous"],
    "ControlFlow": ["Continue", "Break"],
}

ITEM_KINDS = ["NumberItem", "PercentItem", "MoneyItem", "DurationItem", "TimeItem", "DateItem", "DateTimeItem", "DynamicTypeItem"]
ITEM_MODULE = {"NumberItem": "number", "PercentItem": "percent", "MoneyItem": "money", "DurationItem": "duration",
               "TimeItem": "time", "DateItem": "date", "DateTimeItem": "date_time", "DynamicTypeItem": "dynamic_type"}

WRAPPERS = ("alloc::rc::Rc", "Rc", "core::cell::RefCell", "RefCell", "core::cell::Ref", "Ref", "alloc::boxed::Box", "Box",
            "core::cell::Cell", "Cell")

RM = z3.RNE()
F64 = z3.Float64()


@functools.lru_cache(maxsize=200000)
def split_call(t):
    """'[dst = ]callee(args) -> [return: bbN, unwind ...]' -> (dst, callee, argtext, next)"""
    m = re.search(r" -> (?:\[return: (bb\d+), unwind[^\]]*\]|(unwind .*))$", t)
    if not m:
        return None
    nxt = m.group(1) or m.group(2)
    body = t[:m.start()]
    if not body.endswith(")"):
        return None
    depth = 0
    i = len(body) - 1
    while i >= 0:
        if body[i] == ")":
            depth += 1
        elif body[i] == "(":
            depth -= 1
            if depth == 0:
                break
        i -= 1
    if i < 0:
        return None
    head, argtext = body[:i], body[i + 1:-1]
    dst = None
    dm = re.match(r"^(.+?) = (.*)$", head, re.S)
    if dm and re.match(r"^[_(*]", dm.group(1)):
        dst, head = dm.group(1), dm.group(2)
    return dst, head.strip(), argtext, nxt


_RESOLVE_CACHE = {}


class Path:
    """one execution path: path condition + recorded events + stores into symbolic objects"""
    __slots__ = ("pc", "events", "notes", "stores")

    def __init__(self, pc=(), events=(), notes=(), stores=None):
        self.pc = tuple(pc)
        self.events = tuple(events)
        self.notes = tuple(notes)
        self.stores = stores or {}

    def add(self, c):
        return Path(self.pc + (c,), self.events, self.notes, self.stores)

    def event(self, e):
        return Path(self.pc, self.events + (e,), self.notes, self.stores)

    def store(self, obj_path, idx, ty, val):
        st = dict(self.stores)
        st[(obj_path, idx)] = val
        return Path(self.pc, self.events + (("store", obj_path, idx, ty, val),), self.notes, st)


class Outcome:
    __slots__ = ("kind", "value", "path", "msg", "where", "writes")

    def __init__(self, kind, path, value=None, msg="", where="", writes=None):
        self.kind = kind   # 'return' | 'panic'
        self.path = path
        self.value = value
        self.msg = msg
        self.where = where
        self.writes = writes   # {argument index: new value} for &mut arguments that name a caller local

    def __repr__(self):
        return "Outcome(%s %s %s)" % (self.kind, self.value if self.kind == "return" else self.msg, self.where)


@functools.lru_cache(maxsize=100000)
def norm_type(ty):
    ty = ty.strip()
    changed = True
    while changed:
        changed = False
        m = re.match(r"^&(?:'[a-z_0-9]+ )?(?:mut )?(.*)$", ty)
        if m:
            ty = m.group(1).strip()
            changed = True
            continue
        for w in WRAPPERS:
            if ty.startswith(w + "<") and ty.endswith(">"):
                inner = ty[len(w) + 1:-1]
                parts = split_top(inner)
                # Ref<'_, T>
                parts = [p for p in parts if not p.startswith("'")]
                if len(parts) == 1:
                    ty = parts[0].strip()
                    changed = True
                    break
    return ty


def last_seg(path):
    return strip_generics(path).split("::")[-1]


class Inst:
    """a generic function instantiated with concrete type arguments"""

    def __init__(self, fn, tyargs):
        self.fn, self.tyargs = fn, tyargs

    def __getattr__(self, k):
        return getattr(self.fn, k)


class SymV:
    """lazily initialised symbolic object of an enum / struct / dyn type (type-directed by the MIR
    projection annotations)"""

    def __init__(self, ex, path, ty):
        self.ex = ex
        self.path = path
        self.ty = norm_type(ty)
        self._tag = None
        self._fields = {}
        self._payload = {}

    def enum_name(self):
        return last_seg(self.ty.split("<")[0]) if not self.ty.startswith("dyn ") else "dyn"

    def variants(self):
        if self.ty.startswith("dyn "):
            return ITEM_KINDS
        n = self.enum_name()
        v = self.ex.enums.get(n)
        if v is None:
            raise Unsupported("unknown enum type %s" % self.ty)
        return v

    def tag(self):
        if self._tag is None:
            self._tag = z3.Int("%s.tag" % self.path)
            self.ex.inputs["%s.tag" % self.path] = self._tag
            vs = self.variants()
            ds = self.ex.discr_of(self.enum_name(), vs)
            self.ex.domain.append(z3.Or([self._tag == d for d in ds]))
            for bad in self.ex.forbid_variants.get(self.enum_name(), ()):
                if bad in vs:
                    self.ex.domain.append(self._tag != ds[vs.index(bad)])
        return self._tag

    def field(self, idx, ty):
        if idx not in self._fields:
            self._fields[idx] = self.ex.make_sym("%s.%d" % (self.path, idx), ty)
        return self._fields[idx]

    def payload(self, variant):
        if variant not in self._payload:
            self._payload[variant] = SymV(self.ex, "%s.%s" % (self.path, variant), "payload")
        return self._payload[variant]

    def __repr__(self):
        return "Sym(%s: %s)" % (self.path, self.ty)


class Exec:
    def __init__(self, fns, consts, enums, mode="fp", timeout_ms=20000):
        self.fns = fns
        self.consts = consts
        self.enums = dict(BUILTIN_ENUMS)
        self.enums.update(enums)
        self.mode = mode
        self.relerr = False       # real mode: every float operation result carries a relative error |e| <= 2^-53
        self.n_err = 0
        self.domain = []          # constraints that define the domain of lazily created symbols
        self.assumptions = []     # spec-level assumptions
        self.solver = z3.Solver()
        self.solver.set("timeout", timeout_ms)
        self.item_kinds = list(ITEM_KINDS)
        self.handlers = []
        self.n_feas = 0
        self.const_cache = {}
        self.max_paths = 4000
        self.max_depth = 200      # nested calls
        self.max_steps = 400      # basic blocks per function invocation (loops): exceeding it is a refusal, never a pass
        self.deadline = None      # self.clock() value after which the enumeration gives up (reported as inconclusive, never as a pass)
        self.clock = time.time    # sweeps in worker processes use time.process_time: a budget in CPU time does not depend on the load
        self.inputs = {}          # name -> term (for model extraction)
        self.trace_calls = set()
        self.forbid_variants = {"TokenType": ["Variable", "Field"]}
        from . import models
        models.install(self)

    def discr_of(self, enum_name, variants):
        from . import load
        d = load.DISCR.get(enum_name)
        return d if d and len(d) == len(variants) else list(range(len(variants)))

    def discr(self, enum_name, variant):
        vs = self.enums[enum_name]
        return self.discr_of(enum_name, vs)[vs.index(variant)]

    # ------------------------------------------------------------ symbols
    def fsym(self, name):
        if self.mode == "fp":
            t = z3.FP(name, F64)
            self.inputs[name] = t
            return FloatV(t)
        t = z3.Real(name)
        self.inputs[name] = t
        return FloatV(t, z3.BoolVal(False))

    def fconst(self, c):
        if self.mode == "fp":
            return FloatV(z3.FPVal(c, F64))
        from fractions import Fraction
        fr = Fraction(c)
        return FloatV(z3.RealVal(str(fr)) if False else z3.Q(fr.numerator, fr.denominator), z3.BoolVal(False))

    def isym(self, name, bits, signed):
        t = z3.Int(name)
        self.inputs[name] = t
        v = IntV(t, bits, signed)
        self.domain.append(z3.And(t >= v.lo(), t <= v.hi()))
        return v

    def make_sym(self, path, ty):
        t = norm_type(ty)
        if t == "f64":
            return self.fsym(path)
        if t in INT_TYPES:
            return self.isym(path, *INT_TYPES[t])
        if t == "bool":
            b = z3.Bool(path)
            self.inputs[path] = b
            return b
        if t in ("alloc::string::String", "String", "str"):
            s = z3.String(path)
            self.inputs[path] = s
            return StrV(s)
        b = t.split("<")[0]
        ls = b.split("::")[-1]
        if ls in ("TimeDelta", "Duration") and "core::time" not in t:
            s = z3.Int(path + ".secs")
            self.inputs[path + ".secs"] = s
            self.domain.append(z3.And(s >= -(I64_MAX // 1000), s <= I64_MAX // 1000))
            return DurationV(s)
        if ls == "NaiveDate":
            d = z3.Int(path + ".days")
            self.inputs[path + ".days"] = d
            self.domain.append(z3.And(d >= 0, d <= 3652058))   # 0001-01-01 .. 9999-12-31
            return DateV(d)
        if ls == "NaiveTime":
            s = z3.Int(path + ".sod")
            self.inputs[path + ".sod"] = s
            self.domain.append(z3.And(s >= 0, s < 86400))
            return TimeV(s)
        if ls == "NaiveDateTime":
            d = z3.Int(path + ".days")
            s = z3.Int(path + ".sod")
            self.inputs[path + ".days"] = d
            self.inputs[path + ".sod"] = s
            self.domain.append(z3.And(d >= 0, d <= 3652058, s >= 0, s < 86400))
            return DateTimeV(d, s)
        if ls == "CurrencyInfo":
            c = z3.Int(path + ".cur")
            self.inputs[path + ".cur"] = c
            self.domain.append(z3.And(c >= 0, c < 4))
            return CurrencyV(c)
        if t.startswith("(") and t.endswith(")"):
            parts = split_top(t[1:-1])
            return TupleV([self.make_sym("%s.%d" % (path, i), p) for i, p in enumerate(parts)])
        return SymV(self, path, t)

    # ------------------------------------------------------------ feasibility
    def feasible(self, path, extra=None):
        self.n_feas += 1
        if self.deadline is not None and self.clock() > self.deadline:
            raise Unsupported("the time budget of this enumeration is exhausted (unfinished, not a pass)")
        self.solver.push()
        try:
            for c in self.domain:
                self.solver.add(c)
            for c in self.assumptions:
                self.solver.add(c)
            for c in path.pc:
                self.solver.add(c)
            if extra is not None:
                self.solver.add(extra)
            r = self.solver.check()
        finally:
            self.solver.pop()
        return r != z3.unsat   # unknown counts as feasible (sound for refutation of violations: over-approximates paths)

    # ------------------------------------------------------------ float algebra
    def f_bin(self, op, a, b):
        if self.mode == "fp":
            f = {"Add": z3.fpAdd, "Sub": z3.fpSub, "Mul": z3.fpMul, "Div": z3.fpDiv}[op]
            return FloatV(f(RM, a.t, b.t))
        und = z3.Or(a.undef, b.undef)
        if self.relerr and op in ("Add", "Sub", "Mul", "Div"):
            self.n_err += 1
            e = z3.Real("fp_err%d" % self.n_err)
            self.inputs["fp_err%d" % self.n_err] = e
            self.domain.append(z3.And(e >= -z3.Q(1, 2 ** 53), e <= z3.Q(1, 2 ** 53)))
            exact = {"Add": a.t + b.t, "Sub": a.t - b.t, "Mul": a.t * b.t, "Div": a.t / b.t}[op]
            return FloatV(exact * (1 + e), z3.Or(und, b.t == 0) if op == "Div" else und)
        if op == "Add":
            return FloatV(a.t + b.t, und)
        if op == "Sub":
            return FloatV(a.t - b.t, und)
        if op == "Mul":
            return FloatV(a.t * b.t, und)
        if op == "Div":
            return FloatV(a.t / b.t, z3.Or(und, b.t == 0))
        raise Unsupported("float op " + op)

    def f_cmp(self, op, a, b):
        if self.mode == "fp":
            return {"Eq": z3.fpEQ, "Ne": lambda x, y: z3.Not(z3.fpEQ(x, y)), "Lt": z3.fpLT, "Le": z3.fpLEQ, "Gt": z3.fpGT, "Ge": z3.fpGEQ}[op](a.t, b.t)
        return {"Eq": lambda x, y: x == y, "Ne": lambda x, y: x != y, "Lt": lambda x, y: x < y, "Le": lambda x, y: x <= y,
                "Gt": lambda x, y: x > y, "Ge": lambda x, y: x >= y}[op](a.t, b.t)

    def f_neg(self, a):
        if self.mode == "fp":
            return FloatV(z3.fpNeg(a.t))
        return FloatV(-a.t, a.undef)

    def f_is_special(self, a, which):
        if self.mode == "fp":
            return z3.fpIsInf(a.t) if which == "inf" else z3.fpIsNaN(a.t)
        return a.undef if which == "inf" else z3.BoolVal(False)

    def f_to_int(self, a, bits, signed):
        """Rust `as` cast f64 -> integer: truncate toward zero, saturate, NaN -> 0"""
        lo = -(1 << (bits - 1)) if signed else 0
        hi = (1 << (bits - 1)) - 1 if signed else (1 << bits) - 1
        if self.mode == "fp":
            x = a.t
            tr = z3.fpRoundToIntegral(z3.RTZ(), x)
            r = z3.fpToReal(tr)
            i = z3.ToInt(r)
            t = z3.If(z3.fpIsNaN(x), 0, z3.If(z3.fpGEQ(x, z3.FPVal(float(hi + 1), F64)), hi,
                     z3.If(z3.fpLEQ(x, z3.FPVal(float(lo), F64)), lo, i)))
            return IntV(t, bits, signed)
        x = a.t
        tr = z3.If(x >= 0, z3.ToInt(x), -z3.ToInt(-x))
        t = z3.If(x >= hi + 1, hi, z3.If(x <= lo, lo, tr))
        return IntV(t, bits, signed)

    def i_to_float(self, a):
        if self.mode == "fp":
            return FloatV(z3.fpToFP(RM, z3.ToReal(a.t), F64))
        return FloatV(z3.ToReal(a.t), z3.BoolVal(False))

    # ------------------------------------------------------------ integer helpers
    @staticmethod
    def tdiv(a, b):
        """truncated division / remainder of mathematical integers (Rust semantics)"""
        q = z3.If(z3.Or(z3.And(a >= 0, b > 0), z3.And(a <= 0, b < 0)), (z3.If(a >= 0, a, -a)) / (z3.If(b >= 0, b, -b)),
                  -((z3.If(a >= 0, a, -a)) / (z3.If(b >= 0, b, -b))))
        return q

    @staticmethod
    def wrap(t, bits, signed):
        m = 1 << bits
        r = t % m
        if signed:
            r = z3.If(r >= (m >> 1), r - m, r)
        return r

    # ------------------------------------------------------------ constants
    def const_value(self, text, fn):
        text = text.strip()
        m = re.match(r"^(-?[0-9_.]+(?:[eE][+-]?\d+)?)f64$", text)
        if m:
            return self.fconst(float(m.group(1).replace("_", "")))
        m = re.match(r"^(-?[0-9_]+)_(i8|i16|i32|i64|i128|isize|u8|u16|u32|u64|u128|usize)$", text)
        if m:
            return IntV(int(m.group(1).replace("_", "")), *INT_TYPES[m.group(2)])
        if text in ("true", "false"):
            return z3.BoolVal(text == "true")
        if text.startswith('"'):
            return StrV(bytes(text[1:-1], "utf-8").decode("unicode_escape"))
        if text.startswith("'") and text.endswith("'"):
            return IntV(ord(bytes(text[1:-1], "utf-8").decode("unicode_escape")), 32, False)
        if text.startswith("ZeroSized") or text == "()":
            return OpaqueV(text)
        if text.startswith("log::") or text.startswith("log::__private_api"):
            return OpaqueV(text[:40])
        if text.startswith('b"') and text.endswith('"'):
            try:
                return BytesV(bytes(text[2:-1], "latin-1").decode("unicode_escape").encode("latin-1"))
            except (UnicodeError, ValueError):
                return OpaqueV(text[:30])
        if text.startswith('b"') or text in ("RangeFull", "core::ops::RangeFull") or text.startswith("{") or text.startswith("&"):
            return OpaqueV(text[:30])   # byte-string format templates, unit structs, promoted references: never inspected
        if re.match(r"^(chrono::)?NaiveTime::MIN$", text):
            return TimeV(z3.IntVal(0))
        m = re.match(r"^(?:f64::|core::f64::|std::f64::)(?:<impl f64>::|consts::)?(EPSILON|MAX|MIN|INFINITY|NAN)$", text)
        if m:
            import sys
            val = {"EPSILON": sys.float_info.epsilon, "MAX": sys.float_info.max, "MIN": -sys.float_info.max,
                   "INFINITY": float("inf"), "NAN": float("nan")}[m.group(1)]
            return self.fconst(val)
        m = re.match(r"^(?:core::num::)?<impl (i64|i32|u32|u64|usize|isize)>::(MAX|MIN)$", text) or re.match(r"^(i64|i32|u32|u64|usize|isize)::(MAX|MIN)$", text)
        if m:
            bits, signed = INT_TYPES[m.group(1)]
            v = IntV(0, bits, signed)
            return IntV(v.hi() if m.group(2) == "MAX" else v.lo(), bits, signed)
        # named constant of the crate (e.g. formatter::YEAR): evaluate its MIR body
        name = strip_generics(text)
        segs = name.split("::")
        if len(segs) >= 2 and segs[-2] in self.enums and segs[-1] in self.enums[segs[-2]]:
            return EnumV(segs[-2], segs[-1], [])
        pm = re.search(r"(promoted\[\d+\])$", text)
        if pm and (fn.name + "::" + pm.group(1)) in self.consts:
            name = fn.name + "::" + pm.group(1)
        if name not in self.consts and "promoted[" in name:
            # promoted constants are printed with a shorter module path at their definition
            cands = [n for n in self.consts if name.endswith("::" + n) or name == n]
            if len(cands) == 1:
                name = cands[0]
        if name not in self.consts:
            cands = [n for n in self.consts if n.split("::")[-1] == name.split("::")[-1] and "promoted" not in n]
            if len(cands) == 1:
                name = cands[0]
        if name in self.consts:
            if name not in self.const_cache:
                outs = list(self.run(self.consts[name], [], Path()))
                if len(outs) != 1 or outs[0].kind != "return":
                    raise Unsupported("constant %s does not evaluate to one value" % name)
                self.const_cache[name] = outs[0].value
            return self.const_cache[name]
        raise Unsupported("constant %r in %s" % (text, fn.name))

    # ------------------------------------------------------------ places
    def read_place(self, p, env, fn):
        k = p[0]
        if k == "local":
            if p[1] not in env:
                raise Unsupported("read of unassigned %s in %s" % (p[1], fn.name))
            return env[p[1]]
        if k == "deref":
            v = self.read_place(p[1], env, fn)
            while isinstance(v, RefV):
                return v.v
            return v
        if k == "field":
            base = self.read_place(p[1], env, fn)
            return self.project(base, p[2], p[3])
        if k == "downcast":
            base = self.read_place(p[1], env, fn)
            if isinstance(base, RefV):
                base = base.v
            if isinstance(base, EnumV):
                if base.variant != p[2]:
                    raise Unsupported("downcast to %s of %r" % (p[2], base))
                return TupleV(base.f)
            if isinstance(base, SymV):
                return base.payload(p[2])
            raise Unsupported("downcast of %r" % (base,))
        if k in ("index", "constindex"):
            base = self.read_place(p[1], env, fn)
            while isinstance(base, RefV):
                base = base.v
            if k == "index":
                iv = env[p[2]]
                i = z3.simplify(iv.t)
                if not z3.is_int_value(i):
                    raise Unsupported("symbolic index")
                i = i.as_long()
            else:
                i = p[2]
            if isinstance(base, VecV):
                return base.items[i]
            if isinstance(base, TupleV):
                return base.f[i]
            raise Unsupported("index into %r" % (base,))
        raise Unsupported("place kind %s" % k)

    def project(self, base, idx, ty):
        if isinstance(base, RefV):
            base = base.v
        if isinstance(base, TupleV):
            return base.f[idx]
        if isinstance(base, ItemV) and isinstance(base.f, SymV):
            return base.f.field(idx, ty)
        if isinstance(base, StructV):
            cp = getattr(self, "cur_path", None)
            if cp is not None and (base.path, idx) in cp.stores:
                return cp.stores[(base.path, idx)]
        if isinstance(base, (StructV, ItemV)):
            if idx not in base.f:
                raise Unsupported("field %d of %r" % (idx, base))
            return base.f[idx]
        if isinstance(base, SymV):
            cp = getattr(self, "cur_path", None)
            if cp is not None and (base.path, idx) in cp.stores:
                return cp.stores[(base.path, idx)]
            return base.field(idx, ty)
        if isinstance(base, CurrencyV):
            # CurrencyInfo fields as functions of the currency identity; field 0 (code) is injective
            t = norm_type(ty)
            if idx == 0:
                code = z3.Function("currency.code", z3.IntSort(), z3.StringSort())
                ids = getattr(self, "_currency_ids", [])
                key = base.id.sexpr()
                if key not in [i.sexpr() for i in ids]:
                    for other in ids:   # CurrencyInfo's Eq/Ord compare the code: identity <=> equal code
                        self.domain.append((base.id == other) == (code(base.id) == code(other)))
                    ids.append(base.id)
                    self._currency_ids = ids
                return StrV(code(base.id))
            if t in ("alloc::string::String", "String", "str"):
                return StrV(z3.Function("currency.f%d" % idx, z3.IntSort(), z3.StringSort())(base.id))
            if t == "bool":
                return z3.Function("currency.f%d" % idx, z3.IntSort(), z3.BoolSort())(base.id)
            if t in INT_TYPES:
                bits, signed = INT_TYPES[t]
                term = z3.Function("currency.f%d" % idx, z3.IntSort(), z3.IntSort())(base.id)
                v = IntV(term, bits, signed)
                self.domain.append(z3.And(term >= v.lo(), term <= v.hi()))
                return v
            raise Unsupported("CurrencyInfo field %d: %s" % (idx, ty))
        if isinstance(base, DurationV) and idx == 0:
            return IntV(base.secs, 64, True)
        raise Unsupported("projection .%d of %r" % (idx, base))

    def write_place(self, p, val, env, fn):
        k = p[0]
        if k == "local":
            env[p[1]] = val
            return
        if k == "field":
            base = self.read_place(p[1], env, fn)
            if isinstance(base, TupleV):
                nb = TupleV(base.f)
                nb.f[p[2]] = val
            elif isinstance(base, StructV):
                nb = StructV(base.name, base.f)
                nb.f[p[2]] = val
            else:
                raise Unsupported("field write into %r" % (base,))
            self.write_place(p[1], nb, env, fn)
            return
        if k == "deref":
            raise Unsupported("write through reference in %s" % fn.name)
        raise Unsupported("write place %s" % (p,))

    def operand(self, o, env, fn):
        if o[0] == "fnitem":
            return FnPtrV(o[1])
        if o[0] in ("copy", "move"):
            return self.read_place(o[1], env, fn)
        return self.const_value(o[1], fn)

    # ------------------------------------------------------------ rvalues
    BINOPS = ("AddWithOverflow", "SubWithOverflow", "MulWithOverflow", "AddUnchecked", "SubUnchecked", "MulUnchecked",
              "Add", "Sub", "Mul", "Div", "Rem", "Eq", "Ne", "Lt", "Le", "Gt", "Ge", "BitAnd", "BitOr", "BitXor", "Shl", "Shr", "Cmp")

    def rvalue(self, s, env, fn):
        s = s.strip()
        if s.startswith("no_retag "):
            s = s[len("no_retag "):]
        m = re.match(r"^(.*) as (.+) \(PointerCoercion\(ReifyFnPointer.*\)\)$", s, re.S)
        if m and not s.startswith(("copy ", "move ", "const ")):
            return FnPtrV(m.group(1).strip())
        if s.startswith(("copy ", "move ", "const ")):
            # may be a cast: "copy _1 as T (Kind)"
            m = re.match(r"^((?:copy|move) .+?|const .+?) as (.+) \((\w+(?:\([^)]*\))?)\)$", s)
            if m:
                return self.cast(self.operand(parse_operand(m.group(1)), env, fn), m.group(2), m.group(3), fn)
            return self.operand(parse_operand(s), env, fn)
        m = re.match(r"^&(?:raw (?:const|mut) )?(?:mut )?(.*)$", s)
        if m and not s.startswith("&&"):
            pl = parse_place(m.group(1))
            loc = None
            if pl[0] == "field":
                base = self.read_place(pl[1], env, fn)
                while isinstance(base, RefV):
                    base = base.v
                if isinstance(base, (SymV, StructV)):
                    loc = (base.path, pl[2])
            if pl[0] == "deref" and pl[1][0] == "local" and isinstance(env.get(pl[1][1]), RefV) and env[pl[1][1]].slot and env[pl[1][1]].frame is not None:
                return env[pl[1][1]]        # a reborrow of a reference to some frame's local is that same reference
            return RefV(self.read_place(pl, env, fn), pl[1] if pl[0] == "local" else None, loc, frame=env.get("~frame") if pl[0] == "local" else None)
        m = re.match(r"^discriminant\((.*)\)$", s)
        if m:
            return self.discriminant(self.read_place(parse_place(m.group(1)), env, fn))
        m = re.match(r"^(\w+)\((.*)\)$", s)
        if m and m.group(1) in self.BINOPS:
            a, b = [self.operand(parse_operand(x), env, fn) for x in split_top(m.group(2))]
            return self.binop(m.group(1), a, b)
        if m and m.group(1) in ("PtrMetadata", "Len"):
            txt = m.group(2)
            v = self.operand(parse_operand(txt), env, fn) if txt.startswith(("copy ", "move ", "const ")) else self.read_place(parse_place(txt), env, fn)
            while isinstance(v, RefV):
                v = v.v
            if isinstance(v, VecV):
                return IntV(len(v.items), 64, False)
            if isinstance(v, TupleV):
                return IntV(len(v.f), 64, False)
            raise Unsupported("%s of %r" % (m.group(1), v))
        if m and m.group(1) in ("Not", "Neg"):
            a = self.operand(parse_operand(m.group(2)), env, fn)
            if m.group(1) == "Not":
                if z3.is_bool(a):
                    return z3.Not(a)
                raise Unsupported("bitwise Not")
            if isinstance(a, FloatV):
                return self.f_neg(a)
            return IntV(-a.t, a.bits, a.signed)
        if s.startswith("(") and s.endswith(")"):
            inner = s[1:-1].strip()
            if not inner:
                return UNIT
            return TupleV([self.operand(parse_operand(x), env, fn) for x in split_top(inner)])
        if s.startswith("[") and s.endswith("]"):
            return VecV([self.operand(parse_operand(x), env, fn) for x in split_top(s[1:-1])])
        return self.aggregate(s, env, fn)

    def aggregate(self, s, env, fn):
        if s.startswith("{closure@"):
            m2 = re.match(r"^\{closure@[^}]*\} \{(.*)\}$", s, re.S)
            fields = []
            if m2:
                for part in split_top(m2.group(1)):
                    fm = re.match(r"^\w+: (.*)$", part.strip(), re.S)
                    fields.append(self.operand(parse_operand(fm.group(1)), env, fn))
            return StructV("closure", fields)
        fields = None
        head = None
        if s.endswith(")"):
            depth, i = 0, len(s) - 1
            while i >= 0:
                if s[i] == ")":
                    depth += 1
                elif s[i] == "(":
                    depth -= 1
                    if depth == 0:
                        break
                i -= 1
            if i > 0:
                head, inner = s[:i], s[i + 1:-1]
        if head is not None:
            path = strip_generics(head)
            fields = [self.operand(parse_operand(x), env, fn) for x in split_top(inner)]
        else:
            m2 = re.match(r"^(.*?) \{(.*)\}$", s, re.S)
            if m2:
                path = strip_generics(m2.group(1))
                fields = []
                for part in split_top(m2.group(2)):
                    fm = re.match(r"^\w+: (.*)$", part.strip(), re.S)
                    fields.append(self.operand(parse_operand(fm.group(1)), env, fn))
            else:
                path = strip_generics(s)
                fields = []
        segs = path.split("::")
        name = segs[-1]
        if len(segs) >= 2 and segs[-2] in self.enums and name in self.enums[segs[-2]]:
            return EnumV(segs[-2], name, fields)
        if name in ITEM_KINDS:
            return ItemV(name, fields)
        if re.match(r"^[A-Z]", name):
            return StructV(name, fields)
        raise Unsupported("aggregate %r in %s" % (s, fn.name))

    def discriminant(self, v):
        if isinstance(v, RefV):
            v = v.v
        if isinstance(v, EnumV):
            return IntV(self.discr(v.enum, v.variant), 64, True)
        if isinstance(v, SymV):
            return IntV(v.tag(), 64, True)
        raise Unsupported("discriminant of %r" % (v,))

    def binop(self, op, a, b):
        if isinstance(a, FloatV):
            if op in ("Add", "Sub", "Mul", "Div"):
                return self.f_bin(op, a, b)
            if op in ("Eq", "Ne", "Lt", "Le", "Gt", "Ge"):
                return self.f_cmp(op, a, b)
            raise Unsupported("float binop " + op)
        if z3.is_bool(a) if not isinstance(a, IntV) else False:
            if op == "Eq":
                return a == b
            if op == "Ne":
                return a != b
            if op == "BitAnd":
                return z3.And(a, b)
            if op == "BitOr":
                return z3.Or(a, b)
            if op == "BitXor":
                return z3.Xor(a, b)
            raise Unsupported("bool binop " + op)
        if isinstance(a, IntV):
            if not isinstance(b, IntV):
                raise Unsupported("binop %s on %r and %r" % (op, a, b))
            x, y = a.t, b.t
            if op in ("AddWithOverflow", "SubWithOverflow", "MulWithOverflow"):
                r = {"Add": x + y, "Sub": x - y, "Mul": x * y}[op[:3]]
                ov = z3.Or(r < a.lo(), r > a.hi())
                return TupleV([IntV(r, a.bits, a.signed), ov])
            if op in ("Add", "Sub", "Mul", "AddUnchecked", "SubUnchecked", "MulUnchecked"):
                r = {"Add": x + y, "Sub": x - y, "Mul": x * y}[op[:3]]
                if op.endswith("Unchecked"):
                    return IntV(r, a.bits, a.signed)
                return IntV(self.wrap(r, a.bits, a.signed), a.bits, a.signed)
            if op == "Div":
                return IntV(self.tdiv(x, y), a.bits, a.signed)
            if op == "Rem":
                return IntV(x - self.tdiv(x, y) * y, a.bits, a.signed)
            if op in ("Eq", "Ne", "Lt", "Le", "Gt", "Ge"):
                return {"Eq": x == y, "Ne": x != y, "Lt": x < y, "Le": x <= y, "Gt": x > y, "Ge": x >= y}[op]
            raise Unsupported("int binop " + op)
        raise Unsupported("binop %s on %r" % (op, a))

    def cast(self, v, ty, kind, fn):
        t = norm_type(ty)
        if kind.startswith("PointerCoercion") or kind in ("Transmute", "PtrToPtr"):
            return v
        if kind == "FloatToInt":
            return self.f_to_int(v, *INT_TYPES[t])
        if kind == "IntToFloat":
            return self.i_to_float(v)
        if kind == "IntToInt":
            bits, signed = INT_TYPES[t]
            if isinstance(v, IntV):
                if v.lo() >= -(1 << (bits - 1)) * (1 if signed else 0) and v.hi() <= ((1 << (bits - 1)) - 1 if signed else (1 << bits) - 1):
                    return IntV(v.t, bits, signed)
                return IntV(self.wrap(v.t, bits, signed), bits, signed)
            if z3.is_bool(v):
                return IntV(z3.If(v, 1, 0), bits, signed)
        raise Unsupported("cast %s to %s in %s" % (kind, ty, fn.name))

    # ------------------------------------------------------------ execution
    def run(self, fn, args, path, depth=0):
        """generator of Outcomes for calling fn with args on path"""
        if depth > self.max_depth:
            raise Unsupported("call depth")
        env = {}
        for (l, _), a in zip(fn.args, args):
            env[l] = a
        if len(args) != len(fn.args):
            raise Unsupported("arity of %s" % fn.name)
        self._frames = getattr(self, "_frames", 0) + 1
        env["~frame"] = self._frames
        yield from self.block(fn, "bb0", env, path, depth, 0)

    def block(self, fn, bb, env, path, depth, steps):
        if steps > self.max_steps:
            raise Unsupported("block budget exceeded in %s (loop?)" % fn.name)
        if self.deadline is not None and self.clock() > self.deadline:
            raise Unsupported("the time budget of this enumeration is exhausted (unfinished, not a pass)")
        stmts = fn.blocks[bb]
        env = dict(env)
        for st in stmts[:-1]:
            self.cur_path = path
            path = self.statement(st, env, fn, path)
        self.cur_path = path
        yield from self.terminator(stmts[-1], fn, env, path, depth, steps + 1)

    def statement(self, st, env, fn, path):
        if st.startswith(("StorageLive", "StorageDead", "nop", "FakeRead", "AscribeUserType", "Retag", "PlaceMention", "Coverage", "ConstEvalCounter")):
            return path
        m = re.match(r"^(.+?) = (.*)$", st, re.S)
        if not m:
            raise Unsupported("statement %r in %s" % (st, fn.name))
        val = self.rvalue(m.group(2), env, fn)
        pl = parse_place(m.group(1))
        if pl[0] == "field" and pl[1][0] == "deref":
            base = self.read_place(pl[1], env, fn)
            if isinstance(base, (SymV, StructV)):
                return path.store(base.path, pl[2], pl[3], val)
            raise Unsupported("store through a reference to %r in %s" % (base, fn.name))
        if pl[0] == "field" and pl[1][0] == "field":
            root = pl
            while root[0] == "field":
                root = root[1]
            if root[0] == "deref":
                base = self.read_place(pl[1], env, fn)
                if isinstance(base, SymV):
                    return path.store(base.path, pl[2], pl[3], val)
        if pl[0] == "deref" and pl[1][0] == "local":
            ref = env.get(pl[1][1])
            loc = None
            r = ref
            while isinstance(r, RefV):
                if r.loc is not None:
                    loc = r.loc
                    break
                r = r.v
            if loc is not None:
                return path.store(loc[0], loc[1], "deref-assign", val)
        self.write_place(pl, val, env, fn)
        return path

    def terminator(self, t, fn, env, path, depth, steps):
        self.cur_path = path
        if t == "return":
            yield Outcome("return", path, env.get("_0", UNIT))
            return
        if t == "unreachable":
            return
        if t.startswith("resume") or t.startswith("terminate"):
            return
        m = re.match(r"^goto -> (bb\d+)$", t)
        if m:
            yield from self.block(fn, m.group(1), env, path, depth, steps)
            return
        m = re.match(r"^drop\((.*)\) -> \[return: (bb\d+), unwind.*\]$", t)
        if m:
            # dropping a RefMut releases the exclusive borrow recorded by RefCell::borrow_mut (models.h_borrow_mut_tracked)
            ty = fn.locals.get(m.group(1).strip(), "")
            if ty.startswith(("RefMut<", "core::cell::RefMut<", "std::cell::RefMut<")):
                v = env.get(m.group(1).strip())
                loc, r = None, v
                while isinstance(r, RefV):
                    if r.loc is not None:
                        loc = r.loc
                        break
                    r = r.v
                if loc is not None and path.stores.get(("~borrow", loc)) == "mut":
                    path = path.store("~borrow", loc, "borrow", None)
            yield from self.block(fn, m.group(2), env, path, depth, steps)
            return
        m = re.match(r"^switchInt\((.*)\) -> \[(.*)\]$", t)
        if m:
            v = self.operand(parse_operand(m.group(1)), env, fn)
            targets = []
            for part in m.group(2).split(", "):
                k, bb = part.split(": ")
                targets.append((k, bb))
            yield from self.switch(v, targets, fn, env, path, depth, steps)
            return
        m = re.match(r"^assert\((!?)(.*?), (\".*\")(?:, .*)?\) -> \[success: (bb\d+), unwind.*\]$", t, re.S)
        if m:
            c = self.operand(parse_operand(m.group(2)), env, fn)
            cond = z3.Not(c) if m.group(1) else c
            ok = path.add(cond)
            bad = path.add(z3.Not(cond))
            if self.feasible(bad):
                yield Outcome("panic", bad, msg="assert: " + m.group(3)[:80], where=fn.name)
            if self.feasible(ok):
                yield from self.block(fn, m.group(4), env, ok, depth, steps)
            return
        m = split_call(t)
        if m:
            dst, callee, argtext, nxt = m
            im = re.match(r"^(?:move|copy) (_\d+)$", callee)
            if im:
                fp = env.get(im.group(1))
                if not isinstance(fp, FnPtrV):
                    raise Unsupported("indirect call through %r in %s" % (fp, fn.name))
                callee = fp.name
            args = [self.operand(parse_operand(x), env, fn) for x in split_top(argtext)] if argtext.strip() else []
            for out in self.call(callee, args, path, depth, fn):
                if out.kind == "panic":
                    yield out
                    continue
                if not nxt.startswith("bb"):
                    continue  # diverging call returned?
                env2 = dict(env)
                opath = out.path
                if out.writes:
                    for idx, newv in out.writes.items():
                        a = args[idx]
                        if isinstance(a, RefV) and a.slot:
                            if a.frame is None or a.frame == env.get("~frame"):
                                env2[a.slot] = newv
                            else:
                                # the local lives in a frame further up: parked in the path until that frame resumes
                                opath = opath.store("~frame%d" % a.frame, a.slot, "local", newv)
                        else:
                            raise Unsupported("write-back through a reference that is not a caller local")
                mine = "~frame%d" % env.get("~frame", 0)
                parked = [k for k in opath.stores if k[0] == mine]
                if parked:
                    st = dict(opath.stores)
                    for k in parked:
                        env2[k[1]] = st.pop(k)
                    opath = Path(opath.pc, opath.events, opath.notes, st)
                if opath is not out.path:
                    out = Outcome(out.kind, opath, out.value, out.msg, out.where, None)
                if dst:
                    self.write_place(parse_place(dst), out.value, env2, fn)
                yield from self.block(fn, nxt, env2, out.path, depth, steps)
            return
        raise Unsupported("terminator %r in %s" % (t, fn.name))

    def switch(self, v, targets, fn, env, path, depth, steps):
        if z3.is_bool(v) if not isinstance(v, IntV) else False:
            term_is = lambda k: (z3.Not(v) if k == "0" else v)
        elif isinstance(v, IntV):
            term_is = lambda k: (v.t == int(k))
        else:
            raise Unsupported("switchInt on %r" % (v,))
        seen = []
        for k, bb in targets:
            if k == "otherwise":
                cond = z3.And([z3.Not(c) for c in seen]) if seen else z3.BoolVal(True)
            else:
                cond = term_is(k)
                seen.append(cond)
            cond = z3.simplify(cond)
            if z3.is_false(cond):
                continue
            p2 = path if z3.is_true(cond) else path.add(cond)
            if z3.is_true(cond) or self.feasible(p2):
                yield from self.block(fn, bb, env, p2, depth, steps)

    # ------------------------------------------------------------ calls
    def call(self, callee, args, path, depth, caller):
        name = callee.strip()
        m = re.match(r"^(?:move|copy) (_\d+)$", name)
        if m:
            raise Unsupported("indirect call through %s must be resolved by the terminator" % name)
        tyargs = getattr(caller, "tyargs", None)
        if tyargs:
            sub = {"T": tyargs[0]}
            if len(tyargs) > 1:
                sub["U"] = tyargs[1]
            name = re.sub(r"(?<![\w:])(&?)(T|U)(?![\w:])", lambda m_: sub.get(m_.group(2), m_.group(2)), name)
        for rx, h in self.handlers:
            if rx.search(name):
                res = h(self, name, args, path, depth, caller)
                if res is NotImplemented:
                    continue
                yield from res
                return
        ck = (id(self.fns), name)
        if ck in _RESOLVE_CACHE:
            target = _RESOLVE_CACHE[ck]
        else:
            target = self._resolve(name)
            _RESOLVE_CACHE[ck] = target
        if target is not None:
            gm = re.search(r"::<(.*)>$", name)
            if gm and not name.startswith("<"):
                target = Inst(target, [last_seg(a) for a in split_top(gm.group(1))])
            yield from self.run(target, args, path, depth + 1)
            return
        raise Unsupported("call %s (from %s)" % (name, caller.name))

    def _resolve(self, name):
        plain = strip_generics(name)
        target = self.fns.get(name) or self.fns.get(plain)
        if target is None:
            # functions are printed without crate prefix; try suffix match on plain names
            cands = [f for n, f in self.fns.items() if strip_generics(n) == plain]
            if len(cands) == 1:
                target = cands[0]
        if target is None:
            # inherent method `Type::method` -> `module::<impl at file:..>::method` with a matching self type
            m = re.match(r"^(?:[\w:]+::)?(\w+)::(\w+)$", plain)
            if m:
                ty, meth = m.group(1), m.group(2)
                cands = []
                self.trait_impl("<X as Y>::z")   # builds the impl index
                for n, f in self.fns.items():
                    im = re.search(r"<impl at ([^:>]+):(\d+):\d+: [^>]*>::(\w+)$", n)
                    if im and im.group(3) == meth and self._impl_index.get((im.group(1), int(im.group(2)))) == (None, ty):
                        cands.append(f)
                if len(cands) == 1:
                    target = cands[0]
                cands = []
                for n, f in self.fns.items():
                    if re.search(r"<impl at [^>]*>::%s$" % re.escape(meth), n):
                        if f.args and norm_type(f.args[0][1]).split("<")[0].split("::")[-1] == ty:
                            cands.append(f)
                        elif f.ret and norm_type(f.ret).split("<")[0].split("::")[-1] == ty and not f.args:
                            cands.append(f)
                if target is None and len(cands) == 1:
                    target = cands[0]
        if target is None:
            target = self.trait_impl(name)
        return target

    def trait_impl(self, name):
        """`<Type as Trait>::method` -> the function of `impl Trait for Type` (Self type read from the source line
        the MIR's `<impl at file:line:..>` points to)"""
        m = re.match(r"^<&?(?:(?:alloc::rc::)?Rc<)?([\w:]+)>? as ([\w:]+)(?:<&?(?:(?:alloc::rc::)?Rc<)?([\w:]+)>?>)?>::(\w+)$", name.replace("::<'_>", "").replace("<'_>", ""))
        if not m:
            return None
        ty, trait, targ, meth = last_seg(m.group(1)), last_seg(m.group(2)), (last_seg(m.group(3)) if m.group(3) else None), m.group(4)
        idx = getattr(self, "_impl_index", None)
        if idx is None:
            idx = {}
            import common, os
            for n in self.fns:
                im = re.search(r"<impl at ([^:>]+):(\d+):\d+: [^>]*>::(\w+)$", n)
                if not im:
                    continue
                key = (im.group(1), int(im.group(2)))
                if key not in idx:
                    try:
                        line = open(os.path.join(common.REPO, im.group(1)), errors="replace").read().split("\n")[key[1] - 1]
                    except (OSError, IndexError):
                        line = ""
                    hm = re.match(r"\s*impl(?:<[^>]*>)?\s+(?:([\w:]+)(?:<([^>]*)>)?\s+for\s+)?([\w:]+)", line)
                    idx[key] = (last_seg(hm.group(1)) if hm and hm.group(1) else None, last_seg(hm.group(3)) if hm else None)
                    self._impl_targ = getattr(self, "_impl_targ", {})
                    self._impl_targ[key] = last_seg(hm.group(2)) if hm and hm.group(2) else None
            self._impl_index = idx
        cands = []
        for n, f in self.fns.items():
            im = re.search(r"<impl at ([^:>]+):(\d+):\d+: [^>]*>::(\w+)$", n)
            if im and im.group(3) == meth and idx.get((im.group(1), int(im.group(2)))) == (trait, ty):
                cands.append((f, getattr(self, "_impl_targ", {}).get((im.group(1), int(im.group(2))))))
        if len(cands) > 1:
            cands = [c for c in cands if c[1] == targ]
        return cands[0][0] if len(cands) == 1 else None

    def ret(self, path, value):
        yield Outcome("return", path, value)

    def ret_w(self, path, value, writes):
        yield Outcome("return", path, value, writes=writes)

    def ret_panic(self, path, msg, where):
        yield Outcome("panic", path, msg=msg, where=where)
