"""Value domain of the MIR symbolic executor (engine M)."""
import z3

I64_MAX = (1 << 63) - 1
I64_MIN = -(1 << 63)


class IntV:
    """machine integer as a mathematical integer term + its type (dev-profile MIR checks overflow
    explicitly, so on a surviving path the mathematical value is the machine value)"""
    __slots__ = ("t", "bits", "signed")

    def __init__(self, t, bits, signed):
        self.t = t if z3.is_expr(t) else z3.IntVal(int(t))
        self.bits = bits
        self.signed = signed

    def lo(self):
        return -(1 << (self.bits - 1)) if self.signed else 0

    def hi(self):
        return (1 << (self.bits - 1)) - 1 if self.signed else (1 << self.bits) - 1

    def __repr__(self):
        return "IntV(%s,%s%d)" % (self.t, "i" if self.signed else "u", self.bits)


INT_TYPES = {
    "i8": (8, True), "i16": (16, True), "i32": (32, True), "i64": (64, True), "i128": (128, True), "isize": (64, True),
    "u8": (8, False), "u16": (16, False), "u32": (32, False), "u64": (64, False), "u128": (128, False), "usize": (64, False),
}


class FloatV:
    """f64. mode 'fp': t is a z3 FP term. mode 'real': t is a z3 Real term and `undef` a Bool that is true
    when an IEEE evaluation would have produced NaN/inf through a zero divisor (real relaxation)."""
    __slots__ = ("t", "undef")

    def __init__(self, t, undef=None):
        self.t = t
        self.undef = undef

    def __repr__(self):
        return "FloatV(%s)" % (self.t,)


class StrV:
    __slots__ = ("t",)

    def __init__(self, t):
        self.t = t  # python str or z3 String term

    def is_concrete(self):
        return isinstance(self.t, str)

    def term(self):
        return z3.StringVal(self.t) if isinstance(self.t, str) else self.t

    def __repr__(self):
        return "StrV(%r)" % (self.t,)


class TupleV:
    __slots__ = ("f",)

    def __init__(self, f):
        self.f = list(f)

    def __repr__(self):
        return "TupleV%r" % (self.f,)


_OID = [0]


class StructV:
    __slots__ = ("name", "f", "path")

    def __init__(self, name, f, path=None):
        self.name = name
        self.f = dict(f) if isinstance(f, dict) else {i: v for i, v in enumerate(f)}
        if path is None:
            _OID[0] += 1
            path = "#%d" % _OID[0]
        self.path = path   # object identity for stores through references

    def __repr__(self):
        return "%s%r" % (self.name, self.f)


class EnumV:
    """enum value with a concrete variant"""
    __slots__ = ("enum", "variant", "f")

    def __init__(self, enum, variant, f=()):
        self.enum = enum
        self.variant = variant
        self.f = list(f)

    def __repr__(self):
        return "%s::%s%r" % (self.enum, self.variant, self.f)


class RefV:
    __slots__ = ("v", "slot", "loc", "entry", "frame")

    def __init__(self, v, slot=None, loc=None, entry=None, frame=None):
        self.v = v
        self.frame = frame # id of the call frame whose local `slot` names (a reference can be handed down several calls)
        self.slot = slot   # name of the caller's local this reference was taken from (for &mut write-back)
        self.loc = loc     # (object id, field index) when the reference points into an object's field (heap store)
        self.entry = entry # (reference to the owning map, key) when the reference points at a map's value (get_mut)

    def __repr__(self):
        return "&%r" % (self.v,)


class OpaqueV:
    __slots__ = ("what",)

    def __init__(self, what):
        self.what = what

    def __repr__(self):
        return "Opaque(%s)" % self.what


class TypeIdV:
    __slots__ = ("name",)

    def __init__(self, name):
        self.name = name


class UnitV:
    def __repr__(self):
        return "()"


UNIT = UnitV()


# --- chrono models (validated against the real chrono by engine K harnesses) ---
class DurationV:
    """chrono::TimeDelta with nanos == 0: whole seconds"""
    __slots__ = ("secs",)

    def __init__(self, secs):
        self.secs = secs  # z3 Int

    def __repr__(self):
        return "Duration(%s s)" % (self.secs,)


class DateV:
    """chrono::NaiveDate as days since 0001-01-01 (day 0), proleptic Gregorian"""
    __slots__ = ("days",)

    def __init__(self, days):
        self.days = days


class TimeV:
    """chrono::NaiveTime with nanos == 0: seconds since midnight 0..86399"""
    __slots__ = ("secs",)

    def __init__(self, secs):
        self.secs = secs


class DateTimeV:
    """chrono::NaiveDateTime as (DateV.days, TimeV.secs)"""
    __slots__ = ("days", "secs")

    def __init__(self, days, secs):
        self.days = days
        self.secs = secs

    def total(self):
        return self.days * 86400 + self.secs


class CurrencyV:
    """Rc<CurrencyInfo>: identified by an integer id (CurrencyInfo's Eq/Ord compare the code only)"""
    __slots__ = ("id",)

    def __init__(self, id_):
        self.id = id_

    def __repr__(self):
        return "Currency(%s)" % (self.id,)


class ItemV:
    """a `dyn DataItem` / concrete DataItem struct: kind in NumberItem, PercentItem, MoneyItem, DurationItem,
    TimeItem, DateItem, DateTimeItem, DynamicTypeItem; f: field values by index"""
    __slots__ = ("kind", "f")

    def __init__(self, kind, f):
        self.kind = kind
        if isinstance(f, dict):
            self.f = dict(f)
        elif isinstance(f, (list, tuple)):
            self.f = {i: v for i, v in enumerate(f)}
        else:
            self.f = f   # a lazily initialised symbolic payload (execmir.SymV)

    def __repr__(self):
        return "%s%r" % (self.kind, self.f)


class FnPtrV:
    """a reified function pointer"""
    __slots__ = ("name",)

    def __init__(self, name):
        self.name = name

    def __repr__(self):
        return "fn(%s)" % self.name


class VecV:
    """Vec<T> / slice with a concrete length: python list of element values"""
    __slots__ = ("items",)

    def __init__(self, items):
        self.items = list(items)

    def __repr__(self):
        return "Vec%r" % (self.items,)


class IterV:
    """slice / vector / map iterator (optionally enumerated, optionally yielding owned values)"""
    __slots__ = ("items", "idx", "enum", "owned", "base")

    def __init__(self, items, idx=0, enum=False, owned=False, base=0):
        self.items, self.idx, self.enum, self.owned, self.base = items, idx, enum, owned, base


class MapC:
    """a BTreeMap with concrete string keys (session variables): sorted python dict semantics"""
    __slots__ = ("d",)

    def __init__(self, d=None):
        self.d = dict(d or {})

    def __repr__(self):
        return "MapC%r" % (sorted(self.d),)


class TextV:
    """a text as lines (StrV without CR/LF) joined by separators from {"\\n", "\\r\\n"}: the input of Session::set_text"""
    __slots__ = ("lines", "seps")

    def __init__(self, lines, seps):
        self.lines, self.seps = list(lines), list(seps)

    def __repr__(self):
        return "TextV(%d lines, seps=%r)" % (len(self.lines), self.seps)


class RegexV:
    __slots__ = ("pattern",)

    def __init__(self, pattern):
        self.pattern = pattern


class DecStrV(StrV):
    """the text of a rendered number: a fixed number of characters, each a concrete char or a symbolic decimal digit"""
    __slots__ = ("chars",)

    def __init__(self, chars):
        # chars: list of ("c", "x") | ("d", z3 Int term in 0..9)
        self.chars = list(chars)
        parts = [z3.StringVal(c[1]) if c[0] == "c" else z3.StrFromCode(48 + c[1]) for c in self.chars]
        self.t = parts[0] if len(parts) == 1 else (z3.Concat(*parts) if parts else "")

    def __repr__(self):
        return "DecStrV(%d chars)" % len(self.chars)


class CharsV:
    __slots__ = ("chars", "idx")

    def __init__(self, chars, idx=0):
        self.chars, self.idx = chars, idx


class FmtArgV:
    __slots__ = ("kind", "v")

    def __init__(self, kind, v):
        self.kind, self.v = kind, v


class FmtArgsV:
    __slots__ = ("template", "args")

    def __init__(self, template, args):
        self.template, self.args = template, args


class BytesV(OpaqueV):
    """a byte-string constant (format templates)"""
    __slots__ = ("b",)

    def __init__(self, b):
        self.what = "bytes"
        self.b = b


class CharIntV(IntV):
    """a char taken out of a written literal: its code point plus the literal's own description of it"""
    __slots__ = ("src",)

    def __init__(self, t, src):
        IntV.__init__(self, t, 32, False)
        self.src = src
