"""Parser for rustc's `-Zunpretty=mir` text (the subset the translator understands).
Anything it cannot parse raises Unsupported; the translator then refuses the function (no verdict)."""
import functools
import re


class Unsupported(Exception):
    pass


class Function:
    def __init__(self, name, args, ret, header):
        self.name = name
        self.args = args            # [(local, type)]
        self.ret = ret
        self.header = header
        self.locals = {}            # local -> type
        self.blocks = {}            # bb -> [stmt strings] (last one is the terminator)
        self.cleanup = set()
        self.span = None            # impl location for trait impls


FN_RE = re.compile(r"^fn (.*?)\(((?:_\d+: .*)?)\)(?: -> (.*))? \{$")
CONST_RE = re.compile(r"^(?:const|static) (.*?): (.*?) = \{$")
LET_RE = re.compile(r"^\s*let (?:mut )?(_\d+): (.*);$")
BB_RE = re.compile(r"^    (bb\d+)( \(cleanup\))?: \{$")


def split_top(s, sep=","):
    return list(_split_top(s, sep))


@functools.lru_cache(maxsize=200000)
def _split_top(s, sep=","):
    out, depth, cur = [], 0, ""
    i = 0
    in_str = False
    while i < len(s):
        ch = s[i]
        if in_str:
            cur += ch
            if ch == "\\":
                cur += s[i + 1]
                i += 1
            elif ch == '"':
                in_str = False
        elif ch == '"':
            in_str = True
            cur += ch
        elif ch == "'" and s.startswith("const ", max(0, i - 6), i) and i + 2 < len(s) and (s[i + 2] == "'" or (s[i + 1] == "\\" and "'" in s[i + 2:i + 12])):
            # a char constant (const ',' / const '(' / const '\n'): copy it whole; lifetimes ('_ , 'a) never follow "const "
            j = s.index("'", i + 2) if s[i + 1] != "\\" else s.index("'", i + 3)
            cur += s[i:j + 1]
            i = j
        elif ch in "([{<":
            # '<' only counts as a bracket in type/path position; "->" and comparison never occur inside operand lists
            depth += 1
            cur += ch
        elif ch in ")]}>":
            if ch == ">" and i > 0 and s[i - 1] == "-":
                cur += ch
            else:
                depth -= 1
                cur += ch
        elif ch == sep and depth == 0:
            out.append(cur.strip())
            cur = ""
        else:
            cur += ch
        i += 1
    if cur.strip():
        out.append(cur.strip())
    return tuple(out)


def parse(text):
    """returns (functions: name -> Function, consts: name -> Function)"""
    fns, consts = {}, {}
    cur = None
    cur_bb = None
    for raw in text.split("\n"):
        line = raw.rstrip()
        if cur is None:
            m = None
            if line.startswith("fn ") and line.endswith(" {"):
                i = line.find("(_1: ")
                if i < 0:
                    i = line.find("()")
                if i >= 0:
                    try:
                        j = _match_paren(line, i)
                        rest = line[j + 1:-2].strip()
                        m = (line[3:i], line[i + 1:j], rest[3:].strip() if rest.startswith("->") else None)
                    except Unsupported:
                        m = None
            if m:
                name, args, ret = m
                alist = []
                if args:
                    for a in split_top(args):
                        am = re.match(r"(_\d+): (.*)$", a)
                        alist.append((am.group(1), am.group(2)))
                cur = Function(name, alist, ret or "()", line)
                for l, t in alist:
                    cur.locals[l] = t
                cur.locals["_0"] = ret or "()"
                fns.setdefault(name, cur) if name not in fns else fns.setdefault(name + "#dup", cur)
                continue
            m1 = re.match(r"^(?:const|static) (.*?): (.*?) = const (.*);$", line)
            if m1:
                f = Function(m1.group(1), [], m1.group(2), line)
                f.locals["_0"] = m1.group(2)
                f.blocks["bb0"] = ["_0 = const " + m1.group(3), "return"]
                consts[m1.group(1)] = f
                continue
            if line.startswith(("const ", "static ")) and line.endswith(" = {"):
                body = line[line.index(" ") + 1:-4]
                depth, cut = 0, -1
                for i, ch in enumerate(body):
                    if ch == "<":
                        depth += 1
                    elif ch == ">" and not (i > 0 and body[i - 1] == "-"):
                        depth -= 1
                    elif ch == ":" and depth == 0 and body[i:i + 2] == ": ":
                        cut = i
                        break
                if cut > 0:
                    cname, cty = body[:cut], body[cut + 2:]
                    cur = Function(cname, [], cty, line)
                    cur.locals["_0"] = cty
                    consts[cname] = cur
                    continue
            continue
        if line == "}":
            cur = None
            cur_bb = None
            continue
        m = BB_RE.match(line)
        if m:
            cur_bb = m.group(1)
            cur.blocks[cur_bb] = []
            if m.group(2):
                cur.cleanup.add(cur_bb)
            continue
        if cur_bb is not None:
            if line == "    }":
                cur_bb = None
                continue
            st = line.strip()
            if st:
                if st.endswith(";"):
                    st = st[:-1]
                cur.blocks[cur_bb].append(st)
            continue
        m = LET_RE.match(line)
        if m:
            cur.locals[m.group(1)] = m.group(2)
    return fns, consts


# ------------------------------------------------------------------ places / operands
@functools.lru_cache(maxsize=200000)
def parse_place(s):
    """place AST: ('local', '_3') | ('deref', P) | ('field', P, idx, type) | ('downcast', P, variant)
    | ('index', P, operand-local) | ('constindex', P, n)"""
    s = s.strip()
    p, rest = _place(s)
    if rest.strip():
        raise Unsupported("place: trailing %r in %r" % (rest, s))
    return p


def _match_paren(s, i):
    depth = 0
    j = i
    while j < len(s):
        if s[j] in "([{":
            depth += 1
        elif s[j] in ")]}":
            depth -= 1
            if depth == 0:
                return j
        j += 1
    raise Unsupported("unbalanced: " + s)


def _place(s):
    s = s.lstrip()
    if s.startswith("("):
        j = _match_paren(s, 0)
        inner = s[1:j]
        rest = s[j + 1:]
        if inner.startswith("*"):
            base, r2 = _place(inner[1:])
            if r2.strip():
                raise Unsupported("deref place " + s)
            p = ("deref", base)
        else:
            base, r2 = _place(inner)
            r2 = r2.lstrip()
            m = re.match(r"\.(\d+): (.*)$", r2, re.S)
            if m:
                p = ("field", base, int(m.group(1)), m.group(2).strip())
            else:
                m = re.match(r"as ([A-Za-z_][A-Za-z0-9_]*)$", r2)
                if m:
                    p = ("downcast", base, m.group(1))
                elif not r2:
                    p = base
                else:
                    raise Unsupported("place inner " + s)
    else:
        m = re.match(r"_\d+", s)
        if not m:
            raise Unsupported("place " + s)
        p = ("local", m.group(0))
        rest = s[m.end():]
    # postfix index
    while True:
        rest = rest
        m = re.match(r"\[(_\d+)\]", rest)
        if m:
            p = ("index", p, m.group(1))
            rest = rest[m.end():]
            continue
        m = re.match(r"\[(\d+) of (\d+)\]", rest)
        if m:
            p = ("constindex", p, int(m.group(1)))
            rest = rest[m.end():]
            continue
        break
    return p, rest


@functools.lru_cache(maxsize=200000)
def parse_operand(s):
    """('copy', place) | ('move', place) | ('const', text)"""
    s = s.strip()
    if s.startswith("no_retag "):
        s = s[len("no_retag "):]
    for k in ("copy ", "move "):
        if s.startswith(k):
            return (k.strip(), parse_place(s[len(k):]))
    if s.startswith("const "):
        return ("const", s[len("const "):].strip())
    if re.match(r"^[A-Za-z_<][\w:<>, &'\[\]()]*$", s) and "::" in s:
        return ("fnitem", s)          # a function item used as a value (e.g. `.and_then(Duration::try_days)`)
    raise Unsupported("operand " + s)


@functools.lru_cache(maxsize=200000)
def strip_generics(path):
    """remove ::<...> and <...> generic argument lists from a path"""
    out, depth = "", 0
    i = 0
    while i < len(path):
        ch = path[i]
        if ch == "<":
            depth += 1
        elif ch == ">" and depth > 0 and not (i > 0 and path[i - 1] == "-"):
            depth -= 1
        elif depth == 0:
            out += ch
        i += 1
    out = out.replace("::::", "::")
    while out.endswith("::"):
        out = out[:-2]
    return out
