"""Shared helpers: paths, evidence writing, known findings, subprocess with limits."""
import json
import os
import resource
import shutil
import signal
import subprocess
import sys
import tempfile
import time

VERIF = os.path.dirname(os.path.dirname(os.path.abspath(__file__)))
REPO = os.environ.get("VERIF_REPO", "/repo")
CACHE = os.path.join(VERIF, ".cache")
EVIDENCE = os.path.join(VERIF, "evidence")
REPLAYS = os.path.join(VERIF, "replays")
KNOWN_FILE = os.path.join(VERIF, "known_findings.json")
LOGS = os.path.join(VERIF, "logs")

EXIT_OK, EXIT_VIOLATION, EXIT_INCONCLUSIVE = 0, 1, 2


def env_offline():
    e = dict(os.environ)
    e["CARGO_NET_OFFLINE"] = "true"
    e.setdefault("CARGO_TERM_COLOR", "never")
    return e


def seed():
    try:
        return int(os.environ.get("VERIF_SEED", "0"))
    except ValueError:
        return 0


def log(msg):
    sys.stderr.write(msg.rstrip("\n") + "\n")
    sys.stderr.flush()


def out(msg):
    sys.stdout.write(msg.rstrip("\n") + "\n")
    sys.stdout.flush()


def mkscratch(prefix):
    base = os.environ.get("TMPDIR", "/tmp")
    return tempfile.mkdtemp(prefix=prefix, dir=base)


def rmtree(path):
    shutil.rmtree(path, ignore_errors=True)


def _limits(mem_gb):
    def fn():
        os.setsid()
        if mem_gb:
            lim = int(mem_gb * (1 << 30))
            resource.setrlimit(resource.RLIMIT_AS, (lim, lim))
    return fn


def run(cmd, cwd=None, timeout=None, mem_gb=None, env=None, stdout_path=None, stderr_path=None, input_text=None):
    """Run a command in its own process group; kill the group on timeout.
    Returns (returncode or None on timeout, stdout text or None, stderr text or None, wall seconds)."""
    t0 = time.time()
    so = open(stdout_path, "wb") if stdout_path else subprocess.PIPE
    se = open(stderr_path, "wb") if stderr_path else subprocess.PIPE
    try:
        p = subprocess.Popen(cmd, cwd=cwd, env=env or env_offline(), stdout=so, stderr=se,
                             stdin=subprocess.PIPE if input_text is not None else subprocess.DEVNULL,
                             preexec_fn=_limits(mem_gb))
        try:
            o, e = p.communicate(input=input_text.encode() if input_text is not None else None, timeout=timeout)
            rc = p.returncode
        except subprocess.TimeoutExpired:
            try:
                os.killpg(p.pid, signal.SIGKILL)
            except ProcessLookupError:
                pass
            o, e = p.communicate()
            rc = None
    finally:
        if stdout_path:
            so.close()
        if stderr_path:
            se.close()
    dec = lambda b: b.decode("utf-8", "replace") if isinstance(b, (bytes, bytearray)) else None
    return rc, dec(o), dec(e), time.time() - t0


def load_known():
    if not os.path.exists(KNOWN_FILE):
        return {"findings": [], "fixed": []}
    return json.load(open(KNOWN_FILE))


def write_evidence(prop, tier, level, coverage, assumptions, wall_s, violations, extra=None):
    os.makedirs(EVIDENCE, exist_ok=True)
    ev = {
        "property_id": prop,
        "tier": tier,
        "seed": seed(),
        "level": level,
        "coverage": coverage,
        "assumptions": assumptions,
        "wall_s": round(wall_s, 2),
        "violations": violations,
    }
    if extra:
        ev.update(extra)
    path = os.path.join(EVIDENCE, prop + ".json")
    tmp = path + ".tmp"
    with open(tmp, "w") as fh:
        json.dump(ev, fh, indent=1, sort_keys=False)
        fh.write("\n")
    os.replace(tmp, path)
    return path


def repo_head():
    rc, o, _, _ = run(["git", "-C", REPO, "rev-parse", "HEAD"])
    dirty = run(["git", "-C", REPO, "status", "--porcelain", "--", "src", "Cargo.toml"])[1]
    return (o or "").strip() + ("+dirty" if (dirty or "").strip() else "")
