"""Regular expressions of config.json's "parse" table as z3 regular-expression terms.

The literal patterns (number, percent, money, time) are data that decides which texts reach the literal kernels. They are
translated - on every run, from /repo's config.json - into z3 `Re` terms, so that "every literal of this written shape is
matched as a whole by one of the patterns" becomes a language-inclusion query (shape /\\ not pattern = empty) decided by the
solver for all digits at once; a satisfying string is a concrete literal that is replayed natively.

Supported syntax (what the literal patterns use): alternation, concatenation, groups (named, non-capturing, plain),
quantifiers ? * + {m} {m,} {m,n}, character classes with ranges (no negation), escapes of punctuation, \\d, \\b (a
zero-width assertion: the empty word here, the literal stands alone), \\p{Currency_Symbol} (a fixed list of symbols) and
\\p{L} (ASCII letters plus a few Latin-1 ones). Anything else raises Unsupported (the part is inconclusive, never a pass).
"""
import z3

from mirsmt.mirparse import Unsupported

CURRENCY_SYMBOLS = ["$", "€", "£", "¥", "₺"]


def _chars(cs):
    cs = sorted(set(cs))
    return z3.Union(*[z3.Re(c) for c in cs]) if len(cs) > 1 else z3.Re(cs[0])


def _range(a, b):
    return z3.Range(a, b)


class _P:
    def __init__(self, text):
        self.t, self.i = text, 0

    def peek(self):
        return self.t[self.i] if self.i < len(self.t) else None

    def take(self):
        c = self.peek()
        if c is None:
            raise Unsupported("regex ends early: %r" % self.t)
        self.i += 1
        return c

    # alternation
    def alt(self):
        parts = [self.seq()]
        while self.peek() == "|":
            self.take()
            parts.append(self.seq())
        return parts[0] if len(parts) == 1 else z3.Union(*parts)

    def seq(self):
        items = []
        while self.peek() is not None and self.peek() not in "|)":
            items.append(self.quant())
        if not items:
            return z3.Re("")
        return items[0] if len(items) == 1 else z3.Concat(*items)

    def quant(self):
        a = self.atom()
        while True:
            c = self.peek()
            if c == "?":
                self.take()
                a = z3.Option(a)
            elif c == "*":
                self.take()
                a = z3.Star(a)
            elif c == "+":
                self.take()
                a = z3.Plus(a)
            elif c == "{":
                j = self.t.index("}", self.i)
                body = self.t[self.i + 1:j]
                self.i = j + 1
                if "," in body:
                    lo, hi = body.split(",")
                    lo = int(lo or 0)
                    if hi.strip() == "":
                        a = z3.Concat(z3.Loop(a, lo, lo), z3.Star(a)) if lo else z3.Star(a)
                    else:
                        a = z3.Loop(a, lo, int(hi))
                else:
                    a = z3.Loop(a, int(body), int(body))
            else:
                return a
            if self.peek() == "?":
                raise Unsupported("lazy quantifier in %r" % self.t)

    def escape(self, in_class=False):
        c = self.take()
        if c == "d":
            return ("set", [chr(x) for x in range(48, 58)])
        if c == "b" and not in_class:
            return ("eps", None)
        if c == "p":
            if self.take() != "{":
                raise Unsupported("\\p without braces")
            j = self.t.index("}", self.i)
            name = self.t[self.i:j]
            self.i = j + 1
            if name in ("Currency_Symbol", "Sc"):
                return ("set", CURRENCY_SYMBOLS)
            if name == "L":
                return ("set", [chr(x) for x in range(65, 91)] + [chr(x) for x in range(97, 123)] + list("çğıöşü"))
            raise Unsupported("\\p{%s}" % name)
        if c in "sSwWDB":
            raise Unsupported("escape \\%s" % c)
        if c == "r":
            return ("set", ["\r"])
        if c == "n":
            return ("set", ["\n"])
        if c == "t":
            return ("set", ["\t"])
        return ("set", [c])

    def cls(self):
        if self.peek() == "^":
            raise Unsupported("negated character class in %r" % self.t)
        parts = []
        first = True
        while True:
            c = self.take()
            if c == "]" and not first:
                break
            first = False
            if c == "\\":
                k, v = self.escape(in_class=True)
                parts.append(_chars(v))
                continue
            if self.peek() == "-" and self.i + 1 < len(self.t) and self.t[self.i + 1] != "]":
                self.take()
                hi = self.take()
                parts.append(_range(c, hi))
            else:
                parts.append(z3.Re(c))
        return parts[0] if len(parts) == 1 else z3.Union(*parts)

    def atom(self):
        c = self.take()
        if c == "(":
            if self.peek() == "?":
                self.take()
                k = self.take()
                if k == ":":
                    pass
                elif k == "P":
                    if self.take() != "<":
                        raise Unsupported("group syntax in %r" % self.t)
                    self.i = self.t.index(">", self.i) + 1
                else:
                    raise Unsupported("group (?%s in %r" % (k, self.t))
            r = self.alt()
            if self.take() != ")":
                raise Unsupported("unbalanced group in %r" % self.t)
            return r
        if c == "[":
            return self.cls()
        if c == "\\":
            k, v = self.escape()
            return z3.Re("") if k == "eps" else _chars(v)
        if c == ".":
            return z3.Union(_range(" ", "~"), _chars(CURRENCY_SYMBOLS))
        if c in "^$":
            return z3.Re("")
        if c in "*+?{":
            raise Unsupported("dangling quantifier in %r" % self.t)
        return z3.Re(c)


def to_z3(pattern):
    p = _P(pattern)
    r = p.alt()
    if p.peek() is not None:
        raise Unsupported("regex not consumed: %r at %d" % (pattern, p.i))
    return r


def union(patterns):
    rs = [to_z3(p) for p in patterns]
    return rs[0] if len(rs) == 1 else z3.Union(*rs)


# ------------------------------------------------------------------ written shapes
D19 = z3.Range("1", "9")      # digits 1..9: a misread literal then has a different value


def written(ts, ds, max_groups=3, max_frac=3, signed=True):
    """[sign] d{1,3} (ts d{3}){0,max_groups} [ds d{1,max_frac}]  (with grouping)  |  [sign] d{1,12} [ds d{1,max_frac}]"""
    sign = z3.Option(z3.Union(z3.Re("-"), z3.Re("+"))) if signed else z3.Re("")
    frac = z3.Option(z3.Concat(z3.Re(ds), z3.Loop(D19, 1, max_frac)))
    plain = z3.Concat(sign, z3.Loop(D19, 1, 12), frac)
    if not ts:
        return plain
    grouped = z3.Concat(sign, z3.Loop(D19, 1, 3), z3.Loop(z3.Concat(z3.Re(ts), z3.Loop(D19, 3, 3)), 0, max_groups), frac)
    return z3.Union(plain, grouped)


def included(shape, lang, timeout_ms=60000):
    """None when every string of `shape` is in `lang` (solver: unsat); else a witness string; raises on unknown"""
    s = z3.String("literal")
    sol = z3.Solver()
    sol.set("timeout", timeout_ms)
    sol.add(z3.InRe(s, shape), z3.Not(z3.InRe(s, lang)))
    r = sol.check()
    if r == z3.unsat:
        return None
    if r == z3.sat:
        v = sol.model().eval(s, model_completion=True)
        return v.as_string() if hasattr(v, "as_string") else str(v)
    raise Unsupported("regex inclusion query undecided")
