"""Engine M specifications (one @spec = one evidence part)."""
import z3

from engine_m import (Ctx, find_fn, fval, is_err, new_exec, ok_payload, rule_fields, run_fn, setup_rule, spec, tag_is)
from mirsmt import models
from mirsmt.execmir import Path, SymV
from mirsmt.mirparse import Unsupported
from mirsmt.values import *  # noqa: F401,F403

H = z3.Q(1, 100)


def number_or_money(ex, tt):
    """(amount term, is_money Bool, currency id term) of a NUMBER_OR_MONEY field"""
    is_money = tag_is(ex, tt, "Money")
    x = z3.If(is_money, fval(tt, "Money").t, fval(tt, "Number").t)
    cur = tt.payload("Money").field(1, "Rc<types::CurrencyInfo>")
    return x, is_money, cur.id


# ============================================================================ C05
PCT_RULES = {
    "number_on": lambda x, p: x * (1 + p / 100),
    "number_of": lambda x, p: x * p / 100,
    "number_off": lambda x, p: x * (1 - p / 100),
}


def check_percent_rule(ctx, fname, formula, kind_id):
    ex, fields, toks, args, cfgv, tkv = setup_rule(fname, "real")
    outs, _ = run_fn(ex, "number_rules::" + fname, args)
    ctx.part.functions.append("number_rules::" + fname)
    ctx.paths += len(outs)
    num, pt = toks["number"], toks["p"]
    x, is_money, cur = number_or_money(ex, num)
    p = fval(pt, "Percent").t
    rp = ("m_replay_percent_rule_%d" % kind_id, [(is_money, "bool"), (x, "f64"), (p, "f64")])
    n_ok = 0
    for o in outs:
        if o.kind == "panic":
            ctx.reachable(ex, o.path, "%s can panic: %s" % (fname, o.msg), rp)
            continue
        if is_err(o):
            ctx.reachable(ex, o.path, "%s declines (Err) although its pattern matched" % fname, rp)
            continue
        variant, f = ok_payload(o)
        n_ok += 1
        ctx.claim(ex, o.path, z3.And(f[0].t == formula(x, p), z3.Not(f[0].undef)),
                  "%s value is not the textbook formula" % fname, rp)
        if variant == "Money":
            ctx.claim(ex, o.path, z3.And(is_money, f[1].id == cur), "%s: money result for a plain number / wrong currency" % fname, rp)
        elif variant == "Number":
            ctx.claim(ex, o.path, z3.Not(is_money), "%s: money operand lost its currency" % fname, rp)
            if not (isinstance(f[1], EnumV) and f[1].variant == "Decimal"):
                ctx.failures.append(("%s: result is not a Decimal number" % fname, {}, None))
        else:
            ctx.failures.append(("%s returns a %s token" % (fname, variant), {}, None))
    if n_ok == 0:
        ctx.failures.append(("%s has no Ok path" % fname, {}, None))


@spec("C05", "m_number_on_of_off", "number_on/of/off (MIR -> SMT, real relaxation): for every NUMBER or MONEY operand X and PERCENT p the Ok payload is X(1+p/100), Xp/100, X(1-p/100); money stays money in the same currency; no panic, no Err under the rule patterns")
def _(ctx):
    for i, (fname, formula) in enumerate(PCT_RULES.items()):
        check_percent_rule(ctx, fname, formula, i)
