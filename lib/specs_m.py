"""Engine M specifications (one @spec = one evidence part)."""
import time

import z3

from engine_m import (Ctx, find_fn, fval, is_err, new_exec, ok_payload, rule_fields, run_fn, setup_rule, spec, tag_is)
from mirsmt import models
from mirsmt.execmir import Path, SymV
from mirsmt.mirparse import Unsupported
from mirsmt.values import *  # noqa: F401,F403

H = z3.Q(1, 100)


def number_or_money(ex, tt):
    """(amount term, is_money Bool, currency id term) of a NUMBER_OR_MONEY field"""
    is_money = tag_is(ex, tt, "Money")
    x = z3.If(is_money, fval(tt, "Money").t, fval(tt, "Number").t)
    cur = tt.payload("Money").field(1, "Rc<types::CurrencyInfo>")
    return x, is_money, cur.id


# ============================================================================ C05
PCT_RULES = {
    "number_on": lambda x, p: x * (1 + p / 100),
    "number_of": lambda x, p: x * p / 100,
    "number_off": lambda x, p: x * (1 - p / 100),
}


def check_percent_rule(ctx, fname, formula, kind_id):
    ex, fields, toks, args, cfgv, tkv = setup_rule(fname, "real")
    outs, _ = run_fn(ex, "number_rules::" + fname, args)
    ctx.part.functions.append("number_rules::" + fname)
    ctx.paths += len(outs)
    num, pt = toks["number"], toks["p"]
    x, is_money, cur = number_or_money(ex, num)
    p = fval(pt, "Percent").t
    rp = ("m_replay_percent_rule_%d" % kind_id, [(is_money, "bool"), (x, "f64"), (p, "f64")])
    ctx.probe(fname, ex, outs, lambda o: ok_payload(o)[1][0].t, [(is_money, False), (x, 40), (p, 6)])
    n_ok = 0
    for o in outs:
        if o.kind == "panic":
            ctx.reachable(ex, o.path, "%s can panic: %s" % (fname, o.msg), rp)
            continue
        if is_err(o):
            ctx.reachable(ex, o.path, "%s declines (Err) although its pattern matched" % fname, rp)
            continue
        variant, f = ok_payload(o)
        n_ok += 1
        ctx.claim(ex, o.path, z3.And(f[0].t == formula(x, p), z3.Not(f[0].undef)),
                  "%s value is not the textbook formula" % fname, rp)
        if variant == "Money":
            ctx.claim(ex, o.path, z3.And(is_money, f[1].id == cur), "%s: money result for a plain number / wrong currency" % fname, rp)
        elif variant == "Number":
            ctx.claim(ex, o.path, z3.Not(is_money), "%s: money operand lost its currency" % fname, rp)
            if not (isinstance(f[1], EnumV) and f[1].variant == "Decimal"):
                ctx.failures.append(("%s: result is not a Decimal number" % fname, {}, None))
        else:
            ctx.failures.append(("%s returns a %s token" % (fname, variant), {}, None))
    if n_ok == 0:
        ctx.failures.append(("%s has no Ok path" % fname, {}, None))


@spec("C05", "m_number_on_of_off", "number_on/of/off (MIR -> SMT, real relaxation): for every NUMBER or MONEY operand X and PERCENT p the Ok payload is X(1+p/100), Xp/100, X(1-p/100); money stays money in the same currency; no panic, no Err under the rule patterns")
def _(ctx):
    for i, (fname, formula) in enumerate(PCT_RULES.items()):
        check_percent_rule(ctx, fname, formula, i)


@spec("C05", "m_find_percent_rules", "find_numbers_percent ('A is what % of B' = 100A/B, zero divisor -> 0, result a percentage) and find_total_from_percent ('A is p% of what' = 100A/p, money keeps its currency); real relaxation; no panic, no Err under the patterns")
def _(ctx):
    # ---- find_numbers_percent
    ex, fields, toks, args, _, _ = setup_rule("find_numbers_percent", "real")
    outs, _ = run_fn(ex, "percent_rules::find_numbers_percent", args)
    ctx.part.functions.append("percent_rules::find_numbers_percent")
    ctx.paths += len(outs)
    a, a_money, _ = number_or_money(ex, toks["part"])
    b, b_money, _ = number_or_money(ex, toks["total"])
    rp = ("m_replay_find_numbers_percent", [(a_money, "bool"), (a, "f64"), (b_money, "bool"), (b, "f64")])
    ctx.probe("find_numbers_percent", ex, outs, lambda o: ok_payload(o)[1][0].t, [(a_money, False), (b_money, False), (a, 15), (b, 60)])
    n_ok = 0
    for o in outs:
        if o.kind == "panic":
            ctx.reachable(ex, o.path, "find_numbers_percent can panic: " + o.msg, rp)
        elif is_err(o):
            ctx.reachable(ex, o.path, "find_numbers_percent declines although its pattern matched", rp)
        else:
            variant, f = ok_payload(o)
            n_ok += 1
            if variant != "Percent":
                ctx.failures.append(("find_numbers_percent returns a %s token" % variant, {}, None))
                continue
            ctx.claim(ex, o.path, f[0].t == z3.If(b == 0, 0, 100 * a / b), "find_numbers_percent is not 100*A/B (0 for B = 0)", rp)
    if not n_ok:
        ctx.failures.append(("find_numbers_percent has no Ok path", {}, None))
    # ---- find_total_from_percent
    ex, fields, toks, args, _, _ = setup_rule("find_total_from_percent", "real")
    outs, _ = run_fn(ex, "percent_rules::find_total_from_percent", args)
    ctx.part.functions.append("percent_rules::find_total_from_percent")
    ctx.paths += len(outs)
    a, a_money, cur = number_or_money(ex, toks["number_part"])
    p = fval(toks["percent_part"], "Percent").t
    rp = ("m_replay_find_total_from_percent", [(a_money, "bool"), (a, "f64"), (p, "f64")])
    ctx.probe("find_total_from_percent", ex, outs, lambda o: ok_payload(o)[1][0].t, [(a_money, False), (a, 20), (p, 8)])
    n_ok = 0
    for o in outs:
        if o.kind == "panic":
            ctx.reachable(ex, o.path, "find_total_from_percent can panic: " + o.msg, rp)
        elif is_err(o):
            ctx.reachable(ex, o.path, "find_total_from_percent declines although its pattern matched", rp)
        else:
            variant, f = ok_payload(o)
            n_ok += 1
            ctx.claim(ex, o.path, f[0].t == z3.If(p == 0, 0, 100 * a / p), "find_total_from_percent is not 100*A/p (0 for p = 0)", rp)
            if variant == "Money":
                ctx.claim(ex, o.path, z3.And(a_money, f[1].id == cur), "find_total_from_percent: wrong kind/currency", rp)
            else:
                ctx.claim(ex, o.path, z3.Not(a_money), "find_total_from_percent: money operand lost its currency", rp)
    if not n_ok:
        ctx.failures.append(("find_total_from_percent has no Ok path", {}, None))


# ---------------------------------------------------------------------------- DataItem::calculate kernels
OPS = ["Add", "Div", "Mul", "Sub"]


def calc_setup(ex, self_kind, other_kinds):
    cfgv = SymV(ex, "config", "config::SmartCalcConfig")
    me = SymV(ex, "self", "payload")
    other = SymV(ex, "other", "dyn compiler::DataItem")
    ex.item_kinds = list(other_kinds)
    ex.assumptions.append(z3.Or([other.tag() == models.ITEM_KINDS.index(k) for k in other_kinds]))
    return cfgv, ItemV(self_kind, me), other, me


def run_calc(ex, self_kind, item, cfgv, other, op, on_left=True):
    fn = models.item_impl(ex, self_kind, "calculate")
    args = [RefV(item), RefV(cfgv), z3.BoolVal(on_left), RefV(other), EnumV("OperationType", op, [])]
    return list(ex.run(fn, args, Path()))


def some_item(o):
    v = o.value
    if isinstance(v, EnumV) and v.enum == "Option":
        if v.variant == "Some":
            it = v.f[0]
            return it if isinstance(it, ItemV) else None
        return "None"
    return None


def real_op(op, x, y):
    return {"Add": x + y, "Sub": x - y, "Mul": x * y, "Div": z3.If(y == 0, 0, x / y)}[op]


@spec("C02", "m_number_calculate", "NumberItem::calculate (MIR -> SMT): number (+ - * /) number is the real operation with x/0 -> 0, result a number; never None, never a panic (evaluation step of the precedence property)")
def _(ctx):
    for op in OPS:
        ex = new_exec("real")
        cfgv, item, other, me = calc_setup(ex, "NumberItem", ["NumberItem"])
        outs = run_calc(ex, "NumberItem", item, cfgv, other, op)
        ctx.part.functions.append("compiler::number::calculate")
        ctx.paths += len(outs)
        x = me.field(0, "f64").t
        y = other.payload("NumberItem").field(0, "f64").t
        rp = ("m_replay_number_calc", [(OPS.index(op), "u8"), (x, "f64"), (y, "f64")])
        if op == "Div":
            ctx.probe("number_div", ex, outs, lambda o: some_item(o).f[0].t, [(x, 7), (y, 2)])
            ctx.probe("number_div_zero", ex, outs, lambda o: some_item(o).f[0].t, [(x, 7), (y, 0)])
        for o in outs:
            if o.kind == "panic":
                ctx.reachable(ex, o.path, "NumberItem %s can panic: %s" % (op, o.msg), rp)
                continue
            it = some_item(o)
            if it == "None" or it is None:
                ctx.reachable(ex, o.path, "NumberItem %s NumberItem is not computed" % op, rp)
                continue
            if it.kind != "NumberItem":
                ctx.failures.append(("NumberItem %s NumberItem yields a %s" % (op, it.kind), {}, None))
                continue
            ctx.claim(ex, o.path, it.f[0].t == real_op(op, x, y), "NumberItem %s is not the arithmetic operation (x/0 = 0)" % op, rp)


@spec("C05", "m_calculate_percent", "NumberItem / MoneyItem (+,-) PercentItem (MIR -> SMT, real relaxation): X +- p% = X(1 +- p/100), money keeps its currency; never None, never a panic")
def _(ctx):
    for kind in ("NumberItem", "MoneyItem"):
        for op in ("Add", "Sub"):
            ex = new_exec("real")
            cfgv, item, other, me = calc_setup(ex, kind, ["PercentItem"])
            outs = run_calc(ex, kind, item, cfgv, other, op)
            ctx.part.functions.append("compiler::%s::calculate" % models.ITEM_MODULE[kind])
            ctx.paths += len(outs)
            x = me.field(0, "f64").t
            p = other.payload("PercentItem").field(0, "f64").t
            digits = z3.Function("currency.f6", z3.IntSort(), z3.IntSort())(me.field(1, "Rc<types::CurrencyInfo>").id) if kind == "MoneyItem" else 2
            if kind == "MoneyItem":
                ex.assumptions.append(z3.And(digits >= 0, digits <= 4))   # config.json currencies have 0..3 decimal digits
            ntype = me.field(1, "types::NumberType").tag() if kind == "NumberItem" else z3.IntVal(0)
            rp = ("m_replay_calc_percent", [(kind == "MoneyItem", "bool"), (op == "Add", "bool"), (x, "f64"), (p, "f64"), (digits, "u8"), (ntype, "u8")])
            want = x * (1 + p / 100) if op == "Add" else x * (1 - p / 100)
            if kind == "MoneyItem" and op == "Sub":
                ctx.probe("money_sub_percent", ex, outs, lambda o: some_item(o).f[0].t, [(x, 6), (p, 50)])
            for o in outs:
                if o.kind == "panic":
                    ctx.reachable(ex, o.path, "%s %s PercentItem can panic: %s" % (kind, op, o.msg), rp)
                    continue
                it = some_item(o)
                if it == "None" or it is None:
                    ctx.reachable(ex, o.path, "%s %s PercentItem is not computed" % (kind, op), rp)
                    continue
                if it.kind != kind:
                    ctx.failures.append(("%s %s PercentItem yields a %s" % (kind, op, it.kind), {}, None))
                    continue
                ctx.claim(ex, o.path, it.f[0].t == want, "%s %s p%% is not X(1 +- p/100)" % (kind, op), rp)
                if kind == "MoneyItem":
                    ctx.claim(ex, o.path, it.f[1].id == me.field(1, "Rc<types::CurrencyInfo>").id, "money %s p%% changes the currency" % op, rp)


# ============================================================================ C06
def rate_of(ex, cfgv, cur_id):
    """(has, rate term) of config.currency_rate[cur] as the executor models it"""
    m = models.get_map(ex, cfgv.field(5, "BTreeMap<Rc<types::CurrencyInfo>, f64>"))
    has, val = m.lookup(CurrencyV(cur_id))
    return has, val.t


@spec("C06", "m_convert_money", "convert_money (MIR -> SMT, real relaxation): amount * rate(B) / rate(A) for symbolic rates, identity when A = B (non-zero rate), result in the target currency; Err exactly when a rate or the target currency is missing; no panic")
def _(ctx):
    ex, fields, toks, args, cfgv, _ = setup_rule("convert_money", "real")
    outs, _ = run_fn(ex, "money_rules::convert_money", args)
    ctx.part.functions += ["money_rules::convert_money", "tokinizer::tools::get_money", "tokinizer::tools::get_currency"]
    ctx.paths += len(outs)
    money = toks["money"]
    x = fval(money, "Money").t
    src = money.payload("Money").field(1, "Rc<types::CurrencyInfo>").id
    n_ok = 0
    ok_paths, err_paths = [], []
    for o in outs:
        if o.kind == "panic":
            ctx.reachable(ex, o.path, "convert_money can panic: " + o.msg)
            continue
        if is_err(o):
            err_paths.append(o.path)
            continue
        variant, f = ok_payload(o)
        n_ok += 1
        ok_paths.append(o.path)
        if variant != "Money":
            ctx.failures.append(("convert_money returns a %s token" % variant, {}, None))
            continue
        dst = f[1].id
        has_s, r_s = rate_of(ex, cfgv, src)
        has_d, r_d = rate_of(ex, cfgv, dst)
        code = z3.Function("currency.code", z3.IntSort(), z3.StringSort())
        rp = ("m_replay_convert_money", [(src == dst, "bool"), (x, "f64"), (r_s, "f64"), (r_d, "f64"), (code(src) == z3.StringVal("USD"), "bool")])
        ctx.claim(ex, o.path, z3.And(has_s, has_d), "convert_money succeeds without a rate", rp)
        if "convert_money" not in ctx.probes:
            ctx.probe("convert_money", ex, [o], lambda o_: ok_payload(o_)[1][0].t, [(x, 6), (r_s, 4), (r_d, 10), (src != dst, True)])
        ctx.claim(ex, o.path, f[0].t == z3.If(r_s == 0, 0, x / r_s) * r_d, "convert_money is not amount / rate(A) * rate(B)", rp)
        ctx.claim(ex, o.path, z3.Implies(z3.And(src == dst, r_s != 0), f[0].t == x), "convert_money A -> A is not the identity", rp)
    # a conversion may be declined only because something is missing: every lookup that some successful path relies on
    # (currency by name or alias, the two rates) assumed present, no declining path may remain
    def lookups(t, acc):
        if z3.is_app(t) and t.decl().name().endswith(".has") and z3.is_bool(t):
            acc[t.sexpr()] = t
        for c in (t.children() if z3.is_app(t) else []):
            lookups(c, acc)
    found = {}
    for pth in ok_paths:
        for c in pth.pc:
            lookups(c, found)
    by_fn = {}
    for t in found.values():
        by_fn.setdefault(t.decl().name(), []).append(t)
    # the currency is found by alias OR by code: one of the name lookups suffices; both rate lookups are needed
    name_fns = [k for k, v in by_fn.items() if any(a.arg(0).sort() == z3.StringSort() for a in v)]
    present = [z3.Or([t for k in name_fns for t in by_fn[k]])] if name_fns else []
    present += [t for k, v in by_fn.items() if k not in name_fns for t in v]
    for pth in err_paths:
        ctx.reachable(ex, pth.add(z3.And(present)) if present else pth, "convert_money declines although the currency is known and both rates exist",
                      ("m_replay_convert_money", [(z3.BoolVal(False), "bool"), (x, "f64"), (z3.RealVal(4), "f64"), (z3.RealVal(10), "f64"), (z3.BoolVal(False), "bool")]))
    if not n_ok:
        ctx.failures.append(("convert_money has no Ok path", {}, None))


@spec("C06", "m_money_calculate", "MoneyItem::calculate (MIR -> SMT, real relaxation): money +- money converts the right operand by rate(L)/rate(R) and stays in the left currency; money * / number scales and keeps the currency; money / money is the plain ratio in one currency; never None for these operands; no panic")
def _(ctx):
    for op in OPS:
        # money (op) money
        ex = new_exec("real")
        cfgv, item, other, me = calc_setup(ex, "MoneyItem", ["MoneyItem"])
        outs = run_calc(ex, "MoneyItem", item, cfgv, other, op)
        ctx.part.functions += ["compiler::money::calculate", "compiler::money::convert_currency"]
        ctx.paths += len(outs)
        x = me.field(0, "f64").t
        lc = me.field(1, "Rc<types::CurrencyInfo>").id
        y = other.payload("MoneyItem").field(0, "f64").t
        rc = other.payload("MoneyItem").field(1, "Rc<types::CurrencyInfo>").id
        has_l, r_l = rate_of(ex, cfgv, lc)
        has_r, r_r = rate_of(ex, cfgv, rc)
        ex.assumptions.append(z3.And(has_l, has_r, r_l > 0, r_r > 0))
        conv = y / r_r * r_l
        sym = z3.Function("currency.f1", z3.IntSort(), z3.StringSort())
        rp = ("m_replay_money_money", [(OPS.index(op), "u8"), (lc == rc, "bool"), (x, "f64"), (y, "f64"), (r_l, "f64"), (r_r, "f64"), (sym(lc) == sym(rc), "bool")])
        if op == "Add":
            ctx.probe("money_add_money", ex, outs, lambda o: some_item(o).f[0].t, [(x, 6), (y, 5), (r_l, 4), (r_r, 10), (lc, 0), (rc, 1)])
        for o in outs:
            if o.kind == "panic":
                ctx.reachable(ex, o.path, "MoneyItem %s MoneyItem can panic: %s" % (op, o.msg), rp)
                continue
            it = some_item(o)
            if it == "None" or it is None:
                ctx.reachable(ex, o.path, "MoneyItem %s MoneyItem is not computed" % op, rp)
                continue
            if op == "Div":
                if it.kind != "NumberItem":
                    ctx.failures.append(("money / money yields a %s" % it.kind, {}, None))
                    continue
                ctx.claim(ex, o.path, it.f[0].t == z3.If(conv == 0, 0, x / conv), "money / money is not the ratio in one currency", rp)
            else:
                if it.kind != "MoneyItem":
                    ctx.failures.append(("money %s money yields a %s" % (op, it.kind), {}, None))
                    continue
                ctx.claim(ex, o.path, it.f[1].id == lc, "money %s money is not in the left operand's currency" % op, rp)
                if op in ("Add", "Sub"):
                    ctx.claim(ex, o.path, it.f[0].t == real_op(op, x, conv), "money %s money does not convert the right operand by the rate table" % op, rp)
        # money (op) number
        ex = new_exec("real")
        cfgv, item, other, me = calc_setup(ex, "MoneyItem", ["NumberItem"])
        outs = run_calc(ex, "MoneyItem", item, cfgv, other, op)
        ctx.paths += len(outs)
        x = me.field(0, "f64").t
        lc = me.field(1, "Rc<types::CurrencyInfo>").id
        y = other.payload("NumberItem").field(0, "f64").t
        rp = ("m_replay_money_number", [(OPS.index(op), "u8"), (x, "f64"), (y, "f64")])
        for o in outs:
            if o.kind == "panic":
                ctx.reachable(ex, o.path, "MoneyItem %s NumberItem can panic: %s" % (op, o.msg), rp)
                continue
            it = some_item(o)
            if it == "None" or it is None or it.kind != "MoneyItem":
                ctx.reachable(ex, o.path, "MoneyItem %s NumberItem is not money" % op, rp)
                continue
            ctx.claim(ex, o.path, z3.And(it.f[1].id == lc, it.f[0].t == real_op(op, x, y)), "money %s number does not scale the amount / keep the currency" % op, rp)


# ============================================================================ C10
UNIT_LEN = {"Second": 1, "Minute": 60, "Hour": 3600, "Day": 86400, "Week": 604800}
CT = None


def constant_type_of(ex, cfgv, tkv, text_term):
    """the ConstantType tag the executor associates with constant_pair[language][text]"""
    raise NotImplementedError


def tdiv(a, b):
    from mirsmt.execmir import Exec
    return Exec.tdiv(a, z3.IntVal(b))


def expected_parse(unit, n):
    if unit == "Year":
        return 365 * 86400 * n
    if unit == "Month":
        return (tdiv(n, 12) * 365 + (n - tdiv(n, 12) * 12) * 30) * 86400
    return {"Day": 86400, "Week": 604800, "Hour": 3600, "Minute": 60, "Second": 1}[unit] * n


def duration_payload(o):
    p = ok_payload(o)
    if p and p[0] == "Duration" and isinstance(p[1][0], DurationV):
        return p[1][0].secs
    return None


def assume_language_known(ex, fname, cfgv, tkv):
    """rule functions only run for a language that has a rule table; load_from_json fills config.rule and
    config.constant_pair from the same `languages` object, so constant_pair[language] exists (checked on
    config.rs by engine D: d_language_tables)"""
    from engine_m import proj_index
    ci, cty = proj_index(fname, r"BTreeMap<alloc::string::String, (alloc::collections::)?BTreeMap<alloc::string::String, constants::ConstantType>>")
    li, lty = proj_index(fname, r"^alloc::string::String$")
    m = models.get_map(ex, cfgv.field(ci, cty))
    lang = tkv.field(li, lty)
    has, _ = m.lookup(lang)
    ex.assumptions.append(has)


def run_duration_parse(ctx, count_bound, strict, what):
    ex, fields, toks, args, cfgv, tkv = setup_rule("duration_parse", "real")
    assume_language_known(ex, "duration_rules::duration_parse", cfgv, tkv)
    x = fval(toks["duration"], "Number")
    n = ex.f_to_int(x, 64, True).t
    if count_bound is not None:
        ex.assumptions.append(z3.And(n >= -count_bound, n <= count_bound))
    outs, _ = run_fn(ex, "duration_rules::duration_parse", args)
    ctx.part.functions += ["duration_rules::duration_parse", "tokinizer::tools::get_number", "tokinizer::tools::get_text"]
    ctx.paths += len(outs)
    _c = unit_cond(ex, Path(), ex.discr("ConstantType", "Month")) if outs else None
    if _c is not None:
        ctx.probe("duration_parse_months", ex, outs, lambda o: duration_payload(o), [(x.t, 14), (_c, True)])
    consts = ex.enums["ConstantType"]
    # the ConstantType found for the unit word: locate the executor's lookup symbol
    tags = [t for name, t in ex.inputs.items() if False]
    rp = None
    seen_units = set()
    for o in outs:
        if o.kind == "panic":
            ctx.reachable(ex, o.path, "duration_parse can panic: %s" % o.msg, ("m_replay_duration_parse", [(unit_code_of(ex, o.path), "u8"), (x.t, "f64")]))
            continue
        if is_err(o):
            continue
        secs = duration_payload(o)
        if secs is None:
            ctx.failures.append(("duration_parse returns something that is not a duration", {}, None))
            continue
        # which unit is this path about? decide per unit with the path condition
        for unit in ("Year", "Month", "Day", "Week", "Hour", "Minute", "Second"):
            cond = unit_cond(ex, o.path, ex.discr("ConstantType", unit))
            if cond is None:
                continue
            if not ex.feasible(o.path, cond):
                continue
            seen_units.add(unit)
            ctx.claim(ex, o.path.add(cond), secs == expected_parse(unit, n), "duration_parse: N %s is not N x the unit length (month 30 d, year 365 d, 12 months = 1 year)" % unit,
                      ("m_replay_duration_parse", [(ex.discr("ConstantType", unit), "u8"), (x.t, "f64")]))
    if strict and seen_units != {"Year", "Month", "Day", "Week", "Hour", "Minute", "Second"}:
        ctx.failures.append(("duration_parse: units without an Ok path: %s" % sorted({"Year", "Month", "Day", "Week", "Hour", "Minute", "Second"} - seen_units), {}, None))


def const_tag_terms(ex):
    """all ConstantType tag terms the executor created for constant_pair lookups"""
    out = []
    for c in ex.domain:
        pass
    return out


def unit_cond(ex, path, idx):
    """condition 'the looked-up ConstantType is variant idx' for the single lookup on this path"""
    terms = getattr(ex, "_const_terms", None)
    if terms is None:
        terms = []
        for key, (has, val) in _all_map_memo(ex):
            if isinstance(val, SymV) and val.ty.endswith("ConstantType"):
                terms.append(val.tag())
        ex._const_terms = terms
    if len(terms) != 1:
        return None
    return terms[0] == idx


def unit_code_of(ex, path):
    terms = getattr(ex, "_const_terms", None) or []
    if not terms:
        unit_cond(ex, path, 0)
        terms = ex._const_terms
    return terms[0] if terms else 0


def _all_map_memo(ex):
    seen = []

    def walk(sym):
        if hasattr(sym, "_map") and isinstance(sym._map, models.MapV):
            for k, hv in sym._map.memo.items():
                seen.append((k, hv))
                if isinstance(hv[1], SymV):
                    walk(hv[1])
        for f in getattr(sym, "_fields", {}).values():
            if isinstance(f, SymV):
                walk(f)
    for root in getattr(ex, "_roots", []):
        walk(root)
    return seen


@spec("C10", "m_duration_parse", "duration_parse (MIR -> SMT, integers exact): for every count |N| <= 10^6 and every unit word bound by the pattern the result is N x unit length (month 30 d, year 365 d, twelve months one year); no panic, no Err")
def _(ctx):
    run_duration_parse(ctx, 10 ** 6, True, "strict")


# ============================================================================ C04
def struct_fields(src_rel, struct):
    """field names of a struct, in declaration order (= MIR field index), parsed from the source"""
    import os, re
    import common
    text = open(os.path.join(common.REPO, src_rel), errors="replace").read()
    m = re.search(r"struct\s+%s\s*(?:<[^>]*>)?\s*\{(.*?)\n\}" % struct, text, re.S)
    if not m:
        raise Unsupported("struct %s not found in %s" % (struct, src_rel))
    names = []
    for line in m.group(1).split("\n"):
        fm = re.match(r"\s*(?:pub(?:\([a-z]+\))?\s+)?(\w+)\s*:", line)
        if fm:
            names.append(fm.group(1))
    return names


@spec("C04", "m_set_text_cursor", "Session::set_text (MIR -> SMT/path enumeration): on every path (regex available or not) the new text's lines are stored and the line cursor is put back to 0, so that the next execute_session starts at the first line of the new text")
def _(ctx):
    ex = new_exec("real")
    fields = struct_fields("src/session.rs", "Session")
    pos_idx, parts_idx = fields.index("position"), fields.index("text_parts")
    me = SymV(ex, "session", "session::Session")
    text = ex.make_sym("text", "alloc::string::String")
    fn = find_fn("set_text")
    outs = list(ex.run(fn, [RefV(me), text], Path()))
    ctx.part.functions.append("session::Session::set_text")
    ctx.paths += len(outs)
    cursor_sym = str(me.field(pos_idx, "Cell<usize>").t)
    n_ret = 0
    for o in outs:
        if o.kind == "panic":
            ctx.reachable(ex, o.path, "set_text can panic: " + o.msg)
            continue
        n_ret += 1
        stored_parts = any(e[0] == "store" and e[2] == parts_idx for e in o.path.events)
        reset = False
        for e in o.path.events:
            if e[0] == "cell_set" and e[1] == cursor_sym and isinstance(e[2], IntV):
                reset = z3.is_true(z3.simplify(e[2].t == 0))
            if e[0] == "store" and e[2] == pos_idx and isinstance(e[4], IntV):
                reset = z3.is_true(z3.simplify(e[4].t == 0))
        ctx.part.queries += 1
        if not stored_parts:
            ctx.failures.append(("set_text has a path that does not store the new lines", {}, ("k_replay_session_reuse", [])))
        if not reset:
            ctx.failures.append(("set_text leaves the line cursor where the previous text ended (a re-used session skips lines / returns no slots)", {}, ("k_replay_session_reuse", [])))
    if not n_ret:
        ctx.failures.append(("set_text has no returning path", {}, None))


def abs_(t):
    return z3.If(t >= 0, t, -t)


def assume_unit_word(ex, fname, cfgv, tkv, text_term, units):
    """the unit word bound by {GROUP:type:duration_group} is in constant_pair[language] and names one of `units`
    (engine D d_duration_words checks config.json for exactly this)"""
    from engine_m import proj_index
    ci, cty = proj_index(fname, r"BTreeMap<alloc::string::String, (alloc::collections::)?BTreeMap<alloc::string::String, constants::ConstantType>>")
    li, lty = proj_index(fname, r"^alloc::string::String$")
    outer = models.get_map(ex, cfgv.field(ci, cty))
    lang = tkv.field(li, lty)
    has, inner = outer.lookup(lang)
    ex.assumptions.append(has)
    imap = models.get_map(ex, inner)
    has2, ct = imap.lookup(StrV(text_term))
    ex.assumptions.append(has2)
    ex.assumptions.append(z3.Or([ct.tag() == ex.discr("ConstantType", u) for u in units]))
    return ct.tag()


@spec("C10", "m_duration_parse_total", "duration_parse never declines or panics for a unit word of the duration group and |N| <= 10^6")
def _(ctx):
    ex, fields, toks, args, cfgv, tkv = setup_rule("duration_parse", "real")
    x = fval(toks["duration"], "Number")
    n = ex.f_to_int(x, 64, True).t
    ex.assumptions.append(z3.And(n >= -10 ** 6, n <= 10 ** 6))
    word = toks["type"].payload("Text").field(0, "alloc::string::String").term()
    tag = assume_unit_word(ex, "duration_rules::duration_parse", cfgv, tkv, word, ["Day", "Week", "Month", "Year", "Second", "Minute", "Hour"])
    outs, _ = run_fn(ex, "duration_rules::duration_parse", args)
    ctx.part.functions.append("duration_rules::duration_parse")
    ctx.paths += len(outs)
    rp = ("m_replay_duration_parse", [(tag, "u8"), (x.t, "f64")])
    for o in outs:
        if o.kind == "panic":
            ctx.reachable(ex, o.path, "duration_parse can panic: " + o.msg, rp)
        elif is_err(o):
            ctx.reachable(ex, o.path, "duration_parse declines a unit word of the duration group", rp)
        else:
            ctx.part.queries += 1


@spec("C10", "m_as_duration", "as_duration on a duration (MIR -> SMT, integers exact): 'D as seconds|minutes|hours|days|weeks' is floor(|D| / unit) whole units, for every D in chrono's range; no panic")
def _(ctx):
    ex, fields, toks, args, cfgv, tkv = setup_rule("as_duration", "real")
    src = toks["source"]
    ex.assumptions.append(tag_is(ex, src, "Duration"))
    d = src.payload("Duration").field(0, "chrono::TimeDelta").secs
    word = toks["type"].payload("Text").field(0, "alloc::string::String").term()
    tag = assume_unit_word(ex, "duration_rules::as_duration", cfgv, tkv, word, list(UNIT_LEN))
    outs, _ = run_fn(ex, "duration_rules::as_duration", args)
    ctx.part.functions.append("duration_rules::as_duration")
    ctx.paths += len(outs)
    rp = ("m_replay_as_duration", [(tag, "u8"), (d, "i64")])
    ctx.probe("as_duration_hours", ex, outs, lambda o: duration_payload(o), [(d, 90061), (tag, ex.discr("ConstantType", "Hour"))])
    n_ok = 0
    for o in outs:
        if o.kind == "panic":
            ctx.reachable(ex, o.path, "as_duration can panic: " + o.msg, rp)
        elif is_err(o):
            ctx.reachable(ex, o.path, "as_duration declines one of the five target units", rp)
        else:
            secs = duration_payload(o)
            n_ok += 1
            if secs is None:
                ctx.failures.append(("as_duration returns something that is not a duration", {}, None))
                continue
            want = None
            for u, l in UNIT_LEN.items():
                w = (abs_(d) / l) * l
                want = w if want is None else z3.If(tag == ex.discr("ConstantType", u), w, want)
            ctx.claim(ex, o.path, secs == want, "D as <unit> is not floor(|D| / unit) units", rp)
    if not n_ok:
        ctx.failures.append(("as_duration has no Ok path", {}, None))


YEAR_S = 365 * 86400


@spec("C10", "m_duration_calculate", "DurationItem::calculate (MIR -> SMT): D1 + D2 and D1 - D2 are the exact sum / difference of seconds (|D| <= 10^6 years each); never None, no panic")
def _(ctx):
    for op in ("Add", "Sub"):
        ex = new_exec("real")
        cfgv, item, other, me = calc_setup(ex, "DurationItem", ["DurationItem"])
        a = me.field(0, "chrono::TimeDelta").secs
        b = other.payload("DurationItem").field(0, "chrono::TimeDelta").secs
        lim = 10 ** 6 * YEAR_S
        ex.assumptions.append(z3.And(abs_(a) <= lim, abs_(b) <= lim))
        outs = run_calc(ex, "DurationItem", item, cfgv, other, op)
        ctx.part.functions.append("compiler::duration::calculate")
        ctx.paths += len(outs)
        rp = ("m_replay_duration_calc", [(op == "Add", "bool"), (a, "i64"), (b, "i64")])
        if op == "Sub":
            ctx.probe("duration_sub", ex, outs, lambda o: some_item(o).f[0].secs, [(a, 500), (b, 1700)])
        for o in outs:
            if o.kind == "panic":
                ctx.reachable(ex, o.path, "DurationItem %s can panic: %s" % (op, o.msg), rp)
                continue
            it = some_item(o)
            if it == "None" or it is None or it.kind != "DurationItem":
                ctx.reachable(ex, o.path, "duration %s duration is not a duration" % op, rp)
                continue
            ctx.claim(ex, o.path, it.f[0].secs == (a + b if op == "Add" else a - b), "duration %s duration is not the exact %s" % (op, "sum" if op == "Add" else "difference"), rp)


@spec("C10", "m_combine_durations", "combine_durations (MIR -> SMT): durations written next to each other add up: the result is the sum of all 2..6 parts bound by the pattern")
def _(ctx):
    ex, fields, toks, args, cfgv, tkv = setup_rule("combine_durations", "real")
    fields.keys_order = [str(i) for i in range(1, 7)]
    lim = 10 ** 6 * YEAR_S
    ds = {}
    for k in fields.keys_order:
        ds[k] = toks[k].payload("Duration").field(0, "chrono::TimeDelta").secs
        ex.assumptions.append(abs_(ds[k]) <= lim)
    outs, _ = run_fn(ex, "duration_rules::combine_durations", args)
    ctx.part.functions.append("duration_rules::combine_durations")
    ctx.paths += len(outs)
    total = sum(z3.If(fields.has_key(k), ds[k], 0) for k in fields.keys_order)
    rp = ("m_replay_combine_durations", [(z3.Sum([z3.If(fields.has_key(k), 1, 0) for k in fields.keys_order]), "u8")] + [(ds[k], "i64") for k in fields.keys_order])
    n_ok = 0
    for o in outs:
        if o.kind == "panic":
            ctx.reachable(ex, o.path, "combine_durations can panic: " + o.msg, rp)
        elif is_err(o):
            ctx.reachable(ex, o.path, "combine_durations declines although its pattern matched", rp)
        else:
            secs = duration_payload(o)
            n_ok += 1
            ctx.claim(ex, o.path, secs == total, "adjacent durations do not add up", rp)
    if not n_ok:
        ctx.failures.append(("combine_durations has no Ok path", {}, None))


PRINT_UNITS = [("Year", 365 * 86400), ("Month", 30 * 86400), ("Week", 7 * 86400), ("Day", 86400), ("Hour", 3600), ("Minute", 60), ("Second", 1)]


@spec("C10", "m_duration_print", "DurationItem::print (MIR -> SMT, integers exact): the (count, unit) parts handed to the formatter are the greedy decomposition of |D| into years(365d), months(30d), weeks, days, hours, minutes, seconds: they sum to |D|, every count >= 1 and below the next unit's ratio, units strictly descending; for every D in chrono's range")
def _(ctx):
    ex = new_exec("real")
    ex.handlers.insert(0, (__import__("re").compile(r"^DurationItem::duration_formatter$"), models.h_event_call))
    ex.handlers.insert(0, (__import__("re").compile(r"^(alloc::string::)?String::new$|^core::str::<impl str>::trim$"), models.h_opaque))
    me = SymV(ex, "self", "payload")
    cfgv = SymV(ex, "config", "config::SmartCalcConfig")
    sess = SymV(ex, "session", "session::Session")
    fn = models.item_impl(ex, "DurationItem", "print")
    d = me.field(0, "chrono::TimeDelta").secs
    outs = list(ex.run(fn, [RefV(ItemV("DurationItem", me)), RefV(cfgv), RefV(sess)], Path()))
    ctx.part.functions.append("compiler::duration::print")
    ctx.paths += len(outs)
    kinds = ex.enums["DurationFormatType"]
    n_formatted = 0
    rp = ("m_replay_duration_print", [(d, "i64")])
    for o in outs:
        if o.kind == "panic":
            ctx.reachable(ex, o.path, "DurationItem::print can panic: " + o.msg, rp)
            continue
        evs = [e for e in o.path.events if e[0] == "duration_formatter"]
        if not evs and not ex.feasible(o.path, d != 0):
            continue
        # an empty event list is legitimate only without a format table (prints "") or for D == 0
        if not evs:
            fmt_idx = struct_fields("src/config.rs", "SmartCalcConfig").index("format")
            has_en = z3.Function("config.%d.has" % fmt_idx, z3.StringSort(), z3.BoolSort())(z3.StringVal("en"))
            with_table = o.path.add(has_en)
            if ex.feasible(with_table):
                ctx.claim(ex, with_table, d == 0, "a non-zero duration is printed as nothing although the language (or 'en') has a format table", rp)
            continue
        parts = []
        for e in evs:
            count, kind = e[1][3], e[1][4]
            if not (isinstance(kind, EnumV) and isinstance(count, IntV)):
                raise Unsupported("duration_formatter event with a non-constant unit")
            parts.append((kind.variant, count.t))
        if not evs:
            # either no format table for the language (and none for "en"): prints "" - outside the property
            continue
        n_formatted += 1
        unit_len = dict(PRINT_UNITS)
        order = [u for u, _ in PRINT_UNITS]
        total = sum(c * unit_len[u] for u, c in parts)
        ctx.claim(ex, o.path, total == abs_(d), "printed duration parts do not sum to the magnitude", rp)
        idxs = [order.index(u) for u, _ in parts]
        if idxs != sorted(set(idxs)):
            ctx.failures.append(("printed duration parts are not strictly descending units: %s" % [u for u, _ in parts], {}, rp and None))
        for u, c in parts:
            i = order.index(u)
            bound = (unit_len[order[i - 1]] // unit_len[u]) if i > 0 else None
            cl = c >= 1 if bound is None else z3.And(c >= 1, c * unit_len[u] < unit_len[order[i - 1]])
            ctx.claim(ex, o.path, cl, "printed %s count is 0 or not smaller than the next larger unit" % u, rp)
    if not n_formatted:
        ctx.failures.append(("DurationItem::print has no path that formats parts", {}, None))


@spec("C11", "m_duration_as_time", "DurationItem::as_time (MIR -> SMT): the clock reading of a duration is |D| mod 24 h (hours, minutes, seconds split), on today's date, for every D in chrono's range; no panic")
def _(ctx):
    ex = new_exec("real")
    me = SymV(ex, "self", "payload")
    d = me.field(0, "chrono::TimeDelta").secs
    fn = find_fn("as_time")
    outs = list(ex.run(fn, [RefV(ItemV("DurationItem", me))], Path()))
    ctx.part.functions.append("compiler::duration::as_time")
    ctx.paths += len(outs)
    rp = ("m_replay_as_time", [(d, "i64")])
    ctx.probe("as_time", ex, outs, lambda o: o.value.secs, [(d, -90061)])
    n = 0
    for o in outs:
        if o.kind == "panic":
            ctx.reachable(ex, o.path, "DurationItem::as_time can panic: " + o.msg, rp)
            continue
        v = o.value
        if not isinstance(v, DateTimeV):
            raise Unsupported("as_time returned %r" % (v,))
        n += 1
        ctx.claim(ex, o.path, v.secs == abs_(d) % 86400, "as_time is not |D| mod 24 h", rp)
        ctx.claim(ex, o.path, v.days == ex._now.days, "as_time is not anchored on today's date", rp)
    if not n:
        ctx.failures.append(("as_time has no returning path", {}, None))


# ============================================================================ C13 / C14: radix / raw printing
import re as _re


def run_number_print(ex):
    ex.handlers.insert(0, (_re.compile(r"^core::fmt::rt::Argument::<'_>::new_\w+::<.*>$"), models.h_event_call))
    ex.handlers.insert(0, (_re.compile(r"^format_number$|^formatter::format_number$"), models.h_event_call))
    ex.handlers.insert(0, (_re.compile(r"^Arguments::<'_>::new(_const)?::<.*>$|^alloc::fmt::format$|^must_use::<.*>$|^core::fmt::rt::Argument::<'_>::none$|^<(alloc::string::)?String as ToString>::to_string$"), models.h_opaque))
    me = SymV(ex, "self", "payload")
    cfgv = SymV(ex, "config", "config::SmartCalcConfig")
    sess = SymV(ex, "session", "session::Session")
    fn = models.item_impl(ex, "NumberItem", "print")
    outs = list(ex.run(fn, [RefV(ItemV("NumberItem", me)), RefV(cfgv), RefV(sess)], Path()))
    return me, outs


def number_print_spec(ctx, kinds, lo, hi, what, relerr=False):
    ex = new_exec("real")
    ex.relerr = relerr
    me, outs = run_number_print(ex)
    ctx.part.functions.append("compiler::number::print")
    ctx.paths += len(outs)
    x = me.field(0, "f64").t
    nt = me.field(1, "types::NumberType")
    n = z3.Int("N")
    ex.assumptions.append(z3.And(x == z3.ToReal(n), n >= lo, n <= hi))
    seen = set()
    for o in outs:
        if o.kind == "panic":
            ctx.reachable(ex, o.path, "NumberItem::print can panic: " + o.msg)
            continue
        for k in kinds:
            cond = nt.tag() == ex.discr("NumberType", k)
            if not ex.feasible(o.path, cond):
                continue
            seen.add(k)
            evs = [e for e in o.path.events if e[0].startswith("new_")]
            fmt = {"Binary": "new_binary", "Octal": "new_octal", "Hexadecimal": "new_upper_hex", "Raw": "new_display"}[k]
            if len(evs) != 1 or evs[0][0] != fmt:
                import struct as _struct
                rp_raw = ("m_replay_number_print", [[ex.discr("NumberType", k)], list(_struct.pack("<d", float(max(lo, min(hi, 1664582400)))))])
                ctx.failures.append(("%s number is not printed with %s (events: %s)" % (k, fmt, [e[0] for e in evs]), {}, rp_raw))
                continue
            v = evs[0][1][0]
            if not isinstance(v, IntV):
                raise Unsupported("formatted value is not an integer")
            rp = ("m_replay_number_print_margin" if relerr else "m_replay_number_print", [(ex.discr("NumberType", k), "u8"), (x, "f64")])
            ctx.claim(ex, o.path.add(cond), v.t == n, what % k, rp)
    if seen != set(kinds):
        ctx.failures.append(("NumberItem::print: kinds without a path: %s" % sorted(set(kinds) - seen), {}, None))


@spec("C13", "m_radix_print_i32", "NumberItem::print (MIR -> SMT): for Binary / Octal / Hexadecimal numbers the integer handed to the {:#b} {:#o} {:#X} formatter IS the value N, for every integer 0 <= N < 2^31")
def _(ctx):
    number_print_spec(ctx, ["Binary", "Octal", "Hexadecimal"], 0, 2 ** 31 - 1, "the %s print of N does not show N (0 <= N < 2^31)")


@spec("C13", "m_radix_print_wide", "same for 2^31 <= N <= 2^53 (literals the calculator accepts): the printed integer is N")
def _(ctx):
    number_print_spec(ctx, ["Binary", "Octal", "Hexadecimal"], 2 ** 31, 2 ** 53, "the %s print of N >= 2^31 does not show N")


@spec("C14", "m_raw_print_i32", "NumberItem::print of a Raw number (unix timestamp): the integer handed to the formatter is the timestamp, for |ts| < 2^31")
def _(ctx):
    number_print_spec(ctx, ["Raw"], -(2 ** 31) + 1, 2 ** 31 - 1, "the %s print of a timestamp does not show every digit (|ts| < 2^31)")


@spec("C14", "m_raw_print_wide", "same for timestamps of years 2038..9999 (2^31 <= ts <= 253402300799) and of years 1..1901 (negative)")
def _(ctx):
    number_print_spec(ctx, ["Raw"], 2 ** 31, 253402300799, "the %s print of a timestamp >= 2^31 does not show every digit")
    number_print_spec(ctx, ["Raw"], -62135596800, -(2 ** 31), "the %s print of a timestamp <= -2^31 does not show every digit")


@spec("C13", "m_number_type_convert", "number_type_convert (MIR -> SMT): 'N to hex|octal|binary|decimal' rounds N half away from zero and sets the NumberType named by the keyword; declines other words; no panic")
def _(ctx):
    ex, fields, toks, args, cfgv, tkv = setup_rule("number_type_convert", "real")
    outs, _ = run_fn(ex, "number_rules::number_type_convert", args)
    ctx.part.functions.append("number_rules::number_type_convert")
    ctx.paths += len(outs)
    x = fval(toks["number"], "Number").t
    word = toks["type"].payload("Text").field(0, "alloc::string::String").term()
    want_round = z3.ToReal(z3.If(x >= 0, z3.ToInt(x + z3.Q(1, 2)), -z3.ToInt(-x + z3.Q(1, 2))))
    table = {"hex": "Hexadecimal", "hexadecimal": "Hexadecimal", "octal": "Octal", "binary": "Binary", "decimal": "Decimal"}
    ctx.probe("number_type_convert", ex, outs, lambda o: ok_payload(o)[1][0].t, [(x, z3.Q(21, 2)), (word, z3.StringVal("hex"))])
    seen = set()
    for o in outs:
        if o.kind == "panic":
            ctx.reachable(ex, o.path, "number_type_convert can panic: " + o.msg)
            continue
        if is_err(o):
            # must only decline words outside the table
            for w in table:
                r, _m = ctx.q.check(ex, o.path, word == z3.StringVal(w), 20000)
                if r != "unsat":
                    ctx.failures.append(("number_type_convert declines the keyword %r" % w, {}, ("m_replay_number_type_convert", [(list(table).index(w), "u8"), (x, "f64")])))
            continue
        variant, f = ok_payload(o)
        if variant != "Number":
            ctx.failures.append(("number_type_convert returns a %s" % variant, {}, None))
            continue
        nt = f[1].variant if isinstance(f[1], EnumV) else None
        for w, want in table.items():
            if ex.feasible(o.path, word == z3.StringVal(w)):
                seen.add(w)
                rp = ("m_replay_number_type_convert", [(list(table).index(w), "u8"), (x, "f64")])
                if nt != want:
                    ctx.failures.append(("'to %s' yields NumberType %s" % (w, nt), {}, rp))
                ctx.claim(ex, o.path.add(word == z3.StringVal(w)), f[0].t == want_round, "'N to %s' does not round N to the nearest integer (half away from zero)" % w, rp)
    if seen != set(table):
        ctx.failures.append(("number_type_convert: keywords without an Ok path: %s" % sorted(set(table) - seen), {}, None))


# ============================================================================ C11
@spec("C11", "m_time_calculate", "TimeItem::calculate (MIR -> SMT, chrono modelled): time + D / time - D moves the clock by D modulo 24 h in the direction given by the operator and the sign of D (the UTC instant moves by |D| mod 86400 s, the zone is kept); no panic for every time of years 1..9999 and every D in chrono's range")
def _(ctx):
    for op in ("Add", "Sub"):
        ex = new_exec("real")
        cfgv, item, other, me = calc_setup(ex, "TimeItem", ["DurationItem"])
        t = me.field(0, "chrono::NaiveDateTime")
        d = other.payload("DurationItem").field(0, "chrono::TimeDelta").secs
        # keep one day of head-room at both ends of years 1..9999
        ex.assumptions.append(z3.And(t.days >= 1, t.days <= 3652057))
        outs = run_calc(ex, "TimeItem", item, cfgv, other, op)
        ctx.part.functions += ["compiler::time::calculate", "compiler::duration::as_time"]
        ctx.paths += len(outs)
        rp = ("m_replay_time_calc", [(op == "Add", "bool"), (t.secs, "u32"), (d, "i64")])
        if op == "Add":
            ctx.probe("time_add", ex, outs, lambda o: some_item(o).f[0].secs, [(t.days, 738000), (t.secs, 86000), (d, 90061)])
        n = 0
        for o in outs:
            if o.kind == "panic":
                ctx.reachable(ex, o.path, "TimeItem %s DurationItem can panic: %s" % (op, o.msg), rp)
                continue
            it = some_item(o)
            if it == "None" or it is None or it.kind != "TimeItem":
                ctx.reachable(ex, o.path, "time %s duration is not a time" % op, rp)
                continue
            n += 1
            r = it.f[0]
            step = abs_(d) % 86400
            for neg in (False, True):
                sign = (1 if op == "Add" else -1) * (-1 if neg else 1)
                stepn = (-d if neg else d) % 86400
                p2 = o.path.add(d < 0 if neg else d >= 0)
                if not ex.feasible(p2):
                    continue
                ctx.claim(ex, p2, r.total() == t.total() + sign * stepn,
                          "time %s D does not move the clock by D mod 24 h in the direction of the operator and the sign of D" % ("+" if op == "Add" else "-"), rp, timeout_ms=120000)
        if not n:
            ctx.failures.append(("TimeItem %s has no computed path" % op, {}, None))


def tz_fields(tok, variant):
    """(naive utc DateTimeV/DateV, offset-minutes term) of a Time/Date/DateTime token"""
    ty = {"Time": "chrono::NaiveDateTime", "DateTime": "chrono::NaiveDateTime", "Date": "chrono::NaiveDate"}[variant]
    v = tok.payload(variant).field(0, ty)
    off = tok.payload(variant).field(1, "types::TimeOffset").field(1, "i32")
    return v, off.t


@spec("C11", "m_convert_timezone", "convert_timezone (MIR -> SMT): converting a time / date / date-time to another zone keeps the instant and replaces the display zone by the target (name upper-cased, offset of the target), for all instants and all offsets; no panic")
def _(ctx):
    ex, fields, toks, args, cfgv, tkv = setup_rule("convert_timezone", "real")
    outs, _ = run_fn(ex, "date_time_rules::convert_timezone", args)
    ctx.part.functions.append("date_time_rules::convert_timezone")
    ctx.paths += len(outs)
    src = toks["time"]
    tz = toks["timezone"]
    tgt_off = tz.payload("Timezone").field(1, "i32").t
    seen = set()
    for o in outs:
        if o.kind == "panic":
            ctx.reachable(ex, o.path, "convert_timezone can panic: " + o.msg)
            continue
        if is_err(o):
            ctx.reachable(ex, o.path, "convert_timezone declines although its pattern matched")
            continue
        variant, f = ok_payload(o)
        seen.add(variant)
        v, _off = tz_fields(src, variant)
        same = (f[0].total() == v.total()) if isinstance(v, DateTimeV) else (f[0].days == v.days)
        ctx.claim(ex, o.path, z3.And(tag_is(ex, src, variant), same), "convert_timezone changes the instant (or the kind) of a %s" % variant)
        off = f[1]
        got_off = off.f[1].t if isinstance(off, StructV) else None
        if got_off is None:
            raise Unsupported("TimeOffset value %r" % (off,))
        ctx.claim(ex, o.path, got_off == tgt_off, "convert_timezone does not install the target zone's offset")
    if seen != {"Time", "Date", "DateTime"}:
        ctx.failures.append(("convert_timezone: kinds without an Ok path: %s" % sorted({"Time", "Date", "DateTime"} - seen), {}, None))


@spec("C11", "m_time_with_timezone", "time_with_timezone (MIR -> SMT, chrono::Local modelled as one arbitrary fixed offset): re-anchoring a wall time in a zone keeps the wall reading - the result's local time in the target zone equals the source's local time in its own zone - for all times and all offsets within +-14 h")
def _(ctx):
    ex, fields, toks, args, cfgv, tkv = setup_rule("time_with_timezone", "real")
    src, tz = toks["time"], toks["timezone"]
    t, cur_off = tz_fields(src, "Time")
    tgt_off = tz.payload("Timezone").field(1, "i32").t
    ex.assumptions.append(z3.And(cur_off >= -14 * 60, cur_off <= 14 * 60, tgt_off >= -14 * 60, tgt_off <= 14 * 60, t.days >= 2, t.days <= 3652056))
    outs, _ = run_fn(ex, "date_time_rules::time_with_timezone", args)
    ctx.part.functions.append("date_time_rules::time_with_timezone")
    ctx.paths += len(outs)
    rp = ("m_replay_time_with_timezone", [(t.secs, "u32"), (cur_off, "i32"), (tgt_off, "i32")])
    n = 0
    for o in outs:
        if o.kind == "panic":
            ctx.reachable(ex, o.path, "time_with_timezone can panic: " + o.msg, rp)
            continue
        if is_err(o):
            ctx.reachable(ex, o.path, "time_with_timezone declines although its pattern matched", rp)
            continue
        variant, f = ok_payload(o)
        n += 1
        if variant != "Time":
            ctx.failures.append(("time_with_timezone returns a %s" % variant, {}, None))
            continue
        ctx.claim(ex, o.path, f[0].total() + tgt_off * 60 == t.total() + cur_off * 60, "the wall reading changes when a time is re-anchored in a zone", rp)
        ctx.claim(ex, o.path, f[1].f[1].t == tgt_off, "the result does not carry the target zone's offset", rp)
    if not n:
        ctx.failures.append(("time_with_timezone has no Ok path", {}, None))


# ============================================================================ C14
TS_LO, TS_HI = -62135596800, 253402300799     # 0001-01-01 00:00:00 .. 9999-12-31 23:59:59


@spec("C14", "m_unixtime_roundtrip", "from_unixtime / to_unixtime (MIR -> SMT, chrono modelled): 'N to date' is the instant N s after the epoch (zone: the requested one, else the configured one); '<date> as unix' is midnight UTC of the date, '<time|date-time> as unix' that instant; to_unixtime(from_unixtime(N)) = trunc(N) for all timestamps of years 1..9999; no panic in that range")
def _(ctx):
    # from_unixtime
    ex, fields, toks, args, cfgv, tkv = setup_rule("from_unixtime", "real")
    x = fval(toks["number"], "Number")
    n = ex.f_to_int(x, 64, True).t
    ex.assumptions.append(z3.And(n >= TS_LO, n <= TS_HI))
    outs, _ = run_fn(ex, "date_time_rules::from_unixtime", args)
    ctx.part.functions += ["date_time_rules::from_unixtime", "date_time_rules::to_unixtime"]
    ctx.paths += len(outs)
    rp = ("m_replay_unixtime", [(x.t, "f64")])
    ctx.probe("from_unixtime_sod", ex, outs, lambda o: ok_payload(o)[1][0].secs, [(x.t, 1234567890)])
    ctx.probe("from_unixtime_days", ex, outs, lambda o: ok_payload(o)[1][0].days, [(x.t, 1234567890)])
    cnt = 0
    for o in outs:
        if o.kind == "panic":
            ctx.reachable(ex, o.path, "from_unixtime can panic: " + o.msg, rp)
            continue
        if is_err(o):
            ctx.reachable(ex, o.path, "from_unixtime declines although its pattern matched", rp)
            continue
        variant, f = ok_payload(o)
        cnt += 1
        if variant != "DateTime":
            ctx.failures.append(("from_unixtime returns a %s" % variant, {}, None))
            continue
        ctx.claim(ex, o.path, f[0].total() - models.EPOCH_DAYS * 86400 == n, "'N to date' is not the instant N seconds after the epoch", rp)
        has_tz = fields.has_key("timezone")
        tgt = toks["timezone"].payload("Timezone").field(1, "i32").t
        got_off = f[1].f[1].t
        ctx.claim(ex, o.path, z3.Implies(has_tz, got_off == tgt), "'N to <zone>' does not show the requested zone", rp)
    if not cnt:
        ctx.failures.append(("from_unixtime has no Ok path", {}, None))
    # to_unixtime
    ex, fields, toks, args, cfgv, tkv = setup_rule("to_unixtime", "real")
    outs, _ = run_fn(ex, "date_time_rules::to_unixtime", args)
    ctx.paths += len(outs)
    src = toks["data"]
    seen = set()
    _dv, _ = tz_fields(src, "Date")
    ctx.probe("to_unixtime_date", ex, outs, lambda o: ok_payload(o)[1][0].t, [(tag_is(ex, src, "Date"), True), (_dv.days, 738000)])
    for o in outs:
        if o.kind == "panic":
            ctx.reachable(ex, o.path, "to_unixtime can panic: " + o.msg)
            continue
        if is_err(o):
            ctx.reachable(ex, o.path, "to_unixtime declines although its pattern matched")
            continue
        variant, f = ok_payload(o)
        if variant != "Number" or not (isinstance(f[1], EnumV) and f[1].variant == "Raw"):
            ctx.failures.append(("to_unixtime does not return a Raw number", {}, None))
            continue
        for k in ("Time", "Date", "DateTime"):
            if not ex.feasible(o.path, tag_is(ex, src, k)):
                continue
            seen.add(k)
            v, _ = tz_fields(src, k)
            want = (v.total() if k != "Date" else v.days * 86400) - models.EPOCH_DAYS * 86400
            rp2 = ("m_replay_to_unixtime", [({"Time": 0, "Date": 1, "DateTime": 2}[k], "u8"), (v.days, "i64"), (v.secs if k != "Date" else 0, "u32")])
            ctx.claim(ex, o.path.add(tag_is(ex, src, k)), f[0].t == z3.ToReal(want), "'<%s> as unix' is not the number of seconds from the epoch" % k, rp2)
    if seen != {"Time", "Date", "DateTime"}:
        ctx.failures.append(("to_unixtime: kinds without an Ok path: %s" % sorted({"Time", "Date", "DateTime"} - seen), {}, None))


# ============================================================================ C09
@spec("C09", "m_to_duration_dates", "to_duration (MIR -> SMT): 'A to B' on two dates is the absolute number of days between them (as a duration), symmetric in A and B; on two times the absolute difference of the instants; no panic")
def _(ctx):
    ex, fields, toks, args, cfgv, tkv = setup_rule("to_duration", "real")
    outs, _ = run_fn(ex, "duration_rules::to_duration", args)
    ctx.part.functions.append("duration_rules::to_duration")
    ctx.paths += len(outs)
    a, b = toks["source"], toks["target"]
    seen = set()
    _va, _ = tz_fields(a, "Date")
    _vb, _ = tz_fields(b, "Date")
    ctx.probe("to_duration_dates", ex, outs, lambda o: duration_payload(o), [(tag_is(ex, a, "Date"), True), (tag_is(ex, b, "Date"), True), (_va.days, 738000), (_vb.days, 737000)])
    for o in outs:
        if o.kind == "panic":
            ctx.reachable(ex, o.path, "to_duration can panic: " + o.msg)
            continue
        if is_err(o):
            # the patterns bind two times or two dates
            ctx.reachable(ex, o.path.add(z3.Or(z3.And(tag_is(ex, a, "Date"), tag_is(ex, b, "Date")), z3.And(tag_is(ex, a, "Time"), tag_is(ex, b, "Time")))),
                          "to_duration declines two dates / two times")
            continue
        secs = duration_payload(o)
        if secs is None:
            ctx.failures.append(("to_duration returns something that is not a duration", {}, None))
            continue
        for k in ("Date", "Time"):
            cond = z3.And(tag_is(ex, a, k), tag_is(ex, b, k))
            if not ex.feasible(o.path, cond):
                continue
            seen.add(k)
            va, _ = tz_fields(a, k)
            vb, _ = tz_fields(b, k)
            want = abs_(va.days - vb.days) * 86400 if k == "Date" else abs_(va.total() - vb.total())
            rp = ("m_replay_to_duration_dates", [(va.days, "i64"), (vb.days, "i64")]) if k == "Date" else None
            ctx.claim(ex, o.path.add(cond), secs == want, "'A to B' on two %ss is not the absolute difference" % k.lower(), rp)
    if seen != {"Date", "Time"}:
        ctx.failures.append(("to_duration: kinds without an Ok path: %s" % sorted({"Date", "Time"} - seen), {}, None))


# ============================================================================ C02 / C01: glue + parser + interpreter on token lists
ALPHABET = "n+-*/()"


class RefParser:
    """the usual rules over a raw token shape (before the implicit-'+' glue): returns a z3 real term or None"""

    def __init__(self, shape, xs):
        self.s, self.xs, self.i, self.k = shape, xs, 0, 0

    def peek(self):
        return self.s[self.i] if self.i < len(self.s) else None

    def starts_factor(self):
        return self.peek() in ("n", "(")

    def expr(self):
        v = self.term()
        if v is None:
            return None
        while True:
            c = self.peek()
            if c in ("+", "-"):
                self.i += 1
                r = self.term()
                if r is None:
                    return None
                v = v + r if c == "+" else v - r
            elif self.starts_factor():
                r = self.term()
                if r is None:
                    return None
                v = v + r          # operands written side by side are added
            else:
                return v

    def term(self):
        v = self.factor()
        if v is None:
            return None
        while self.peek() in ("*", "/"):
            c = self.peek()
            self.i += 1
            r = self.factor()
            if r is None:
                return None
            v = v * r if c == "*" else z3.If(r == 0, 0, v / r)
        return v

    def factor(self):
        c = self.peek()
        if c in ("+", "-"):
            self.i += 1
            r = self.factor()
            if r is None:
                return None
            return r if c == "+" else -r
        if c == "n":
            self.i += 1
            v = self.xs[self.k]
            self.k += 1
            return v
        if c == "(":
            self.i += 1
            v = self.expr()
            if v is None or self.peek() != ")":
                return None
            self.i += 1
            return v
        return None

    @staticmethod
    def value(shape, xs):
        p = RefParser(shape, xs)
        v = p.expr()
        return v if v is not None and p.i == len(shape) else None


def run_expression(ex, shape):
    """glue + real parser ladder + real interpreter on one token shape; yields (outcome, number terms)"""
    from engine_m import find_fn
    tfields = struct_fields("src/tokinizer/mod.rs", "Tokinizer")
    tok_idx = tfields.index("tokens")
    tk = SymV(ex, "tokinizer", "tokinizer::Tokinizer")
    sess = SymV(ex, "session", "session::Session")
    cfgv = SymV(ex, "config", "config::SmartCalcConfig")
    xs, toks = [], []
    for c in shape:
        if c == "n":
            x = ex.fsym("x%d" % len(xs))
            xs.append(x.t)
            toks.append(EnumV("TokenType", "Number", [x, EnumV("NumberType", "Decimal", [])]))
        elif c == "t":
            toks.append(EnumV("TokenType", "Text", [StrV("word")]))
        elif c == "z":
            toks.append(EnumV("TokenType", "Timezone", [StrV("UTC"), IntV(0, 32, True)]))
        else:
            toks.append(EnumV("TokenType", "Operator", [IntV(ord(c), 32, False)]))
    p0 = Path(stores={(tk.path, tok_idx): VecV(toks)})
    adder = find_fn("missing_token_adder")
    new = find_fn("syntax::<impl at src/syntax/mod.rs:38:1: 38:26>::new") if False else None
    fns = ex.fns
    newfn = [f for n, f in fns.items() if n.endswith("::new") and f.args and len(f.args) == 2 and "Tokinizer" in f.args[1][1] and "Session" in f.args[0][1]]
    parsefn = [f for n, f in fns.items() if _re.search(r"syntax::<impl at src/syntax/mod\.rs[^>]*>::parse$", n)]
    execfn = [f for n, f in fns.items() if _re.search(r"<impl at src/compiler/mod\.rs[^>]*>::execute$", n)]
    if len(newfn) != 1 or len(parsefn) != 1 or len(execfn) != 1:
        raise Unsupported("parser entry points not found (%d,%d,%d)" % (len(newfn), len(parsefn), len(execfn)))
    for o1 in ex.run(adder, [RefV(tk)], p0):
        if o1.kind == "panic":
            yield o1, xs
            continue
        for o2 in ex.run(newfn[0], [RefV(sess), RefV(tk)], o1.path):
            parser = o2.value
            for o3 in ex.run(parsefn[0], [RefV(parser)], o2.path):
                if o3.kind == "panic":
                    yield o3, xs
                    continue
                r = o3.value
                if not (isinstance(r, EnumV) and r.enum == "Result"):
                    raise Unsupported("parse returned %r" % (r,))
                if r.variant == "Err":
                    yield Outcome_("parse_err", o3.path, r.f[0]), xs
                    continue
                for o4 in ex.run(execfn[0], [RefV(cfgv), r.f[0], RefV(sess)], o3.path):
                    yield o4, xs


class Outcome_:
    def __init__(self, kind, path, value=None, msg=""):
        self.kind, self.path, self.value, self.msg = kind, path, value, msg


def result_number(o):
    """Ok(Rc<Item(NumberItem(v, _))>) -> FloatV or None"""
    v = o.value
    if isinstance(v, EnumV) and v.enum == "Result" and v.variant == "Ok":
        a = v.f[0]
        if isinstance(a, EnumV) and a.variant == "Item" and isinstance(a.f[0], ItemV) and a.f[0].kind == "NumberItem":
            return a.f[0].f[0]
    return None


def result_percent(o):
    """Ok(Rc<Item(PercentItem(v))>) -> FloatV or None"""
    v = o.value
    if isinstance(v, EnumV) and v.enum == "Result" and v.variant == "Ok":
        a = v.f[0]
        if isinstance(a, EnumV) and a.variant == "Item" and isinstance(a.f[0], ItemV) and a.f[0].kind == "PercentItem":
            f0 = a.f[0].f[0] if not isinstance(a.f[0].f, SymV) else a.f[0].f.field(0, "f64")
            return f0
    return None


def shapes(max_len):
    import itertools
    for n in range(1, max_len + 1):
        for t in itertools.product(ALPHABET, repeat=n):
            yield "".join(t)


def wellformed_shapes(max_len):
    """all well-formed expression shapes up to max_len tokens, generated from the reference grammar (factor := sign
    factor | n | ( expr ); term := factor (*|/ factor)*; expr := term ((+|-)? term)*) and filtered by RefParser"""
    L = max_len
    E = [set() for _ in range(L + 1)]
    T = [set() for _ in range(L + 1)]
    F = [set() for _ in range(L + 1)]
    for k in range(1, L + 1):
        if k == 1:
            F[k].add("n")
        if k >= 2:
            for f in F[k - 1]:
                F[k].add("+" + f)
                F[k].add("-" + f)
        if k >= 3:
            for e in E[k - 2]:
                F[k].add("(" + e + ")")
        T[k] |= F[k]
        for i in range(1, k - 1):
            for t in T[i]:
                for f in F[k - 1 - i]:
                    T[k].add(t + "*" + f)
                    T[k].add(t + "/" + f)
        E[k] |= T[k]
        for i in range(1, k - 1):
            for e in E[i]:
                for t in T[k - 1 - i]:
                    E[k].add(e + "+" + t)
                    E[k].add(e + "-" + t)
        for i in range(1, k):
            for e in E[i]:
                for t in T[k - i]:
                    if t[0] in "n(":
                        E[k].add(e + t)
    out = []
    for k in range(1, L + 1):
        for sh in sorted(E[k]):
            xs = [z3.Real("x%d" % i) for i in range(sh.count("n"))]
            if RefParser.value(sh, xs) is not None:
                out.append(sh)
    return out


def shape_code(shape):
    return [(len(shape), "u8")] + [(ALPHABET.index(c), "u8") for c in shape]


def check_shape(shape):
    from engine_m import run_deep
    try:
        return run_deep(check_shape_body, shape)
    except Exception as e:  # noqa: BLE001
        return {"shape": shape, "wf": False, "status": "unsupported", "detail": ("%s: %s" % (type(e).__name__, e))[:300], "queries": 0, "paths": 0, "values": None, "t": 0.0}


def check_shape_body(shape):
    """worker: returns (shape, well_formed, status, detail, n_paths, n_queries, solver_s, model)"""
    import time as _t
    ex = new_exec("real", feas_ms=2000)
    t0 = _t.time()
    nq = 0
    res = {"shape": shape, "wf": False, "status": "pass", "detail": "", "paths": 0, "queries": 0, "values": None}
    try:
        xs_syms = None
        outs = list(run_expression(ex, shape))
        res["paths"] = len(outs)
        xs = outs[0][1] if outs else []
        want = RefParser.value(shape, xs) if outs else None
        res["wf"] = want is not None
        for o, _ in outs:
            s = z3.Solver()
            s.set("timeout", 20000)
            for c in ex.domain + ex.assumptions + list(o.path.pc):
                s.add(c)
            if o.kind == "panic":
                nq += 1
                r = s.check()
                if r == z3.sat:
                    m = s.model()
                    res.update(status="fail", detail="panic: " + o.msg, values=[str(m.eval(x, model_completion=True)) for x in xs])
                    break
                if r == z3.unknown:
                    res.update(status="unknown", detail="panic path undecided")
                continue
            if want is None:
                continue
            got = result_number(o) if o.kind == "return" else None
            if got is None:
                nq += 1
                r = s.check()
                if r == z3.sat:
                    m = s.model()
                    what = "is rejected (%s)" % (o.value.f[0] if o.kind == "parse_err" and hasattr(o.value, "f") else o.kind) if o.kind == "parse_err" else "does not evaluate to a number"
                    res.update(status="fail", detail="well-formed expression %s" % what, values=[str(m.eval(x, model_completion=True)) for x in xs])
                    break
                continue
            s.add(z3.Not(z3.And(got.t == want)))
            nq += 1
            r = s.check()
            if r == z3.sat:
                m = s.model()
                res.update(status="fail", detail="value differs from the usual rules", values=[str(m.eval(x, model_completion=True)) for x in xs])
                break
            if r == z3.unknown:
                res.update(status="unknown", detail="value query undecided")
    except Unsupported as e:
        res.update(status="unsupported", detail=str(e)[:200])
    except Exception as e:  # noqa: BLE001  (never let a worker die: the pool would wait forever)
        res.update(status="unsupported", detail=("%s: %s" % (type(e).__name__, e))[:200])
    res["queries"] = nq
    res["t"] = _t.time() - t0
    return res


def expression_spec(ctx, max_len, finding_filter=None, wellformed_to=None, sample_to=None, sample_n=0):
    import multiprocessing as mp
    from engine_m import mir, to_f64, f64_bytes
    mir()
    todo = list(shapes(max_len))
    if wellformed_to:
        have = set(todo)
        todo += [sh for sh in wellformed_shapes(wellformed_to) if sh not in have]
    if sample_to:
        # a VERIF_SEED-dependent sample of longer well-formed shapes (quick tier; the thorough tier enumerates them all)
        import random
        import common
        rnd = random.Random(1000 + common.seed())
        longer = [sh for sh in wellformed_shapes(sample_to) if len(sh) > (wellformed_to or max_len)]
        todo += rnd.sample(longer, min(sample_n, len(longer)))
    with mp.Pool(min(16, mp.cpu_count())) as pool:
        results = pool.map(check_shape, todo, chunksize=32)
    ctx.part.functions += ["tokinizer::Tokinizer::missing_token_adder", "syntax::SyntaxParser::parse", "syntax::binary::parse_binary", "syntax::unary::UnaryParser::parse",
                           "syntax::primative::PrimativeParser::parse", "syntax::assignment::AssignmentParser::parse", "compiler::Interpreter::execute", "compiler::number::calculate"]
    wf = [r for r in results if r["wf"]]
    ctx.paths += sum(r["paths"] for r in results)
    ctx.part.queries += sum(r["queries"] for r in results)
    ctx.part.solver_s += sum(r["t"] for r in results)
    ctx.part.sample = {"token_shapes": len(results), "well_formed": len(wf), "alphabet": ALPHABET, "example": wf[len(wf) // 2]["shape"] if wf else None}
    return results


def report_shapes(ctx, results, keep):
    from engine_m import to_f64, f64_bytes
    uns = [r for r in results if r["status"] == "unsupported"]
    if uns:
        raise Unsupported("%d shapes refused, e.g. %s: %s" % (len(uns), uns[0]["shape"], uns[0]["detail"]))
    for r in results:
        if r["status"] == "unknown" and keep(r):
            ctx.unknown.append("%s: %s" % (r["shape"], r["detail"]))
        if r["status"] == "fail" and keep(r):
            vals = [f64_bytes(to_f64(v)) for v in (r["values"] or [])]
            enc = [[len(r["shape"])]] + [[ALPHABET.index(c)] for c in r["shape"]] + vals
            ctx.failures.append(("tokens %s: %s" % (" ".join(r["shape"]), r["detail"]), {"shape": r["shape"], "numbers": r["values"]}, ("m_replay_expression", enc)))


@spec("C02", "m_expression_shapes_6", "every well-formed expression of <= 6 tokens over {number, + - * / ( )} (973 shapes, generated from the grammar), every token list of <= 4 tokens, and a VERIF_SEED-dependent sample of 320 well-formed expressions of 7..8 tokens, through the REAL glue (missing_token_adder), parser ladder and interpreter, translated from MIR: the value is the one given by precedence, left associativity, parentheses, sign prefixes (repeated, before parentheses), juxtaposition = '+' and x/0 = 0, for ALL real operand values; operand values symbolic (z3)", tiers=("quick",))
def _(ctx):
    res = expression_spec(ctx, 4, wellformed_to=6, sample_to=8, sample_n=320)
    report_shapes(ctx, res, lambda r: r["wf"])


def check_nested(depth):
    """worker: ((( ... (x + y) ... ))) * z at the given nesting depth"""
    from engine_m import run_deep

    def body():
        ex = new_exec("real", feas_ms=2000)
        ex.max_depth, ex.max_steps = 100000, 100000
        shape = "(" * depth + "n+n" + ")" * depth + "*n"
        res = {"depth": depth, "status": "pass", "detail": "", "paths": 0, "values": None}
        for o, xs in run_expression(ex, shape):
            res["paths"] += 1
            s_ = z3.Solver()
            s_.set("timeout", 20000)
            for c in ex.domain + ex.assumptions + list(o.path.pc):
                s_.add(c)
            got = result_number(o) if o.kind == "return" else None
            if got is None:
                if s_.check() == z3.sat:
                    res.update(status="fail", detail="%d nested parentheses: the expression %s" % (depth, "panics: " + o.msg if o.kind == "panic" else "is rejected / does not evaluate to a number"), values=["1", "2", "3"])
                    return res
                continue
            s_.add(got.t != (xs[0] + xs[1]) * xs[2])
            r = s_.check()
            if r == z3.sat:
                m = s_.model()
                res.update(status="fail", detail="%d nested parentheses: the value is not (x + y) * z" % depth, values=[str(m.eval(x, model_completion=True)) for x in xs])
                return res
            if r == z3.unknown:
                res.update(status="unknown", detail="depth %d undecided" % depth)
        if not res["paths"]:
            res.update(status="fail", detail="%d nested parentheses: no outcome" % depth, values=["1", "2", "3"])
        return res
    try:
        return run_deep(body)
    except Unsupported as e:
        return {"depth": depth, "status": "unsupported", "detail": str(e)[:200], "paths": 0, "values": None}
    except Exception as e:  # noqa: BLE001
        return {"depth": depth, "status": "unsupported", "detail": ("%s: %s" % (type(e).__name__, e))[:200], "paths": 0, "values": None}


def nested_spec(ctx, depths):
    import multiprocessing as mp
    from engine_m import mir, to_f64, f64_bytes
    mir()
    with mp.Pool(min(16, mp.cpu_count())) as pool:
        results = pool.map(check_nested, depths, chunksize=1)
    ctx.part.functions += ["syntax::primative::PrimativeParser::parse_parenthesis", "syntax::SyntaxParser::parse", "compiler::Interpreter::execute"]
    ctx.part.sample = {"nesting_depths": list(depths)}
    for r in results:
        ctx.paths += r["paths"]
        ctx.part.queries += max(1, r["paths"])
        if r["status"] == "unknown":
            ctx.unknown.append(r["detail"])
        elif r["status"] == "fail":
            vals = [f64_bytes(to_f64(v)) for v in (r["values"] or ["1", "2", "3"])]
            ctx.failures.append((r["detail"], {"depth": r["depth"]}, ("m_replay_nested", [[r["depth"] % 256]] + vals)))
    uns = [r for r in results if r["status"] == "unsupported"]
    if uns and not ctx.failures:
        raise Unsupported("depth %d refused: %s" % (uns[0]["depth"], uns[0]["detail"]))


@spec("C02", "m_nested_parentheses", "parentheses nested 9, 17, 33 and 40 deep around x + y, times z, through the real glue, parser ladder and interpreter (MIR, operands symbolic): the value is (x + y) * z - grouping works at depths far beyond the exhaustive sweep's token bound", tiers=("quick",))
def _(ctx):
    nested_spec(ctx, [9, 17, 33, 40])


@spec("C02", "m_nested_parentheses_all", "every nesting depth 1..48, then 64 and 100", tiers=("thorough",))
def _(ctx):
    nested_spec(ctx, list(range(1, 49)) + [64, 100])


@spec("C02", "m_expression_shapes_8", "same for EVERY well-formed expression of <= 8 tokens (16 124 shapes) plus every token list of <= 5 tokens", tiers=("thorough",))
def _(ctx):
    res = expression_spec(ctx, 5, wellformed_to=8)
    report_shapes(ctx, res, lambda r: r["wf"])


@spec("C01", "m_token_pipeline_total_4", "every token list of length <= 4 over {number, + - * / ( )}, well-formed or not, through the real glue, parser and interpreter (MIR): no panic path is satisfiable and every loop/recursion terminates within the executor's budget", tiers=("quick",))
def _(ctx):
    res = expression_spec(ctx, 4)
    report_shapes(ctx, res, lambda r: r["detail"].startswith("panic") or r["status"] == "unknown")


WORDS = "n+-*/()tz"


def check_shape_total(shape):
    from engine_m import run_deep
    try:
        return run_deep(check_shape_total_body, shape)
    except Exception as e:  # noqa: BLE001
        return {"shape": shape, "wf": False, "status": "unsupported", "detail": ("%s: %s" % (type(e).__name__, e))[:300], "queries": 0, "paths": 0, "values": None, "t": 0.0}


def check_shape_total_body(shape):
    """worker for the totality sweep with word tokens: panic paths and non-termination"""
    import time as _t
    ex = new_exec("real", feas_ms=2000)
    t0 = _t.time()
    ex.clock = _t.process_time
    ex.deadline = _t.process_time() + 20          # CPU seconds of this worker: independent of the machine's load
    res = {"shape": shape, "wf": False, "status": "pass", "detail": "", "paths": 0, "queries": 0, "values": None}
    nq = 0
    try:
        for o, xs in run_expression(ex, shape):
            if _t.process_time() > ex.deadline:
                raise Unsupported("block budget exceeded: the time budget of this shape (20 CPU s) is exhausted")
            res["paths"] += 1
            if o.kind != "panic":
                continue
            s = z3.Solver()
            s.set("timeout", 20000)
            for c in ex.domain + ex.assumptions + list(o.path.pc):
                s.add(c)
            nq += 1
            r = s.check()
            if r == z3.sat:
                m = s.model()
                res.update(status="fail", detail="panic: " + o.msg, values=[str(m.eval(x, model_completion=True)) for x in xs])
                break
            if r == z3.unknown:
                res.update(status="unknown", detail="panic path undecided")
    except Unsupported as e:
        msg = str(e)
        if "block budget exceeded" in msg or "call depth" in msg or "time budget" in msg:
            # the executor ran the same loop / recursion past its budget on concrete control flow: a candidate for
            # non-termination, decided by the native run (a run that does not return within its time limit)
            res.update(status="fail", detail="does not terminate within the executor's budget: " + msg[:120], values=["1"] * shape.count("n"))
        else:
            res.update(status="unsupported", detail=msg[:200])
    except Exception as e:  # noqa: BLE001  (a RecursionError surfaces through ctypes as ArgumentError)
        if "RecursionError" in repr(e) or isinstance(e, RecursionError):
            res.update(status="fail", detail="does not terminate within the executor's budget (interpreter recursion exhausted)", values=["1"] * shape.count("n"))
        else:
            res.update(status="unsupported", detail=("%s: %s" % (type(e).__name__, e))[:200])
    res["queries"] = nq
    res["t"] = _t.time() - t0
    return res


def words_spec(ctx, max_len):
    import itertools
    import multiprocessing as mp
    from engine_m import mir, to_f64, f64_bytes
    mir()
    todo = ["".join(t) for n in range(1, max_len + 1) for t in itertools.product(WORDS, repeat=n) if ("t" in t or "z" in t)]
    results = []
    with mp.Pool(min(16, mp.cpu_count())) as pool:
        for r in pool.imap_unordered(check_shape_total, todo, chunksize=8):
            results.append(r)
            if sum(1 for x in results if x["status"] == "fail") >= 24:
                pool.terminate()      # enough counterexample candidates; an interrupted sweep is never a pass
                break
    ctx.part.functions += ["tokinizer::Tokinizer::missing_token_adder", "syntax::SyntaxParser::parse", "syntax::binary::parse_binary", "syntax::unary::UnaryParser::parse",
                           "syntax::primative::PrimativeParser::parse", "compiler::Interpreter::execute"]
    ctx.paths += sum(r["paths"] for r in results)
    ctx.part.queries += sum(max(1, r["queries"]) for r in results)
    ctx.part.solver_s += sum(r["t"] for r in results)
    ctx.part.sample = {"token_shapes": len(results), "alphabet": WORDS, "t": "an unabsorbed word (Text)", "z": "a time zone name (Timezone)"}
    for r in results:
        if r["status"] == "unknown":
            ctx.unknown.append("%s: %s" % (r["shape"], r["detail"]))
        if r["status"] == "fail":
            vals = [f64_bytes(to_f64(v)) for v in (r["values"] or [])]
            enc = [[len(r["shape"])]] + [[WORDS.index(c)] for c in r["shape"]] + vals
            ctx.failures.append(("tokens %s: %s" % (" ".join(r["shape"]), r["detail"]), {"shape": r["shape"], "numbers": r["values"]}, ("m_replay_token_pipeline", enc)))
    # structural evidence of a loop (block budget / recursion) before mere time-outs, short shapes first
    ctx.failures.sort(key=lambda f: (1 if "time budget" in f[0] else 0, len(f[1]["shape"])))
    uns = [r for r in results if r["status"] == "unsupported"]
    if uns and not ctx.failures:
        raise Unsupported("%d shapes refused, e.g. %s: %s" % (len(uns), uns[0]["shape"], uns[0]["detail"]))
    if uns:
        ctx.unknown.append("%d shapes refused, e.g. %s: %s" % (len(uns), uns[0]["shape"], uns[0]["detail"]))


@spec("C01", "m_token_pipeline_words_4", "every token list of length <= 4 over {number, + - * / ( ), an unabsorbed word, a time-zone name} that contains a word or zone, through the real glue, parser and interpreter (MIR): no panic path is satisfiable and every loop/recursion terminates (a loop the executor cannot leave within its budget is replayed natively: a run that does not return is the violation)", tiers=("quick",))
def _(ctx):
    words_spec(ctx, 4)


@spec("C01", "m_token_pipeline_words_5", "same for length <= 5", tiers=("thorough",))
def _(ctx):
    words_spec(ctx, 5)


@spec("C01", "m_token_pipeline_total_5", "same for length <= 5 (19 607 shapes)", tiers=("thorough",))
def _(ctx):
    res = expression_spec(ctx, 5)
    report_shapes(ctx, res, lambda r: r["detail"].startswith("panic") or r["status"] == "unknown")


@spec("C11", "m_to_duration_times", "to_duration (MIR -> SMT): 'T1 to T2' on two times is the absolute difference of the two instants, symmetric, for all times of years 1..9999; no panic")
def _(ctx):
    ex, fields, toks, args, cfgv, tkv = setup_rule("to_duration", "real")
    a, b = toks["source"], toks["target"]
    ex.assumptions.append(z3.And(tag_is(ex, a, "Time"), tag_is(ex, b, "Time")))
    outs, _ = run_fn(ex, "duration_rules::to_duration", args)
    ctx.part.functions.append("duration_rules::to_duration")
    ctx.paths += len(outs)
    va, offa = tz_fields(a, "Time")
    vb, offb = tz_fields(b, "Time")
    ex.assumptions.append(z3.And(offa >= -12 * 60, offa <= 14 * 60, offb >= -12 * 60, offb <= 14 * 60))
    rp = ("m_replay_to_duration_times", [(va.days, "i64"), (va.secs, "u32"), (vb.days, "i64"), (vb.secs, "u32"), (offa, "i32"), (offb, "i32")])
    n = 0
    for o in outs:
        if o.kind == "panic":
            ctx.reachable(ex, o.path, "to_duration can panic: " + o.msg, rp)
        elif is_err(o):
            ctx.reachable(ex, o.path, "to_duration declines two times", rp)
        else:
            secs = duration_payload(o)
            n += 1
            ctx.claim(ex, o.path, secs == abs_(va.total() - vb.total()), "'T1 to T2' is not the absolute difference of the two instants", rp)
    if not n:
        ctx.failures.append(("to_duration has no Ok path for two times", {}, None))


@spec("C09", "m_small_date", "small_date (MIR -> SMT, Gregorian calendar modelled and validated against chrono): day / month (number or month name) / optional year (default: the current year) yield exactly the calendar date (day number of y-m-d) when y-m-d is a date of the proleptic Gregorian calendar, and are declined otherwise (impossible dates are never accepted), for all f64 day/month/year values incl. fractional, negative and huge ones; no panic")
def _(ctx):
    ex, fields, toks, args, cfgv, tkv = setup_rule("small_date", "real")
    outs, _ = run_fn(ex, "small_date", args)
    ctx.part.functions += ["date_rules::small_date", "tokinizer::tools::get_number_or_month"]
    ctx.paths += len(outs)
    xd = fval(toks["day"], "Number")
    mt = toks["month"]
    m_is_num = tag_is(ex, mt, "Number")
    xm = fval(mt, "Number")
    m_tok = mt.payload("Month").field(0, "u32").t
    has_y = fields.has_key("year")
    xy = fval(toks["year"], "Number") if "year" in toks else None
    d = ex.f_to_int(xd, 32, False).t
    m = z3.If(m_is_num, ex.f_to_int(xm, 32, False).t, m_tok)
    now_year = None
    n_ok = 0
    rp_terms = [(has_y, "bool"), (m_is_num, "bool"), (xd.t, "f64"), (z3.If(m_is_num, xm.t, z3.ToReal(m_tok)), "f64"), (xy.t if xy is not None else 0.0, "f64")]
    rp = ("m_replay_small_date", rp_terms)
    for o in outs:
        if o.kind == "panic":
            ctx.reachable(ex, o.path, "small_date can panic: " + o.msg, rp)
            continue
        y_given = ex.f_to_int(xy, 32, True).t if xy is not None else None
        ny = getattr(ex, "_now_year", None)
        y = z3.If(has_y, y_given, ny) if (y_given is not None and ny is not None) else (y_given if y_given is not None else ny)
        if y is None:
            continue
        valid = models.valid_ymd(y, m, d)
        if is_err(o):
            ctx.claim(ex, o.path, z3.Not(valid), "small_date declines a real calendar date", rp)
            continue
        variant, f = ok_payload(o)
        n_ok += 1
        if variant != "Date":
            ctx.failures.append(("small_date returns a %s" % variant, {}, None))
            continue
        ctx.claim(ex, o.path, valid, "small_date accepts an impossible date", rp)
        ctx.claim(ex, o.path, f[0].days == models.days_from_civil(y, m, d), "small_date does not denote the calendar date day/month/year", rp)
    if not n_ok:
        ctx.failures.append(("small_date has no Ok path", {}, None))


# ============================================================================ C12: arithmetic between unit quantities
def h_convert_uninterpreted(ex, name, args, path, depth, caller):
    """DynamicTypeItem::convert(config, number, source_type, target_name): conversion is decided by engine D;
    here it is an uninterpreted partial linear map k(source unit, target name) * number"""
    number, src, tgt = models.deref(args[1]), models.deref(args[2]), models.deref(args[3])
    sid = unit_id(ex, src)
    tname = tgt.term()
    has = z3.Function("convert.has", z3.IntSort(), z3.StringSort(), z3.BoolSort())(sid, tname)
    k = z3.Function("convert.k", z3.IntSort(), z3.StringSort(), z3.RealSort())(sid, tname)
    tid = z3.Function("convert.target", z3.IntSort(), z3.StringSort(), z3.IntSort())(sid, tname)
    yield from models.fork(ex, path, has, lambda: models.some(TupleV([FloatV(number.t * k, number.undef), UnitV(tid)])), models.NONE)


class UnitV:
    """Rc<DynamicType> identified by an integer (group, index); names[0] is a function of it"""
    def __init__(self, uid):
        self.uid = uid


def unit_id(ex, v):
    v = models.deref(v)
    if isinstance(v, UnitV):
        return v.uid
    if isinstance(v, SymV):
        if not hasattr(v, "_uid"):
            v._uid = z3.Int(v.path + ".unit")
            ex.inputs[v.path + ".unit"] = v._uid
        return v._uid
    raise Unsupported("unit value %r" % (v,))


@spec("C12", "m_unit_calculate", "DynamicTypeItem::calculate (MIR -> SMT; conversion itself uninterpreted, decided by engine D): quantity (+,-) quantity converts the RIGHT operand into the left operand's unit (whatever the two units are) and keeps the left unit; quantity * / number scales and keeps the unit; quantity / quantity is a plain number; no panic")
def _(ctx):
    import re
    for op in OPS:
        ex = new_exec("real")
        ex.handlers.insert(0, (re.compile(r"^DynamicTypeItem::convert$"), h_convert_uninterpreted))
        ex.handlers.insert(0, (re.compile(r"^<Vec<(alloc::string::)?String> as (core::ops::)?Index<usize>>::index$"), lambda ex_, name, args, path, depth, caller: ex_.ret(path, RefV(StrV(z3.Function("unit.name0", z3.IntSort(), z3.StringSort())(unit_id(ex_, NAMES_OWNER[0])))))))
        cfgv, item, other, me = calc_setup(ex, "DynamicTypeItem", ["DynamicTypeItem"])
        my_unit = me.field(1, "Rc<config::DynamicType>")
        NAMES_OWNER[0] = my_unit
        outs = run_calc(ex, "DynamicTypeItem", item, cfgv, other, op)
        ctx.part.functions.append("compiler::dynamic_type::calculate")
        ctx.paths += len(outs)
        x = me.field(0, "f64").t
        y = other.payload("DynamicTypeItem").field(0, "f64").t
        o_unit = other.payload("DynamicTypeItem").field(1, "Rc<config::DynamicType>")
        sid, myid = unit_id(ex, o_unit), unit_id(ex, my_unit)
        myname = z3.Function("unit.name0", z3.IntSort(), z3.StringSort())(myid)
        k = z3.Function("convert.k", z3.IntSort(), z3.StringSort(), z3.RealSort())(sid, myname)
        has = z3.Function("convert.has", z3.IntSort(), z3.StringSort(), z3.BoolSort())(sid, myname)
        conv = y * k
        rpu = ("m_replay_unit_calc", [(OPS.index(op), "u8"), (x, "f64"), (y, "f64")])
        for o in outs:
            if o.kind == "panic":
                ctx.reachable(ex, o.path, "DynamicTypeItem %s can panic: %s" % (op, o.msg), rpu)
                continue
            it = some_item(o)
            if it == "None":
                ctx.claim(ex, o.path, z3.Not(has), "unit arithmetic gives up although the right operand is convertible", rpu)
                continue
            if it is None:
                raise Unsupported("calculate returned %r" % (o.value,))
            if op == "Div":
                if it.kind != "NumberItem":
                    ctx.failures.append(("quantity / quantity yields a %s" % it.kind, {}, None))
                    continue
                ctx.claim(ex, o.path, z3.And(has, it.f[0].t == z3.If(conv == 0, 0, x / conv)), "quantity / quantity is not the ratio after converting the right operand", rpu)
            else:
                if it.kind != "DynamicTypeItem":
                    ctx.failures.append(("quantity %s quantity yields a %s" % (op, it.kind), {}, None))
                    continue
                ctx.claim(ex, o.path, unit_id(ex, it.f[1]) == myid, "quantity %s quantity does not keep the left operand's unit" % op, rpu)
                if op in ("Add", "Sub"):
                    ctx.claim(ex, o.path, z3.And(has, it.f[0].t == real_op(op, x, conv)), "quantity %s quantity does not convert the right operand into the left unit" % op, rpu)
        # quantity (op) number
        ex = new_exec("real")
        cfgv, item, other, me = calc_setup(ex, "DynamicTypeItem", ["NumberItem"])
        outs = run_calc(ex, "DynamicTypeItem", item, cfgv, other, op)
        ctx.paths += len(outs)
        x = me.field(0, "f64").t
        y = other.payload("NumberItem").field(0, "f64").t
        myid = unit_id(ex, me.field(1, "Rc<config::DynamicType>"))
        for o in outs:
            if o.kind == "panic":
                ctx.reachable(ex, o.path, "DynamicTypeItem %s NumberItem can panic: %s" % (op, o.msg))
                continue
            it = some_item(o)
            if it == "None" or it is None or it.kind != "DynamicTypeItem":
                ctx.reachable(ex, o.path, "quantity %s number is not a quantity" % op)
                continue
            ctx.claim(ex, o.path, z3.And(unit_id(ex, it.f[1]) == myid, it.f[0].t == real_op(op, x, y)), "quantity %s number does not scale the amount / keep the unit" % op)


NAMES_OWNER = [None]


@spec("C11", "m_parse_timezone_gmt", "parse_timezone (MIR -> SMT, regex captures as symbolic inputs): a 'GMT+-h[:mm]' zone denotes the offset sign * (60 h + mm) minutes for every hour/minute numeral and both signs (a missing sign is '+', missing minutes are 0); a table zone denotes the table's offset; no panic")
def _(ctx):
    ex = new_exec("real")
    cfgv = SymV(ex, "config", "config::SmartCalcConfig")
    cap = models.CapturesV(ex)
    fn = find_fn("parse_timezone")
    outs = list(ex.run(fn, [RefV(cfgv), RefV(cap)], Path()))
    ctx.part.functions.append("tools::parse_timezone")
    ctx.paths += len(outs)
    num = z3.Function("str.numeral", z3.StringSort(), z3.IntSort())
    has1, _t1 = cap.group("timezone_1")
    has2, _t2 = cap.group("timezone_2")
    hh, th = cap.group("timezone_hour")
    hm, tm = cap.group("timezone_minute")
    hs, ts = cap.group("timezone_type")
    h, mi = num(th), num(tm)
    ex.assumptions.append(z3.And(h >= 0, h <= 19, mi >= 0, mi <= 59))
    n = 0
    for o in outs:
        if o.kind == "panic":
            ctx.reachable(ex, o.path, "parse_timezone can panic: " + o.msg)
            continue
        v = o.value
        if not (isinstance(v, EnumV) and v.enum == "Option"):
            raise Unsupported("parse_timezone returned %r" % (v,))
        if v.variant == "None":
            continue
        tup = v.f[0]
        off = tup.f[1] if isinstance(tup, TupleV) else None
        if not isinstance(off, IntV):
            raise Unsupported("parse_timezone payload %r" % (tup,))
        if ex.feasible(o.path, z3.And(z3.Not(has1), has2)):
            n += 1
            sign = z3.If(z3.And(hs, ts == z3.StringVal("-")), -1, 1)
            want = sign * (60 * h + z3.If(hm, mi, 0))
            ctx.claim(ex, o.path.add(z3.And(z3.Not(has1), has2)), off.t == want, "GMT+-h:mm does not denote sign * (60 h + mm) minutes",
                      ("m_replay_parse_timezone", [(z3.And(hs, ts == z3.StringVal("-")), "bool"), (h, "u8"), (hm, "bool"), (mi, "u8")]))
    if not n:
        ctx.failures.append(("parse_timezone has no GMT path", {}, None))


@spec("C13", "m_based_number_arithmetic", "NumberItem::calculate (MIR -> SMT): a hex / octal / binary / raw number takes part in + - * / exactly like a decimal one (the real operation, x/0 = 0) and the result keeps the left operand's NumberType")
def _(ctx):
    for op in OPS:
        ex = new_exec("real")
        cfgv, item, other, me = calc_setup(ex, "NumberItem", ["NumberItem"])
        outs = run_calc(ex, "NumberItem", item, cfgv, other, op)
        ctx.part.functions.append("compiler::number::calculate")
        ctx.paths += len(outs)
        x = me.field(0, "f64").t
        nt = me.field(1, "types::NumberType")
        y = other.payload("NumberItem").field(0, "f64").t
        rp = ("m_replay_based_calc", [(OPS.index(op), "u8"), (nt.tag(), "u8"), (x, "f64"), (y, "f64")])
        for o in outs:
            if o.kind == "panic":
                ctx.reachable(ex, o.path, "NumberItem %s can panic: %s" % (op, o.msg), rp)
                continue
            it = some_item(o)
            if it == "None" or it is None or it.kind != "NumberItem":
                ctx.reachable(ex, o.path, "number %s number is not a number" % op, rp)
                continue
            ctx.claim(ex, o.path, it.f[0].t == real_op(op, x, y), "a based number does not take part in %s like a decimal number" % op, rp)
            t = it.f[1]
            same = (t.tag() == nt.tag()) if isinstance(t, SymV) else (ex.discr("NumberType", t.variant) == nt.tag())
            ctx.claim(ex, o.path, same, "the result of %s does not keep the left operand's NumberType" % op, rp)



# ============================================================================ C03: straight-line programs of assignments and uses
def tinfo(start, text, tok):
    return StructV("TokenInfo", [IntV(start, 64, False), IntV(start + len(text), 64, False), EnumV("Option", "Some", [tok]), StrV(text),
                                 EnumV("TokenInfoStatus", "Active", [])])


class LineRunner:
    """runs one line (a list of lexical tokens) through update_token_variables, token_generator, token_cleaner,
    missing_token_adder, the parser and the interpreter, all translated from MIR, on a shared session"""

    def __init__(self, ex):
        from engine_m import find_fn
        self.ex = ex
        self.tfields = struct_fields("src/tokinizer/mod.rs", "Tokinizer")
        self.sfields = struct_fields("src/session.rs", "Session")
        self.sess = SymV(ex, "session", "session::Session")
        self.cfgv = SymV(ex, "config", "config::SmartCalcConfig")
        fns = ex.fns
        pick = lambda rx: [f for n, f in fns.items() if _re.search(rx, n)]
        self.f_update = find_fn("update_token_variables")
        self.f_gen = pick(r"tokinizer::<impl at src/tokinizer/mod\.rs[^>]*>::token_generator$")[0]
        self.f_clean = pick(r"tokinizer::<impl at src/tokinizer/mod\.rs[^>]*>::token_cleaner$")[0]
        self.f_add = pick(r"tokinizer::<impl at src/tokinizer/mod\.rs[^>]*>::missing_token_adder$")[0]
        self.f_new = [f for n, f in fns.items() if n.endswith("::new") and f.args and len(f.args) == 2 and "Tokinizer" in f.args[1][1] and "Session" in f.args[0][1]][0]
        self.f_parse = pick(r"syntax::<impl at src/syntax/mod\.rs[^>]*>::parse$")[0]
        self.f_exec = pick(r"<impl at src/compiler/mod\.rs[^>]*>::execute$")[0]
        ex.handlers.insert(0, (_re.compile(r"^UiTokenCollection::(sort|update_tokens)$"), models.h_opaque))
        models.install_borrow_tracking(ex)     # RefCell double borrows (variable slots) panic as they do natively
        self.n = 0

    def initial_path(self):
        return Path(stores={(self.sess.path, self.sfields.index("variables")): MapC()})

    def run_line(self, toks, path):
        """toks: list of ('t', text) | ('n', FloatV) | ('o', char). yields (kind, path, value)"""
        ex = self.ex
        self.n += 1
        tk = SymV(ex, "tokinizer%d" % self.n, "tokinizer::Tokinizer")
        infos, pos = [], 0
        for kind, v in toks:
            if kind == "t":
                infos.append(tinfo(pos, v, EnumV("TokenType", "Text", [StrV(v)])))
                pos += len(v) + 1
            elif kind == "n":
                infos.append(tinfo(pos, "1", EnumV("TokenType", "Number", [v, EnumV("NumberType", "Decimal", [])])))
                pos += 2
            elif kind == "d":
                infos.append(tinfo(pos, "1h", EnumV("TokenType", "Duration", [DurationV(z3.IntVal(3600))])))
                pos += 3
            elif kind == "p":
                infos.append(tinfo(pos, "1%", EnumV("TokenType", "Percent", [v])))
                pos += 3
            else:
                infos.append(tinfo(pos, v, EnumV("TokenType", "Operator", [IntV(ord(v), 32, False)])))
                pos += 2
        st = dict(path.stores)
        st[(tk.path, self.tfields.index("token_infos"))] = VecV(infos)
        st[(tk.path, self.tfields.index("tokens"))] = VecV([])
        st[(tk.path, self.tfields.index("session"))] = RefV(self.sess)
        st[(tk.path, self.tfields.index("ui_tokens"))] = OpaqueV("ui_tokens")
        p0 = Path(path.pc, path.events, path.notes, st)

        def chain(fs, p):
            if not fs:
                yield p
                return
            for o in ex.run(fs[0], [RefV(tk)], p):
                if o.kind == "panic":
                    yield o
                else:
                    yield from chain(fs[1:], o.path)
        for p1 in chain([self.f_update, self.f_gen, self.f_clean, self.f_add], p0):
            if isinstance(p1, execmir_Outcome):
                yield "panic", p1.path, p1.msg
                continue
            for o2 in ex.run(self.f_new, [RefV(self.sess), RefV(tk)], p1):
                for o3 in ex.run(self.f_parse, [RefV(o2.value)], o2.path):
                    if o3.kind == "panic":
                        yield "panic", o3.path, o3.msg
                        continue
                    r = o3.value
                    if r.variant == "Err":
                        yield "error", o3.path, r.f[0]
                        continue
                    for o4 in ex.run(self.f_exec, [RefV(self.cfgv), r.f[0], RefV(self.sess)], o3.path):
                        if o4.kind == "panic":
                            yield "panic", o4.path, o4.msg
                        elif isinstance(o4.value, EnumV) and o4.value.variant == "Ok":
                            yield "value", o4.path, result_number(o4) or result_percent(o4)
                        else:
                            yield "error", o4.path, None


from mirsmt.execmir import Outcome as execmir_Outcome  # noqa: E402

NAMES = {"x": ["x"], "y": ["y"], "xy": ["x", "y"], "xyz": ["x", "y", "z"], "u-v": ["u", "-", "v"], "w": ["w"]}


def c03_statements():
    """statement templates: (label, lhs name or None, rhs builder(env, fresh) -> (tokens, reference value or None=fails))"""
    sts = []
    for nm in ("x", "y", "xy"):
        sts.append(("%s=c" % nm, nm, "const"))
        sts.append(("%s=%s+c" % (nm, nm), nm, "self"))
        sts.append(("use %s" % nm, None, "use:" + nm))
        sts.append(("%s=parse-fail" % nm, nm, "fail"))
        sts.append(("%s=eval-fail" % nm, nm, "evalfail"))
    sts.append(("y=x", "y", "copy:x"))
    sts.append(("x=xy*c", "x", "mul:xy"))
    # appended later (indices 17..21; the native replay body numbers them the same way)
    sts.append(("X=c", "x", "constcap"))            # the name written with a capital letter: names are case-insensitive
    sts.append(("use X", None, "usecap:x"))
    sts.append(("xyz=c", "xyz", "const"))           # a three-word name
    sts.append(("use xyz+x", None, "use2:xyz:x"))   # a long name followed by an operator and another name
    sts.append(("use xy y", None, "juxt:xy:y"))     # a name directly followed by another name (juxtaposition adds)
    # 22..24: a name with an operator character inside ('u-v': net-income, p/e ratio), bound, re-bound and used
    sts.append(("u-v=c", "u-v", "const"))
    sts.append(("u-v=u-v+c", "u-v", "self"))
    sts.append(("use u-v", None, "use:u-v"))
    # 25..26: a variable that holds a percentage, used behind a sign: c - -w is c + w% = c (1 + w/100)
    sts.append(("w=c%", "w", "constpct"))
    sts.append(("use c - -w", None, "signedpct:w"))
    return sts


def program_is_defined(prog):
    """static check: every use reads a name bound by an earlier successful assignment"""
    sts = c03_statements()
    bound = set()
    for si in prog:
        label, lhs, kind = sts[si]
        need = []
        if kind == "self":
            need = [lhs]
        elif kind.startswith(("use:", "copy:", "mul:", "usecap:", "signedpct:")):
            need = [kind.split(":")[1]]
        elif kind.startswith(("use2:", "juxt:")):
            need = kind.split(":")[1:]
        if any(nm not in bound for nm in need):
            return False
        if lhs and kind not in ("fail", "evalfail"):
            bound.add(lhs)
    return True


def check_program(prog):
    """worker: one straight-line program (tuple of statement indices); runs on a deep stack and never raises"""
    from engine_m import run_deep
    try:
        return run_deep(check_program_body, prog)
    except Exception as e:  # noqa: BLE001  (a dying worker would leave the pool waiting forever)
        return {"prog": prog, "status": "unsupported", "detail": ("%s: %s" % (type(e).__name__, e))[:300], "queries": 0, "paths": 0}


def check_program_body(prog):
    import time as _t
    ex = new_exec("real", feas_ms=2000)
    t0 = _t.time()
    res = {"prog": prog, "status": "pass", "detail": "", "queries": 0, "paths": 0}
    try:
        lr = LineRunner(ex)
        sts = c03_statements()
        env = {}                     # reference environment: name -> z3 real term
        path = lr.initial_path()
        labels = []
        for li, si in enumerate(prog):
            label, lhs, kind = sts[si]
            labels.append(label)
            c = ex.fsym("c%d" % li)
            toks, want = [], None
            name_toks = lambda nm: [(("o", w) if (len(w) == 1 and not w.isalnum()) else ("t", w)) for w in NAMES[nm]]
            if lhs:
                toks += name_toks(lhs) + [("o", "=")]
            if kind == "constpct":
                toks = name_toks(lhs) + [("o", "="), ("p", c)]
                want = c.t
            elif kind.startswith("signedpct:"):
                nm = kind.split(":")[1]
                toks += [("n", c), ("o", "-"), ("o", "-")] + name_toks(nm)
                want = c.t * (1 + env[nm] / 100)
            elif kind == "constcap":
                toks = [("t", w.upper()) for w in NAMES[lhs]] + [("o", "="), ("n", c)]
                want = c.t
            elif kind.startswith("usecap:"):
                nm = kind[7:]
                toks += [("t", w.upper()) for w in NAMES[nm]] + [("o", "+"), ("n", c)]
                want = env[nm] + c.t
            elif kind.startswith("use2:"):
                a_, b_ = kind.split(":")[1:]
                toks += name_toks(a_) + [("o", "+")] + name_toks(b_) + [("o", "+"), ("n", c)]
                want = env[a_] + env[b_] + c.t
            elif kind.startswith("juxt:"):
                a_, b_ = kind.split(":")[1:]
                toks += name_toks(a_) + name_toks(b_) + [("o", "+"), ("n", c)]
                want = env[a_] + env[b_] + c.t
            elif kind == "const":
                toks += [("n", c)]
                want = c.t
            elif kind == "self":
                toks += name_toks(lhs) + [("o", "+"), ("n", c)]
                want = (env[lhs] + c.t) if lhs in env else None
                if lhs not in env:
                    want = ("undefined",)
            elif kind.startswith("use:"):
                nm = kind[4:]
                toks += name_toks(nm) + [("o", "+"), ("n", c)]
                want = (env[nm] + c.t) if nm in env else ("undefined",)
            elif kind == "fail":
                toks += [("n", c), ("o", "*"), ("o", ")")]
                want = None
            elif kind == "evalfail":
                # parses, but number * duration has no meaning: the interpreter reports "Unknown calculation"
                toks += [("n", c), ("o", "*"), ("d", None)]
                want = None
            elif kind.startswith("copy:"):
                nm = kind[5:]
                toks += name_toks(nm)
                want = env[nm] if nm in env else ("undefined",)
            elif kind.startswith("mul:"):
                nm = kind[4:]
                toks += name_toks(nm) + [("o", "*"), ("n", c)]
                want = (env[nm] * c.t) if nm in env else ("undefined",)
            if isinstance(want, tuple):
                # a use of a name that was never bound: outside the property (texts of unknown words are dropped); skip program
                res["status"] = "skip"
                return res
            outs = list(lr.run_line(toks, path))
            res["paths"] += len(outs)
            if len(outs) != 1:
                # several feasible paths (e.g. a division guard): take them all - none expected for these templates
                pass
            nxt = None
            for kind_o, p_o, v in outs:
                s = z3.Solver()
                s.set("timeout", 20000)
                for cc in ex.domain + ex.assumptions + list(p_o.pc):
                    s.add(cc)
                if kind_o == "panic":
                    res["queries"] += 1
                    if s.check() == z3.sat:
                        res.update(status="fail", detail="line %d (%s) panics: %s" % (li + 1, label, v))
                        return res
                    continue
                if want is None:
                    if kind_o == "value":
                        res.update(status="fail", detail="line %d (%s): a failing line produced a value" % (li + 1, label))
                        return res
                elif kind_o != "value" or v is None:
                    res["queries"] += 1
                    if s.check() == z3.sat:
                        res.update(status="fail", detail="line %d (%s) does not evaluate (program %s)" % (li + 1, label, labels))
                        return res
                    continue
                else:
                    s.add(v.t != want)
                    res["queries"] += 1
                    r = s.check()
                    if r == z3.sat:
                        m = s.model()
                        res.update(status="fail", detail="line %d (%s) of program %s evaluates to %s, the latest bindings give %s" % (
                            li + 1, label, labels, m.eval(v.t, model_completion=True), m.eval(want, model_completion=True)))
                        res["consts"] = [str(m.eval(z3.Real("c%d" % k), model_completion=True)) for k in range(len(prog))]
                        return res
                    if r == z3.unknown:
                        res.update(status="unknown", detail="line %d undecided" % (li + 1))
                        return res
                nxt = p_o if nxt is None else nxt
            if nxt is None:
                res.update(status="fail", detail="line %d (%s) has no feasible outcome" % (li + 1, label))
                return res
            path = nxt
            if lhs and want is not None:
                env[lhs] = want
    except Unsupported as e:
        res.update(status="unsupported", detail=str(e)[:300])
    res["t"] = _t.time() - t0
    return res


def c03_programs(max_len, with_prefix=True):
    import itertools
    sts = c03_statements()
    n = len(sts)
    seen = set()
    for L in range(1, max_len + 1):
        for t in itertools.product(range(n), repeat=L):
            if program_is_defined(t):
                seen.add(t)
                yield t
    if with_prefix:
        # all three names bound (x, y and the two-word name 'x y'), then any two further statements
        idx = {s_[0]: i for i, s_ in enumerate(sts)}
        pre = (idx["x=c"], idx["y=c"], idx["xy=c"])
        for t in itertools.product(range(n), repeat=2):
            pr = pre + t
            if program_is_defined(pr) and pr not in seen:
                seen.add(pr)
                yield pr
        # all four names bound (also the three-word name), then any statement; and the capital spelling first
        for pre2 in ((idx["x=c"], idx["y=c"], idx["xy=c"], idx["xyz=c"]), (idx["X=c"], idx["x=c"]), (idx["X=c"], idx["y=c"], idx["x=x+c"]),
                     (idx["u-v=c"], idx["u-v=c"]), (idx["u-v=c"], idx["u-v=u-v+c"], idx["u-v=c"]), (idx["x=c"], idx["w=c%"], idx["w=c%"])):
            for t in range(n):
                pr = pre2 + (t,)
                if program_is_defined(pr) and pr not in seen:
                    seen.add(pr)
                    yield pr


def c03_spec(ctx, max_len, keep=None):
    import multiprocessing as mp
    from engine_m import mir
    mir()
    todo = [t for t in c03_programs(max_len) if keep is None or keep(t)]
    with mp.Pool(min(16, mp.cpu_count())) as pool:
        results = pool.map(check_program, todo, chunksize=4)
    ctx.part.functions += ["variable::update_token_variables", "types::find_location", "tokinizer::Tokinizer::token_generator", "tokinizer::Tokinizer::token_cleaner",
                           "syntax::assignment::AssignmentParser::parse", "compiler::Interpreter::executer_assignment", "compiler::Interpreter::executer_variable", "session::Session::add_variable"]
    run = [r for r in results if r["status"] != "skip"]
    ctx.paths += sum(r["paths"] for r in run)
    ctx.part.queries += sum(r["queries"] for r in run)
    ctx.part.sample = {"programs": len(run), "skipped_use_before_binding": len(results) - len(run), "statement_templates": [s[0] for s in c03_statements()]}
    uns = [r for r in run if r["status"] == "unsupported"]
    if uns and not any(r["status"] == "fail" for r in run):
        raise Unsupported("%d programs refused, e.g. %s: %s" % (len(uns), uns[0]["prog"], uns[0]["detail"]))
    if uns:
        ctx.unknown.append("%d programs refused, e.g. %s: %s" % (len(uns), uns[0]["prog"], uns[0]["detail"]))
    for r in run:
        if r["status"] == "unknown":
            ctx.unknown.append(r["detail"])
        if r["status"] == "fail":
            from engine_m import to_f64, f64_bytes
            cs = [to_f64(x) for x in (r.get("consts") or ["%d" % (k + 2) for k in range(len(r["prog"]))])]
            enc = [[len(r["prog"])]] + [[i] for i in r["prog"]] + [f64_bytes(c) for c in cs]
            ctx.failures.append((r["detail"], {"program": [c03_statements()[i][0] for i in r["prog"]], "constants": cs}, ("m_replay_program", enc)))


def program_probe(ctx):
    """translator validation for the program sweep: x = 2 / x = x + 3 / x + 4 evaluated in the encoding"""
    ex = new_exec("real", feas_ms=2000)
    lr = LineRunner(ex)
    path = lr.initial_path()
    cs = [ex.fsym("c%d" % i) for i in range(3)]
    lines = [[("t", "x"), ("o", "="), ("n", cs[0])], [("t", "x"), ("o", "="), ("t", "x"), ("o", "+"), ("n", cs[1])], [("t", "x"), ("o", "+"), ("n", cs[2])]]
    last = None
    for toks in lines:
        outs = [o for o in lr.run_line(toks, path) if o[0] == "value" and o[2] is not None]
        if not outs:
            return
        _k, path, last = outs[0]
    s_ = z3.Solver()
    for c in ex.domain + ex.assumptions + list(path.pc):
        s_.add(c)
    for c, v in zip(cs, (2, 3, 4)):
        s_.add(c.t == v)
    if s_.check() == z3.sat:
        from engine_m import to_f64, val_py
        ctx.probes["program_x_rebound"] = to_f64(val_py(s_.model().eval(last.t, model_completion=True)))


@spec("C03", "m_programs_3", "every straight-line program of <= 3 lines (plus: x, y and 'x y' bound, then any two statements) over the statement templates {name = c, name = name + c, use of name, line failing in the parser, line failing in the interpreter, y = x, x = 'x y' * c} with names x, y and the two-word name 'x y', through the REAL update_token_variables / token_generator / token_cleaner / missing_token_adder / AssignmentParser / interpreter (MIR): every line evaluates to the value given by the latest bindings for ALL real constants, the longest name wins, a binding holds a value (not a reference), a failing line changes nothing", tiers=("quick",))
def _(ctx):
    c03_spec(ctx, 3)
    program_probe(ctx)


@spec("C03", "m_programs_4", "same for programs of <= 4 lines", tiers=("thorough",))
def _(ctx):
    c03_spec(ctx, 4)



# ============================================================================ C04 (calculator immutability) / C18 (API rule effect)
def field_token(kind, name, extra=None):
    """pattern token {KIND:name} as load_from_json / add_rule build it: TokenInfo whose type is TokenType::Field"""
    if kind == "NUMBER":
        ft = EnumV("FieldType", "Number", [StrV(name)])
    elif kind == "TEXT":
        ft = EnumV("FieldType", "Text", [StrV(name), EnumV("Option", "Some", [StrV(extra)]) if extra else EnumV("Option", "None", [])])
    else:
        raise Unsupported("field kind " + kind)
    return tinfo(0, "{%s}" % name, EnumV("TokenType", "Field", [ft]))


def rule_application(ctx, prop):
    """one rule_tokinizer run with a single API rule '{NUMBER:n} foo' over the line tokens  a  foo  b"""
    ex = new_exec("real", feas_ms=2000)
    lr = LineRunner(ex)
    tfields, cfields = lr.tfields, struct_fields("src/config.rs", "SmartCalcConfig")
    tk = SymV(ex, "tokinizerR", "tokinizer::Tokinizer")
    a, b, r = ex.fsym("a"), ex.fsym("b"), ex.fsym("r")
    accept = z3.Bool("rule.accepts")
    ex.inputs["rule.accepts"] = accept
    rule = models.RuleObjV("seeded", accept, EnumV("TokenType", "Number", [r, EnumV("NumberType", "Decimal", [])]))
    pattern = [field_token("NUMBER", "n"), tinfo(0, "foo", EnumV("TokenType", "Text", [StrV("foo")]))]
    rules = VecV([EnumV("RuleType", "API", [VecV([VecV(pattern)]), RefV(rule)])])
    line = [tinfo(0, "1", EnumV("TokenType", "Number", [a, EnumV("NumberType", "Decimal", [])])),
            tinfo(2, "foo", EnumV("TokenType", "Text", [StrV("foo")])),
            tinfo(6, "2", EnumV("TokenType", "Number", [b, EnumV("NumberType", "Decimal", [])]))]
    st = {
        (tk.path, tfields.index("token_infos")): VecV(line),
        (tk.path, tfields.index("tokens")): VecV([]),
        (tk.path, tfields.index("ui_tokens")): OpaqueV("ui_tokens"),
        (tk.path, tfields.index("language")): StrV("en"),
        (tk.path, tfields.index("config")): RefV(lr.cfgv),
        (tk.path, tfields.index("session")): RefV(lr.sess),
        (lr.cfgv.path, cfields.index("rule")): MapC({"en": rules}),
    }
    fn = find_fn("rule_tokinizer")
    outs = list(ex.run(fn, [RefV(tk)], Path(stores=st)))
    ctx.part.functions += ["tokinizer::rule_tokinizer::rule_tokinizer", "tokinizer::rule_tokinizer::find_match", "types::TokenInfo::eq", "types::TokenType::field_compare"]
    ctx.paths += len(outs)
    pat_ids = {t.path for t in pattern}
    rp = ("k_replay_api_rule", [])
    seen = {"accept": 0, "decline": 0}
    for o in outs:
        if o.kind == "panic":
            ctx.reachable(ex, o.path, "rule_tokinizer can panic: " + o.msg, rp)
            continue
        touched = sorted({k[0] for k in o.path.stores if k[0] in pat_ids})
        ctx.part.queries += 1
        if touched:
            ctx.failures.append(("applying / declining a rule writes into the calculator's own pattern tokens (evaluation changes the calculator)", {}, rp))
            continue
        infos = o.path.stores[(tk.path, tfields.index("token_infos"))].items
        status = lambda t: (o.path.stores.get((t.path, 4), t.f[4])).variant
        calls = [e for e in o.path.events if e[0] == "rule_call"]
        acc = ex.feasible(o.path, accept)
        if acc and not ex.feasible(o.path, z3.Not(accept)):
            seen["accept"] += 1
            ok = (len(infos) == 4 and status(infos[1]) == "Removed" and status(infos[2]) == "Removed" and status(infos[0]) == "Active" and status(infos[3]) == "Active")
            new = infos[0]
            tt = new.f[2].f[0] if ok else None
            ok = ok and isinstance(tt, EnumV) and tt.variant == "Number" and tt.f[0] is r
            fields = calls[0][2] if calls else None
            ok = ok and isinstance(fields, MapC) and set(fields.d) == {"n"}
            if not ok:
                ctx.failures.append(("a matching rule does not replace exactly the matched span by the token it returns (fields bound by name)", {}, rp))
        else:
            seen["decline"] += 1
            unchanged = len(infos) == 3 and all(status(t) == "Active" for t in infos)
            if not unchanged:
                ctx.failures.append(("a declining rule changes the line's tokens", {}, rp))
    if not (seen["accept"] and seen["decline"]):
        ctx.failures.append(("rule application: accept/decline paths missing (%s)" % seen, {}, None))


@spec("C04", "m_rule_application_immutable", "rule_tokinizer with one API rule over a matching line (MIR, rule decision symbolic): neither applying nor declining the rule writes into the calculator's own pattern tokens (shared Rc<TokenInfo>), so evaluating text never changes the calculator")
def _(ctx):
    rule_application(ctx, "C04")


@spec("C18", "m_api_rule_two_patterns", "rule_tokinizer with one API rule that has two patterns, '{NUMBER:n} foo' and 'foo {NUMBER:m}', over the tokens  a foo b : the rule declines the match of its first pattern and accepts the match of its second (it decides by the fields it is handed) - the line must end as  a <returned token> : a declined pattern does not stop the rule's other patterns from being tried")
def _(ctx):
    ex = new_exec("real", feas_ms=2000)
    lr = LineRunner(ex)
    tfields, cfields = lr.tfields, struct_fields("src/config.rs", "SmartCalcConfig")
    tk = SymV(ex, "tokinizerR2", "tokinizer::Tokinizer")
    a, b, r = ex.fsym("a"), ex.fsym("b"), ex.fsym("r")
    rule = models.RuleObjV("two", lambda flds: z3.BoolVal(isinstance(flds, MapC) and "m" in flds.d), EnumV("TokenType", "Number", [r, EnumV("NumberType", "Decimal", [])]))
    p1 = [field_token("NUMBER", "n"), tinfo(0, "foo", EnumV("TokenType", "Text", [StrV("foo")]))]
    p2 = [tinfo(0, "foo", EnumV("TokenType", "Text", [StrV("foo")])), field_token("NUMBER", "m")]
    rules = VecV([EnumV("RuleType", "API", [VecV([VecV(p1), VecV(p2)]), RefV(rule)])])
    line = [tinfo(0, "1", EnumV("TokenType", "Number", [a, EnumV("NumberType", "Decimal", [])])),
            tinfo(2, "foo", EnumV("TokenType", "Text", [StrV("foo")])),
            tinfo(6, "2", EnumV("TokenType", "Number", [b, EnumV("NumberType", "Decimal", [])]))]
    st = {
        (tk.path, tfields.index("token_infos")): VecV(line),
        (tk.path, tfields.index("tokens")): VecV([]),
        (tk.path, tfields.index("ui_tokens")): OpaqueV("ui_tokens"),
        (tk.path, tfields.index("language")): StrV("en"),
        (tk.path, tfields.index("config")): RefV(lr.cfgv),
        (tk.path, tfields.index("session")): RefV(lr.sess),
        (lr.cfgv.path, cfields.index("rule")): MapC({"en": rules}),
    }
    outs = list(ex.run(find_fn("rule_tokinizer"), [RefV(tk)], Path(stores=st)))
    ctx.part.functions += ["tokinizer::rule_tokinizer::rule_tokinizer", "tokinizer::rule_tokinizer::find_match"]
    ctx.paths += len(outs)
    rp = ("k_replay_api_rule2", [])
    n = 0
    for o in outs:
        if o.kind == "panic":
            ctx.reachable(ex, o.path, "rule_tokinizer can panic: " + o.msg, rp)
            continue
        ctx.part.queries += 1
        n += 1
        infos = o.path.stores[(tk.path, tfields.index("token_infos"))].items
        status = lambda t: (o.path.stores.get((t.path, 4), t.f[4])).variant
        active = [t for t in infos if status(t) == "Active"]
        calls = [e for e in o.path.events if e[0] == "rule_call"]
        tt = active[1].f[2].f[0] if len(active) == 2 else None
        ok = len(active) == 2 and active[0] is line[0] and isinstance(tt, EnumV) and tt.variant == "Number" and tt.f[0] is r
        if not ok:
            ctx.failures.append(("after the rule declined the match of its first pattern, the match of its second pattern is not applied (%d rule calls, %d active tokens)" % (len(calls), len(active)), {}, rp))
    if not n:
        ctx.failures.append(("no outcome", {}, None))


@spec("C18", "m_api_rule_two_places", "rule_tokinizer with one API rule '{NUMBER:n} foo' over the tokens  a foo + b foo  (MIR, values symbolic, the rule returns a token computed from the field it is handed): BOTH places that match the pattern are handed to the rule, each with its own number, and each is replaced by the token returned for it - the line ends as  f(a) + f(b)")
def _(ctx):
    ex = new_exec("real", feas_ms=2000)
    lr = LineRunner(ex)
    tfields, cfields = lr.tfields, struct_fields("src/config.rs", "SmartCalcConfig")
    tk = SymV(ex, "tokinizerR3", "tokinizer::Tokinizer")
    a, b = ex.fsym("a"), ex.fsym("b")
    made = {}

    def result(flds):
        n = flds.d["n"] if isinstance(flds, MapC) and "n" in flds.d else None
        while isinstance(n, RefV):
            n = n.v
        src = n.f[0] if isinstance(n, EnumV) and n.variant == "Number" else None
        tok = EnumV("TokenType", "Money", [src if src is not None else ex.fsym("lost"), OpaqueV("usd")])
        made[id(tok)] = src
        return tok
    rule = models.RuleObjV("places", z3.BoolVal(True), result)
    foo = lambda at: tinfo(at, "foo", EnumV("TokenType", "Text", [StrV("foo")]))
    p1 = [field_token("NUMBER", "n"), foo(0)]
    rules = VecV([EnumV("RuleType", "API", [VecV([VecV(p1)]), RefV(rule)])])
    line = [tinfo(0, "1", EnumV("TokenType", "Number", [a, EnumV("NumberType", "Decimal", [])])), foo(2),
            tinfo(6, "+", EnumV("TokenType", "Operator", [IntV(ord("+"), 32, False)])),
            tinfo(8, "2", EnumV("TokenType", "Number", [b, EnumV("NumberType", "Decimal", [])])), foo(10)]
    st = {
        (tk.path, tfields.index("token_infos")): VecV(line),
        (tk.path, tfields.index("tokens")): VecV([]),
        (tk.path, tfields.index("ui_tokens")): OpaqueV("ui_tokens"),
        (tk.path, tfields.index("language")): StrV("en"),
        (tk.path, tfields.index("config")): RefV(lr.cfgv),
        (tk.path, tfields.index("session")): RefV(lr.sess),
        (lr.cfgv.path, cfields.index("rule")): MapC({"en": rules}),
    }
    outs = list(ex.run(find_fn("rule_tokinizer"), [RefV(tk)], Path(stores=st)))
    ctx.part.functions += ["tokinizer::rule_tokinizer::rule_tokinizer", "tokinizer::rule_tokinizer::find_match"]
    ctx.paths += len(outs)
    rp = ("k_replay_api_rule_places", [])
    n = 0
    for o in outs:
        if o.kind == "panic":
            ctx.reachable(ex, o.path, "rule_tokinizer can panic: " + o.msg, rp)
            continue
        ctx.part.queries += 1
        n += 1
        infos = o.path.stores[(tk.path, tfields.index("token_infos"))].items
        status = lambda t: (o.path.stores.get((t.path, 4), t.f[4])).variant
        active = [t for t in infos if status(t) == "Active"]
        calls = [e for e in o.path.events if e[0] == "rule_call"]
        def src_of(t):
            tt = t.f[2].f[0]
            return made.get(id(tt)) if isinstance(tt, EnumV) and tt.variant == "Money" else None
        ok = len(active) == 3 and active[1] is line[2] and src_of(active[0]) is a and src_of(active[2]) is b
        if not ok:
            ctx.failures.append(("a line with two places that match the rule's pattern does not end as  f(a) + f(b)  (%d rule calls, %d active tokens)" % (len(calls), len(active)), {}, rp))
    if not n:
        ctx.failures.append(("no outcome", {}, None))


@spec("C18", "m_api_rule_effect", "rule_tokinizer with one API rule '{NUMBER:n} foo' over the tokens  a foo b  (MIR, rule decision and values symbolic): a match calls the rule with its fields bound by name and replaces exactly the matched span by the returned token; a declining rule leaves the line as if the rule were absent; the pattern tokens are never modified")
def _(ctx):
    rule_application(ctx, "C18")



# ============================================================================ C18: registration bookkeeping
def c18_ops():
    ops = []
    for lang in ("en", "xx"):
        for r in (0, 1, 2):
            ops.append(("add_rule", lang, r))
            ops.append(("delete_rule", lang, r))
    ops.append(("add_type", "fam", None))
    for idx in (1, 2):
        ops.append(("add_item", "fam", idx))
    return ops


def check_registration(seq):
    from engine_m import run_deep
    try:
        return run_deep(check_registration_body, seq)
    except Exception as e:  # noqa: BLE001
        return {"seq": seq, "wf": False, "status": "unsupported", "detail": ("%s: %s" % (type(e).__name__, e))[:300], "queries": 0, "paths": 0, "values": None, "t": 0.0}


def check_registration_body(seq):
    """worker: one sequence of registration calls on a calculator that knows language 'en' only; rule names are
    symbolic strings (they may coincide), so the solver decides over all names"""
    import time as _t
    ex = new_exec("real", feas_ms=2000)
    res = {"seq": seq, "status": "pass", "detail": "", "queries": 0, "paths": 0}
    try:
        fns = ex.fns
        pick = lambda nm: [f for n, f in fns.items() if _re.search(r"smartcalc::<impl at src/smartcalc\.rs[^>]*>::%s$" % nm, n)][0]
        from mirsmt.execmir import Inst
        cfields = struct_fields("src/config.rs", "SmartCalcConfig")
        cfgv = SymV(ex, "config", "config::SmartCalcConfig")
        calc = StructV("SmartCalc", [cfgv])
        names = [z3.String("rule%d.name" % i) for i in (0, 1, 2)]
        rules = [models.RuleObjV(StrVName(names[i]), z3.BoolVal(False), None) for i in (0, 1, 2)]
        st = {(cfgv.path, cfields.index("rule")): MapC({"en": VecV([])}), (cfgv.path, cfields.index("types")): MapC({})}
        # reference model: per language list of rule indices (registration order); families: name -> set of indices
        paths = [(Path(stores=st), {"en": []}, {})]
        ops = c18_ops()
        for step, oi in enumerate(seq):
            op, a, b = ops[oi]
            nxt = []
            for path, ref_rules, ref_types in paths:
                if op == "add_rule":
                    outs = list(ex.run(pick("add_rule"), [RefV(calc), StrV(a), VecV([]), RefV(rules[b])], path))
                    want_ret = a in ref_rules
                    new_rules = {k: list(v) for k, v in ref_rules.items()}
                    if want_ret:
                        new_rules[a].append(b)
                    exp = [(want_ret, new_rules, ref_types, None)]
                elif op == "delete_rule":
                    outs = list(ex.run(pick("delete_rule"), [RefV(calc), StrV(a), StrV(names[b])], path))
                    # reference: removes the FIRST registered rule whose name equals names[b]; which one that is depends on
                    # whether the two symbolic names coincide
                    exp = []
                    lst = ref_rules.get(a)
                    if lst is None:
                        exp.append((False, ref_rules, ref_types, None))
                    else:
                        # candidates in order; condition that the first match is at position i
                        conds = []
                        for i, r in enumerate(lst):
                            eq_i = z3.BoolVal(True) if r == b else names[r] == names[b]
                            before = [z3.Not(z3.BoolVal(True) if lst[j] == b else names[lst[j]] == names[b]) for j in range(i)]
                            new_rules = {k: list(v) for k, v in ref_rules.items()}
                            new_rules[a] = lst[:i] + lst[i + 1:]
                            exp.append((True, new_rules, ref_types, z3.And(before + [eq_i])))
                        none = z3.And([z3.Not(z3.BoolVal(True) if r == b else names[r] == names[b]) for r in lst]) if lst else z3.BoolVal(True)
                        exp.append((False, ref_rules, ref_types, none))
                elif op == "add_type":
                    outs = list(ex.run(Inst(pick("add_dynamic_type"), ["&str"]), [RefV(calc), StrV(a)], path))
                    want_ret = a not in ref_types
                    new_types = {k: set(v) for k, v in ref_types.items()}
                    if want_ret:
                        new_types[a] = set()
                    exp = [(want_ret, ref_rules, new_types, None)]
                else:
                    args = [RefV(calc), StrV(a), IntV(b, 64, False), StrV("{value} u"), VecV([]), StrV("{value}"), StrV("{value}"), VecV([StrV("u%d" % b)]),
                            EnumV("Option", "None", []), EnumV("Option", "None", []), EnumV("Option", "None", [])]
                    outs = list(ex.run(Inst(pick("add_dynamic_type_item"), ["&str"]), args, path))
                    want_ret = a in ref_types and b not in ref_types[a]
                    new_types = {k: set(v) for k, v in ref_types.items()}
                    if want_ret:
                        new_types[a].add(b)
                    exp = [(want_ret, ref_rules, new_types, None)]
                res["paths"] += len(outs)
                for o in outs:
                    s_ = z3.Solver()
                    s_.set("timeout", 20000)
                    for cc in ex.domain + ex.assumptions + list(o.path.pc):
                        s_.add(cc)
                    if o.kind == "panic":
                        res["queries"] += 1
                        if s_.check() == z3.sat:
                            res.update(status="fail", detail="step %d %s panics: %s" % (step + 1, ops[oi], o.msg))
                            return res
                        continue
                    # which expected case does this outcome belong to?
                    matched = False
                    for want_ret, nr, nt, cond in exp:
                        s2 = z3.Solver()
                        s2.set("timeout", 20000)
                        for cc in ex.domain + ex.assumptions + list(o.path.pc):
                            s2.add(cc)
                        if cond is not None:
                            s2.add(cond)
                        res["queries"] += 1
                        if s2.check() != z3.sat:
                            continue
                        matched = True
                        got_ret = z3.is_true(z3.simplify(o.value)) if z3.is_expr(o.value) else bool(o.value)
                        state_rules = {k: [rules.index(models.deref(x.f[1])) for x in v.items] for k, v in o.path.stores[(cfgv.path, cfields.index("rule"))].d.items()}
                        tm = o.path.stores[(cfgv.path, cfields.index("types"))].d
                        state_types = {k: set(v.d) for k, v in tm.items()}
                        if got_ret != want_ret or state_rules != nr or state_types != nt:
                            mdl = s2.model()
                            res["name_eq"] = [bool(z3.is_true(mdl.eval(names[i] == names[j], model_completion=True))) for i, j in ((0, 1), (0, 2), (1, 2))]
                            res.update(status="fail", detail="step %d of %s: returned %s with rules %s families %s; a fresh calculator with the surviving registrations has returned %s, rules %s, families %s" % (
                                step + 1, [ops[i] for i in seq], got_ret, state_rules, state_types, want_ret, nr, nt))
                            return res
                        p2 = o.path if cond is None else o.path.add(cond)
                        nxt.append((p2, nr, nt))
                    if not matched:
                        res.update(status="fail", detail="step %d %s: outcome matches no case of the reference model" % (step + 1, ops[oi]))
                        return res
            paths = nxt
            if not paths:
                res.update(status="fail", detail="no feasible outcome at step %d" % (step + 1))
                return res
        # the registered order when the three names are pairwise different (used by the translator-validation probe)
        for p_, nr, _nt in paths:
            s3 = z3.Solver()
            for cc in ex.domain + ex.assumptions + list(p_.pc):
                s3.add(cc)
            s3.add(z3.Distinct(*names))
            if s3.check() == z3.sat:
                st_ = {k: [rules.index(models.deref(x.f[1])) for x in v.items] for k, v in p_.stores[(cfgv.path, cfields.index("rule"))].d.items()}
                res["final_rules"] = st_.get("en")
                break
    except Unsupported as e:
        res.update(status="unsupported", detail=str(e)[:300])
    return res


class StrVName(str):
    """marker so that RuleObjV.name can be a symbolic string"""
    def __new__(cls, term):
        o = str.__new__(cls, str(term))
        o.term_ = term
        return o


def c18_spec(ctx, max_len):
    import itertools
    import multiprocessing as mp
    from engine_m import mir
    mir()
    n = len(c18_ops())
    todo = [t for L in range(1, max_len + 1) for t in itertools.product(range(n), repeat=L)]
    with mp.Pool(min(16, mp.cpu_count())) as pool:
        results = pool.map(check_registration, todo, chunksize=16)
    ctx.part.functions += ["smartcalc::SmartCalc::add_rule", "smartcalc::SmartCalc::delete_rule", "smartcalc::SmartCalc::add_dynamic_type", "smartcalc::SmartCalc::add_dynamic_type_item"]
    ctx.paths += sum(r["paths"] for r in results)
    ctx.part.queries += sum(r["queries"] for r in results)
    ctx.part.sample = {"sequences": len(results), "operations": [str(o) for o in c18_ops()]}
    uns = [r for r in results if r["status"] == "unsupported"]
    if uns:
        raise Unsupported("%d sequences refused, e.g. %s: %s" % (len(uns), uns[0]["seq"], uns[0]["detail"]))
    for r in results:
        if r["status"] == "fail":
            eqs = r.get("name_eq") or [False, False, False]
            ctx.failures.append((r["detail"], {"sequence": [str(c18_ops()[i]) for i in r["seq"]], "names_equal(01,02,12)": eqs},
                                 ("k_replay_registration", [[len(r["seq"])]] + [[i] for i in r["seq"]] + [[1 if e else 0] for e in eqs])))
    # translator validation: add r0, add r1, delete r0's name, add r0 again (language en) -> the encoded rule order
    pr = check_registration((0, 2, 1, 0))
    if pr.get("final_rules") is not None:
        ctx.probes["registration_order"] = "S:" + ",".join("n%d" % i for i in pr["final_rules"])


@spec("C18", "m_registration_4", "every sequence of <= 4 calls from {add_rule(lang in {en, unknown}, r0|r1|r2), delete_rule(lang, name of r0|r1|r2), add_dynamic_type(fam), add_dynamic_type_item(fam, 1|2)} on a calculator (MIR; the three rule names are symbolic strings that may coincide): return values and the resulting rule order / family tables equal a reference list model - add fails only for the unknown language, delete removes the FIRST rule of that name and fails only if none, duplicates are rejected without change", tiers=("quick",))
def _(ctx):
    c18_spec(ctx, 4)


@spec("C18", "m_registration_5", "same for sequences of <= 5 calls", tiers=("thorough",))
def _(ctx):
    c18_spec(ctx, 5)


@spec("C01", "m_duration_kernels_total", "duration_parse, combine_durations, DurationItem::calculate, DateTimeItem::calculate and from_unixtime (MIR -> SMT) for EVERY count / duration / timestamp, however large: no panic path is satisfiable (a value chrono cannot represent is declined as a value, never a panic)")
def _(ctx):
    # duration_parse, any count
    ex, fields, toks, args, cfgv, tkv = setup_rule("duration_parse", "real")
    x = fval(toks["duration"], "Number")
    word = toks["type"].payload("Text").field(0, "alloc::string::String").term()
    tag = assume_unit_word(ex, "duration_rules::duration_parse", cfgv, tkv, word, ["Day", "Week", "Month", "Year", "Second", "Minute", "Hour"])
    outs, _ = run_fn(ex, "duration_rules::duration_parse", args)
    ctx.part.functions += ["duration_rules::duration_parse", "duration_rules::combine_durations", "compiler::duration::calculate", "compiler::date_time::calculate", "date_time_rules::from_unixtime"]
    ctx.paths += len(outs)
    rp = ("m_replay_duration_parse_any", [(tag, "u8"), (x.t, "f64")])
    for o in outs:
        if o.kind == "panic":
            ctx.reachable(ex, o.path, "duration_parse panics for a huge count: " + o.msg, rp)
        else:
            ctx.part.queries += 1
    # combine_durations, any durations
    ex, fields, toks, args, cfgv, tkv = setup_rule("combine_durations", "real")
    fields.keys_order = [str(i) for i in range(1, 7)]
    outs, _ = run_fn(ex, "duration_rules::combine_durations", args)
    ctx.paths += len(outs)
    for o in outs:
        if o.kind == "panic":
            ctx.reachable(ex, o.path, "combine_durations panics: " + o.msg, ("m_replay_huge_line", [(0, "u8")]))
        else:
            ctx.part.queries += 1
    # DurationItem +- DurationItem, DateTimeItem +- DurationItem, any values
    for kind, what in (("DurationItem", "duration"), ("DateTimeItem", "date-time")):
        for op in ("Add", "Sub"):
            ex = new_exec("real")
            cfgv2, item, other, me = calc_setup(ex, kind, ["DurationItem"])
            if kind == "DateTimeItem":
                me.field(0, "chrono::NaiveDateTime")
            outs = run_calc(ex, kind, item, cfgv2, other, op)
            ctx.paths += len(outs)
            for o in outs:
                if o.kind == "panic":
                    ctx.reachable(ex, o.path, "%s %s duration panics: %s" % (what, op, o.msg), ("m_replay_huge_line", [(1 if kind == "DurationItem" else 2, "u8")]))
                else:
                    ctx.part.queries += 1
    # from_unixtime, any number
    ex, fields, toks, args, cfgv, tkv = setup_rule("from_unixtime", "real")
    outs, _ = run_fn(ex, "date_time_rules::from_unixtime", args)
    ctx.paths += len(outs)
    for o in outs:
        if o.kind == "panic":
            ctx.reachable(ex, o.path, "from_unixtime panics for a huge timestamp: " + o.msg, ("m_replay_huge_line", [(3, "u8")]))
        else:
            ctx.part.queries += 1



# ============================================================================ C01 / C04: one slot per line (set_text line splitting)
def set_text_lines(ctx, max_lines):
    import itertools
    ex = new_exec("real")
    fields = struct_fields("src/session.rs", "Session")
    parts_idx = fields.index("text_parts")
    fn = find_fn("set_text")
    ctx.part.functions.append("session::Session::set_text")
    n_ok = 0
    for n in range(1, max_lines + 1):
        for seps in itertools.product(("\n", "\r\n"), repeat=n - 1):
            me = SymV(ex, "session%d_%s" % (n, "".join("c" if s_ == "\r\n" else "l" for s_ in seps)), "session::Session")
            lines = []
            for i in range(n):
                l = z3.String("line%d" % i)
                ex.inputs["line%d" % i] = l
                lines.append(StrV(l))
            text = TextV(lines, list(seps))
            outs = list(ex.run(fn, [RefV(me), text], Path()))
            ctx.paths += len(outs)
            # native witness: the separators and which lines are empty (the other lines are "1")
            rp = ("k_replay_set_text_lines", [(n, "u8")] + [(1 if s_ == "\r\n" else 0, "u8") for s_ in seps]
                  + [(l.term() == z3.StringVal(""), "bool") for l in lines])
            shown = [s_.encode("unicode_escape").decode() for s_ in seps]
            for o in outs:
                if o.kind == "panic":
                    ctx.reachable(ex, o.path, "set_text can panic: " + o.msg, rp)
                    continue
                parts = o.path.stores.get((me.path, parts_idx))
                ctx.part.queries += 1
                if not isinstance(parts, VecV):
                    ctx.reachable(ex, o.path, "set_text does not store the lines of the text (stored: %r)" % (parts,), rp)
                elif len(parts.items) != n:
                    ctx.reachable(ex, o.path, "a text of %d lines separated by %s is split into %d parts: lines are lost or merged" % (n, shown, len(parts.items)), rp)
                else:
                    same = z3.And([parts.items[i].term() == lines[i].term() for i in range(n)]) if all(isinstance(x, StrV) for x in parts.items) else z3.BoolVal(False)
                    if ctx.claim(ex, o.path, same, "a line of a text separated by %s is not stored as it was written (separator kept or lines merged)" % shown, rp) == "unsat":
                        n_ok += 1
    if not n_ok and not ctx.failures:
        ctx.failures.append(("set_text: no path stored the expected lines", {}, None))


@spec("C01", "m_set_text_lines", "Session::set_text (MIR; the text is l1 sep1 l2 ... with symbolic lines free of CR/LF and every separator pattern over {LF, CRLF} for <= 4 lines, also mixed): on every path - regex available or its fallback - exactly one part per line is stored, each equal to its line (Regex::split is modelled only for the constant pattern \\r\\n|\\n)")
def _(ctx):
    set_text_lines(ctx, 4)


@spec("C04", "m_set_text_lines", "same check registered for C04: each line of a newly set text is evaluated exactly once presupposes that set_text stores exactly the lines")
def _(ctx):
    set_text_lines(ctx, 4)



# ============================================================================ C07: format_number (grouping, sign, separators, fraction)
def _char_term(c):
    return z3.StringVal(c[1]) if c[0] == "c" else z3.StrFromCode(48 + c[1])


def _cat(parts):
    parts = [p for p in parts if p is not None]
    if not parts:
        return z3.StringVal("")
    return parts[0] if len(parts) == 1 else z3.Concat(*parts)


def _grouped(digs, ts):
    parts, n = [], len(digs)
    for i, c in enumerate(digs):
        parts.append(_char_term(c))
        if i != n - 1 and (n - 1 - i) % 3 == 0:
            parts.append(ts)
    return parts


def _atoms(term):
    """flatten a string term into atoms: ("lit", text) | ("digit", int term) | ("var", name)"""
    out = []

    def walk(t):
        if z3.is_string_value(t):
            if t.as_string() != "":
                if out and out[-1][0] == "lit":
                    out[-1] = ("lit", out[-1][1] + t.as_string())
                else:
                    out.append(("lit", t.as_string()))
        elif z3.is_app(t) and t.decl().kind() == z3.Z3_OP_SEQ_CONCAT:
            for c in t.children():
                walk(c)
        elif z3.is_app(t) and t.decl().name() == "str.from_code":
            out.append(("digit", z3.simplify(t.arg(0) - 48)))
        elif z3.is_const(t):
            out.append(("var", t.decl().name()))
        else:
            out.append(("other", t))
    walk(term)
    return out


def _same_text(got, want):
    """None if the two atom lists cannot be the same text for all separators, else the arithmetic condition"""
    if len(got) != len(want):
        return None
    conds = []
    for a, b in zip(got, want):
        if a[0] != b[0]:
            if {a[0], b[0]} == {"lit", "digit"}:      # a literal digit against a symbolic one
                lit, dig = (a, b) if a[0] == "lit" else (b, a)
                if len(lit[1]) == 1 and lit[1].isdigit():
                    conds.append(dig[1] == int(lit[1]))
                    continue
            return None
        if a[0] == "digit":
            conds.append(a[1] == b[1])
        elif a[0] == "other":
            return None
        elif a[1] != b[1]:
            return None
    return z3.And(conds) if conds else z3.BoolVal(True)


def _guarded(gen, ctx, label):
    """an enumeration that runs out of its time budget ends early and is recorded as undecided (never as a pass)"""
    try:
        yield from gen
    except Unsupported as e:
        if "time budget" in str(e):
            ctx.unknown.append("format_number (%s): %s" % (label, e))
        else:
            raise


def format_number_spec(ctx, relerr, n_values, max_int, max_fract, modes):
    """format_number(x, ts, ds, N, remove, rounding) against the rule of the property, for every real x with
    |x| < 10^max_int - 1, symbolic separator strings, N in n_values; rendering of floats by contract (models.render_*)"""
    ctx.part.functions.append("formatter::format_number")
    models.FMT_MAX_INT_DIGITS[0] = max_int
    models.FMT_MAX_FRACT[0] = max_fract
    n_ret = 0
    shape_checks, digit_checks = [], []     # decided after the enumeration: text-shape mismatches first (cheap, and where violations show)
    t_end = time.time() + (300 if ctx.tier == "quick" else 3600)     # per spec; the unchanged tree needs about 45 s
    for N in n_values:
        for remove in (True, False):
            for rounding in modes:
                ex = new_exec("real")
                models.install_fmt(ex)
                ex.relerr = relerr
                ex.deadline = min(time.time() + 420, t_end)
                x = ex.fsym("x")
                ts, ds = z3.String("ts"), z3.String("ds")
                ax = z3.If(x.t >= 0, x.t, -x.t)
                ex.assumptions.append(ax < 10 ** max_int - 1)
                if not rounding:
                    m = z3.Int("x_scaled")
                    ex.assumptions.append(x.t * (10 ** max_fract) == z3.ToReal(m))
                rp = ("m_replay_format_number", [(x.t, "f64"), (N, "u8"), (1 if remove else 0, "u8"), (1 if rounding else 0, "u8")])
                label = "N=%d remove=%s rounding=%s" % (N, remove, rounding)
                fn = find_fn("format_number")
                args = [x, StrV(ts), StrV(ds), IntV(N, 8, False), z3.BoolVal(remove), z3.BoolVal(rounding)]
                t_start = time.time()
                for o in _guarded(ex.run(fn, args, Path()), ctx, label):
                    ctx.paths += 1
                    if len(ctx.failures) >= 6:
                        break     # enough to report
                    if time.time() > t_end:
                        ctx.unknown.append("format_number (%s): the time budget of the spec is exhausted" % label)
                        break
                    if o.kind == "panic":
                        ctx.reachable(ex, o.path, "format_number can panic (%s): %s" % (label, o.msg), rp)
                        continue
                    if not isinstance(o.value, StrV):
                        raise Unsupported("format_number returned %r" % (o.value,))
                    n_ret += 1
                    got = _atoms(o.value.term())
                    for neg in (True, False):
                        ps = o.path.add(x.t < 0 if neg else x.t >= 0)
                        if not ex.feasible(ps):
                            continue
                        sign = [("lit", "-")] if neg else []
                        cases = []      # (condition, wanted atoms, description)
                        if rounding:
                            r = models.round_half_even(ax * (10 ** N))
                            for l in range(1, max_int + 1):
                                digs = [("digit", c[1]) for c in models.digits_of(r, l + N)]
                                frac = digs[l:]
                                all_zero = z3.And([c[1] == 0 for c in frac]) if frac else z3.BoolVal(True)
                                shown_opts = [(z3.BoolVal(False), False)] if N == 0 else ([(z3.Not(all_zero), True), (all_zero, False)] if remove else [(z3.BoolVal(True), True)])
                                for sc, shown in shown_opts:
                                    cases.append((z3.And(models.int_digit_range(r, l, N), sc), (l, digs[:l], frac if shown else None)))
                        else:
                            for k in range(0, max_fract + 1):
                                y = ax * (10 ** k)
                                r = z3.ToInt(y)
                                exact = z3.And(z3.ToReal(r) == y, r % 10 != 0 if k > 0 else z3.BoolVal(True))
                                for l in range(1, max_int + 1):
                                    digs = [("digit", c[1]) for c in models.digits_of(r, l + k)]
                                    cases.append((z3.And(exact, models.int_digit_range(r, l, k)), (l, digs[:l], digs[l:] if k > 0 else None)))
                        for cond, (l, ints, frac) in cases:
                            pl = ps.add(cond)
                            if not ex.feasible(pl):
                                continue
                            want = list(sign)
                            for i2, c in enumerate(ints):
                                want.append(c)
                                if i2 != l - 1 and (l - 1 - i2) % 3 == 0:
                                    want.append(("var", "ts"))
                            if frac is not None:
                                want += [("var", "ds")] + frac
                            what = "format_number (%s, %d integer digits%s): the output is not [-] + the integer digits of the value%s grouped in threes by the thousands separator + [decimal separator + fraction digits%s]" % (
                                label, l, "" if rounding else ", rounding off", " rounded to N digits" if rounding else "", ", omitted when removal is on and all printed fraction digits are 0" if rounding else "")
                            same = _same_text(got, want)
                            ctx.part.queries += 1
                            if same is None:
                                shape_checks.append((ex, pl, what + " [shape: got %s, wanted %s]" % ("".join("d" if a[0] == "digit" else (a[1] if a[0] != "other" else "?") for a in got), "".join("d" if a[0] == "digit" else a[1] for a in want)), rp))
                            elif z3.is_true(z3.simplify(same)):
                                pass      # the same digit terms in the same places: nothing to decide
                            else:
                                digit_checks.append((ex, pl, same, what, rp))
    for ex, pl, what, rp in shape_checks:
        if len(ctx.failures) >= 6:
            break
        ctx.reachable(ex, pl, what, rp, timeout_ms=6000)
    undecided = 0
    for ex, pl, same, what, rp in digit_checks:
        if len(ctx.failures) >= 6:
            break
        if time.time() > t_end + 120:
            undecided += 1
            continue
        ctx.claim(ex, pl, same, what, rp, timeout_ms=6000)
    if undecided:
        ctx.unknown.append("%d digit claims were not decided within the time budget of the spec" % undecided)
    if not n_ret and not ctx.failures:
        ctx.failures.append(("format_number: no returning path", {}, None))


FORMAT_PROBES = [("format_number_grouped", "-1234567.891", 2, True, True), ("format_number_removed", "1000", 2, True, True),
                 ("format_number_kept", "0.5", 3, False, True), ("format_number_plain", "12345.25", 1, True, False)]


def format_number_probes(ctx):
    """translator validation: the encoding of format_number (with the rendering contracts) at concrete inputs"""
    from fractions import Fraction
    models.FMT_MAX_INT_DIGITS[0], models.FMT_MAX_FRACT[0] = 7, 3
    for label, xs, n, remove, rounding in FORMAT_PROBES:
        ex = new_exec("real")
        models.install_fmt(ex)
        x = ex.fsym("x")
        ts, ds = z3.String("ts"), z3.String("ds")
        fr = Fraction(xs)
        ex.assumptions.append(x.t == z3.Q(fr.numerator, fr.denominator))
        outs = list(ex.run(find_fn("format_number"), [x, StrV(ts), StrV(ds), IntV(n, 8, False), z3.BoolVal(remove), z3.BoolVal(rounding)], Path()))
        ctx.probe(label, ex, outs, lambda o: o.value.term() if isinstance(o.value, StrV) else None, [(ts, z3.StringVal(",")), (ds, z3.StringVal("."))])


@spec("C07", "m_format_number", "formatter::format_number (MIR; float -> decimal text by contract: {:.N} gives the digits of round-half-even(|x| 10^N), {} the shortest exact text): for every real |x| < 10^7, N in 0..3, both removal settings, symbolic separator strings: output = [-] + integer digits grouped in threes by the thousands separator + [decimal separator + N fraction digits], the fraction omitted exactly when removal is on and all printed fraction digits are 0; rounding off: values with <= 3 fraction digits print all their digits; no panic")
def _(ctx):
    format_number_spec(ctx, False, [0, 1, 2, 3], 7, 3, (True, False))
    format_number_probes(ctx)


@spec("C07", "m_format_number_digits_10", "format_number with N = 10 and N = 19 digits (10^N exceeds u32 / u64): no panic, same output rule (|x| < 1000)")
def _(ctx):
    format_number_spec(ctx, False, [10, 19], 3, 0, (True,))


@spec("C07", "m_format_number_huge", "format_number for |x| < 10^22 (beyond u64), N in {0, 2}, rounding on: same output rule, no panic")
def _(ctx):
    format_number_spec(ctx, False, [0, 2], 22, 0, (True,))


@spec("C07", "m_format_number_fp_margin", "same rule with every float multiplication/division of the code carrying a relative rounding error |e| <= 2^-53 (sound over-approximation of IEEE double arithmetic): the printed digits must not depend on a second, separately rounded computation (|x| < 10^4, N in 0..2)")
def _(ctx):
    format_number_spec(ctx, True, [0, 1, 2], 4, 0, (True,))



@spec("C07", "m_print_callers", "print of NumberItem (decimal), PercentItem, MoneyItem and DynamicTypeItem (MIR): each hands its own value, the configured thousands and decimal separators and its own digit / zero-removal / rounding settings (number_config, percentage_config, the currency's digit count with money_config, the unit's own settings with defaults 2/true/true) to format_number exactly once, and returns that text unchanged / behind '%' / with the currency symbol on the configured side with or without a blank / substituted for {value} in the unit's format")
def _(ctx):
    import re as _re2
    cfields = struct_fields("src/config.rs", "SmartCalcConfig")
    cur_fields = struct_fields("src/types.rs", "CurrencyInfo")
    dyn_fields = struct_fields("src/config.rs", "DynamicType")
    F, R = z3.String("FORMATTED"), z3.String("REPLACED")
    for kind in ("NumberItem", "PercentItem", "MoneyItem", "DynamicTypeItem"):
        ex = new_exec("real")
        models.install_fmt(ex)

        def h_fn(ex_, name, args, path, depth, caller):
            yield execmir_Outcome("return", path.event(("format_number", [models.deref(a) for a in args])), StrV(F))

        def h_rep(ex_, name, args, path, depth, caller):
            yield execmir_Outcome("return", path.event(("replace", [models.deref(a) for a in args])), StrV(R))
        ex.handlers.insert(0, (_re2.compile(r"^(formatter::)?format_number$"), h_fn))
        ex.handlers.insert(0, (_re2.compile(r"^(core|alloc)::str::<impl str>::replace::<.*>$"), h_rep))
        me = SymV(ex, "self", "payload")
        cfgv = SymV(ex, "config", "config::SmartCalcConfig")
        sess = SymV(ex, "session", "session::Session")
        fn = models.item_impl(ex, kind, "print")
        ctx.part.functions.append("compiler::%s::print" % models.ITEM_MODULE[kind])
        ts = cfgv.field(cfields.index("thousand_separator"), "alloc::string::String").term()
        ds = cfgv.field(cfields.index("decimal_seperator"), "alloc::string::String").term()

        def conf(name, i, ty):
            return cfgv.field(cfields.index(name), "config::" + ("MoneyConfig" if name == "money_config" else "NumberConfig")).field(i, ty)
        x = me.field(0, "f64").t
        if kind == "MoneyItem":
            # bound: currencies with at most 6 fraction digits (config.json's table has 0..4); keeps a digit-count loop in print finite
            cid0 = me.field(1, "Rc<types::CurrencyInfo>").id
            ex.assumptions.append(z3.Function("currency.f%d" % cur_fields.index("decimal_digits"), z3.IntSort(), z3.IntSort())(cid0) <= 6)
        n_ok = 0
        for o in ex.run(fn, [RefV(ItemV(kind, me)), RefV(cfgv), RefV(sess)], Path()):
            ctx.paths += 1
            pth = o.path
            if kind == "NumberItem":
                pth = pth.add(me.field(1, "types::NumberType").tag() == ex.discr("NumberType", "Decimal"))
                if not ex.feasible(pth):
                    continue
            if o.kind == "panic":
                ctx.reachable(ex, pth, "%s::print can panic: %s" % (kind, o.msg))
                continue
            evs = [e for e in pth.events if e[0] == "format_number"]
            if len(evs) != 1:
                ctx.failures.append(("%s::print calls format_number %d times" % (kind, len(evs)), {}, None))
                continue
            a = evs[0][1]
            if kind == "NumberItem":
                want = [conf("number_config", 0, "u8").t, conf("number_config", 1, "bool"), conf("number_config", 2, "bool")]
            elif kind == "PercentItem":
                want = [conf("percentage_config", 0, "u8").t, conf("percentage_config", 1, "bool"), conf("percentage_config", 2, "bool")]
            elif kind == "MoneyItem":
                cid = me.field(1, "Rc<types::CurrencyInfo>").id
                want = [z3.Function("currency.f%d" % cur_fields.index("decimal_digits"), z3.IntSort(), z3.IntSort())(cid), conf("money_config", 0, "bool"), conf("money_config", 1, "bool")]
            else:
                want = None
            rpv = ("m_replay_print_callers", [(x, "f64")])
            ok = [a[0].t == x, a[1].term() == ts, a[2].term() == ds]
            if want is not None:
                ok += [a[3].t == want[0], a[4] == want[1], a[5] == want[2]]
            what = "%s::print does not hand (its value, the thousands separator, the decimal separator, its own digits / removal / rounding settings) to format_number" % kind
            r1 = ctx.claim(ex, pth, z3.And(ok), what, rpv)
            if kind == "DynamicTypeItem":
                # Option fields of the unit: Some(v) -> v, None -> 2 / true / true
                dt = me.field(1, "Rc<config::DynamicType>")
                for idx, (fname, ty, dflt) in enumerate([("decimal_digits", "u8", 2), ("remove_fract_if_zero", "bool", True), ("use_fract_rounding", "bool", True)]):
                    opt = dt.field(dyn_fields.index(fname), "core::option::Option<%s>" % ty)
                    got = a[3 + idx].t if ty == "u8" else a[3 + idx]
                    is_some = opt.tag() == 1
                    val = opt.payload("Some").field(0, ty)
                    val = val.t if ty == "u8" else val
                    dv = z3.IntVal(dflt) if ty == "u8" else z3.BoolVal(dflt)
                    ctx.claim(ex, pth, got == z3.If(is_some, val, dv), "DynamicTypeItem::print does not use the unit's own %s (default %s)" % (fname, dflt), rpv)
                reps = [e for e in pth.events if e[0] == "replace"]
                if len(reps) != 1 or not isinstance(o.value, StrV) or not o.value.term().eq(R):
                    ctx.failures.append(("DynamicTypeItem::print does not return format.replace(\"{value}\", formatted number)", {}, None))
                    continue
                ra = reps[0][1]
                fmt = dt.field(dyn_fields.index("format"), "alloc::string::String").term()
                ctx.claim(ex, pth, z3.And(ra[0].term() == fmt, ra[1].term() == z3.StringVal("{value}"), ra[2].term() == F), "DynamicTypeItem::print does not substitute the formatted number for {value} in the unit's format", rpv)
            elif kind == "MoneyItem":
                sym = z3.Function("currency.f%d" % cur_fields.index("symbol"), z3.IntSort(), z3.StringSort())(cid)
                left = z3.Function("currency.f%d" % cur_fields.index("symbol_on_left"), z3.IntSort(), z3.BoolSort())(cid)
                space = z3.Function("currency.f%d" % cur_fields.index("space_between_amount_and_symbol"), z3.IntSort(), z3.BoolSort())(cid)
                blank = z3.If(space, z3.StringVal(" "), z3.StringVal(""))
                wanted = z3.If(left, z3.Concat(sym, blank, F), z3.Concat(F, blank, sym))
                if not isinstance(o.value, StrV):
                    ctx.failures.append(("MoneyItem::print returns %r" % (o.value,), {}, None))
                    continue
                ctx.claim(ex, pth, o.value.term() == wanted, "MoneyItem::print does not put the currency symbol on the configured side of the amount, separated by a blank only when configured", rpv)
            elif kind == "PercentItem":
                if not isinstance(o.value, StrV):
                    ctx.failures.append(("PercentItem::print returns %r" % (o.value,), {}, None))
                    continue
                ctx.claim(ex, pth, o.value.term() == z3.Concat(z3.StringVal("%"), F), "PercentItem::print is not '%' followed by the formatted number", rpv)
            else:
                if not (isinstance(o.value, StrV) and o.value.term().eq(F)):
                    ctx.failures.append(("NumberItem::print of a decimal number does not return the formatted number unchanged", {}, None))
                    continue
            if r1 == "unsat":
                n_ok += 1
        if not n_ok and not ctx.failures:
            ctx.failures.append(("%s::print: no path reached format_number" % kind, {}, None))



@spec("C07", "m_format_number_wide", "format_number for |x| < 10^10, N in 0..5, rounding off up to 4 fraction digits; and the fp-margin variant for |x| < 10^7, N in 0..3", tiers=("thorough",))
def _(ctx):
    format_number_spec(ctx, False, [0, 1, 2, 3, 4, 5], 10, 4, (True, False))
    format_number_spec(ctx, True, [0, 1, 2, 3], 7, 0, (True,))


@spec("C01", "m_set_text_lines_6", "Session::set_text on every text of <= 6 lines and every LF/CRLF separator pattern", tiers=("thorough",))
def _(ctx):
    set_text_lines(ctx, 6)


@spec("C04", "m_set_text_lines_6", "Session::set_text on every text of <= 6 lines and every LF/CRLF separator pattern", tiers=("thorough",))
def _(ctx):
    set_text_lines(ctx, 6)



# ============================================================================ C11: the clock-time tokeniser's kernel
def time_tokeniser(ctx, known_12am, strict=True):
    import re as _re3
    ex = new_exec("real")
    models.install_time_tokeniser(ex)
    def h_add(ex_, name, args, path, depth, caller):
        yield execmir_Outcome("return", path.event(("add_token_location", [models.deref(a) for a in args])), z3.Bool("token_added"))
    ex.handlers.insert(0, (_re3.compile(r"^(tokinizer::)?Tokinizer::<'_>::add_token_location$|^Tokinizer::add_token_location$"), h_add))
    ex.handlers.insert(0, (_re3.compile(r"^(tokinizer::)?Tokinizer::<'_>::add_uitoken_from_match$|^Tokinizer::add_uitoken_from_match$"), models.h_opaque))
    cfields = struct_fields("src/config.rs", "SmartCalcConfig")
    cfgv = SymV(ex, "config", "config::SmartCalcConfig")
    tk = SymV(ex, "tokinizer", "tokinizer::Tokinizer")
    fn = find_fn("time_regex_parser")
    ctx.part.functions.append("tokinizer::regex_tokinizer::time::time_regex_parser")
    off = cfgv.field(cfields.index("timezone_offset"), "i32").t
    ex.assumptions.append(z3.And(off >= -12 * 60, off <= 14 * 60))
    outs = list(ex.run(fn, [RefV(cfgv), RefV(tk), RefV(VecV([RegexV("time")]))], Path()))
    ctx.paths += len(outs)
    cap = ex._captures
    num = z3.Function("str.numeral", z3.StringSort(), z3.IntSort())
    lower = z3.Function("str.to_lowercase", z3.StringSort(), z3.StringSort())
    hh, th = cap.group("hour")
    hm, tm = cap.group("minute")
    hs, tsec = cap.group("second")
    hmer, tmer = cap.group("meridiem")
    H, M, S = num(th), num(tm), num(tsec)
    mer = lower(tmer)
    isnum = z3.Function("str.is_numeral", z3.StringSort(), z3.BoolSort())
    ex.assumptions.append(z3.And(isnum(th), isnum(tm), isnum(tsec)))     # the digit groups of the patterns are numerals
    # what config.json's time patterns guarantee about a match (the regex engine itself is outside the claim)
    ex.assumptions.append(z3.And(hh, H >= 0, H <= 23, z3.Implies(hm, z3.And(M >= 0, M <= 59)), z3.Implies(hs, z3.And(hm, S >= 0, S <= 59)),
                                 z3.Implies(hmer, z3.And(H <= 12, z3.Or(mer == z3.StringVal("am"), mer == z3.StringVal("pm")), z3.Not(hs)))))
    is_12am = z3.And(hmer, mer == z3.StringVal("am"), H == 12)
    ex.assumptions.append(is_12am if known_12am else z3.Not(is_12am))
    d, y, m_, dd = models.today_parts(ex)
    rp = ("m_replay_time_literal", [(H, "u8"), (hm, "bool"), (z3.If(hm, M, 0), "u8"), (hs, "bool"), (z3.If(hs, S, 0), "u8"), (hmer, "bool"), (mer == z3.StringVal("pm"), "bool"), (off, "i32")])
    n = 0
    for o in outs:
        if o.kind == "panic":
            ctx.reachable(ex, o.path, "time_regex_parser can panic on a match of the configured time patterns: " + o.msg, rp)
            continue
        evs = [e for e in o.path.events if e[0] == "add_token_location"]
        if len(evs) != 1:
            if ex.feasible(o.path):
                ctx.failures.append(("a match of the time patterns does not produce exactly one token (%d)" % len(evs), {}, None))
            continue
        tok = evs[0][1][3]
        tok = tok.f[0] if isinstance(tok, EnumV) and tok.variant == "Some" else None
        if not (isinstance(tok, EnumV) and tok.variant == "Time"):
            ctx.failures.append(("the time tokeniser produced %r" % (tok,), {}, None))
            continue
        n += 1
        dt, zone = models.deref(tok.f[0]), models.deref(tok.f[1])
        hour24 = z3.If(z3.And(hmer, mer == z3.StringVal("pm"), H < 12), H + 12, z3.If(z3.And(hmer, mer == z3.StringVal("am"), H == 12), 0, H))
        want = d * 86400 + hour24 * 3600 + z3.If(hm, M, 0) * 60 + z3.If(hs, S, 0) - off * 60
        if known_12am and not strict:
            # region of the known finding: anything but midnight (right) or noon (the recorded defect) is a new violation
            ctx.claim(ex, o.path, z3.Or(dt.total() == want, dt.total() == want + 12 * 3600), "a '12 am' literal is neither midnight nor (known finding) noon of today in the configured zone", None)
        else:
            ctx.claim(ex, o.path, dt.total() == want, "a clock-time literal is not the instant 'today at H:MM:SS wall time in the configured zone' (wall time minus the zone offset, with the day carry)", rp)
        zoff = zone.field(1, "i32").t if isinstance(zone, SymV) else (zone.f[1].t if hasattr(zone, "f") else None)
        if zoff is not None:
            ctx.claim(ex, o.path, zoff == off, "a clock-time literal does not carry the configured zone offset", rp)
    if not n:
        ctx.failures.append(("time_regex_parser: no path produced a Time token", {}, None))


@spec("C11", "m_time_literal", "time_regex_parser (MIR; one regex match as input: the named groups hour / minute / second / meridiem are symbolic, constrained by what config.json's time patterns can match): the token is the instant 'today at H:MM:SS in the configured zone' = today's date * 86400 + wall time - offset with the day carry, pm adds 12 hours below 12, for every configured offset -12 h..+14 h; no panic (12 am is a separate known finding)")
def _(ctx):
    time_tokeniser(ctx, False)



@spec("C11", "m_time_literal_12am_bound", "the same kernel for '12[:MM] am': no panic, configured zone, and the instant is midnight or - the recorded known finding - noon; anything else is a new violation")
def _(ctx):
    time_tokeniser(ctx, True, strict=False)


@spec("C11", "m_time_literal_12am", "the same kernel for '12[:MM] am': midnight-hour literals must denote hour 0 (known finding: read as noon)", finding="C11-12am-read-as-noon")
def _(ctx):
    time_tokeniser(ctx, True)



# ============================================================================ phrases through the REAL rule table (stage B with config.json's rules)
_RULE_TABLE = {}


def rule_table(replayer_factory=None):
    """(language -> [(function_name, [pattern token specs])]) as the loader builds it from config.json: dumped natively
    (the pattern strings go through the real regex tokeniser), regenerated on every run"""
    if _RULE_TABLE:
        return _RULE_TABLE
    import engine_m
    rp = engine_m.Replayer()
    try:
        rec = rp.replay("m_dump_rules", [], release=False, raw=True)
    finally:
        rp.close()
    for line in (rec.get("output") or "").splitlines():
        line = line.strip()
        if not line.startswith("RULE|"):
            continue
        _, lang, fname, toks = line.split("|", 3)
        _RULE_TABLE.setdefault(lang, []).append((fname, toks.split(";;")))
    if not _RULE_TABLE:
        raise Unsupported("native dump of the rule table produced nothing: %s" % str({k: v for k, v in rec.items() if k != "output"})[:200])
    return _RULE_TABLE


def rule_function_names():
    """name -> function identifier, parsed from the RULE_FUNCTIONS table of src/tokinizer/rule_tokinizer/mod.rs"""
    import os
    import common
    text = open(os.path.join(common.REPO, "src/tokinizer/rule_tokinizer/mod.rs"), errors="replace").read()
    out = dict(_re.findall(r'm\.insert\("(\w+)"\.to_string\(\),\s*(\w+)\s+as\s+ExpressionFunc\)', text))
    if not out:
        raise Unsupported("RULE_FUNCTIONS table not found")
    return out


def pattern_token(spec):
    kind, _, rest = spec.partition("~")
    a = rest.split("~")
    some = lambda v: EnumV("Option", "Some", [StrV(v)]) if v else EnumV("Option", "None", [])
    strs = lambda v: VecV([StrV(w) for w in v.split(",") if w])
    if kind == "T":
        return tinfo(0, rest, EnumV("TokenType", "Text", [StrV(rest)]))
    if kind == "O":
        return tinfo(0, rest, EnumV("TokenType", "Operator", [IntV(ord(rest), 32, False)]))
    if not kind.startswith("F"):
        raise Unsupported("pattern token %r" % spec)
    v = kind[1:]
    if v == "Text":
        ft = EnumV("FieldType", "Text", [StrV(a[0]), some(a[1] if len(a) > 1 else "")])
    elif v == "Group":
        ft = EnumV("FieldType", "Group", [StrV(a[0]), strs(a[1])])
    elif v == "TypeGroup":
        ft = EnumV("FieldType", "TypeGroup", [strs(a[1]), StrV(a[0])])
    elif v == "DynamicType":
        ft = EnumV("FieldType", "DynamicType", [StrV(a[0]), some(a[1] if len(a) > 1 else "")])
    else:
        ft = EnumV("FieldType", v, [StrV(a[0])])
    return tinfo(0, "{%s}" % a[0], EnumV("TokenType", "Field", [ft]))


class PhraseRunner(LineRunner):
    """a line of lexical tokens through rule_tokinizer with the language's real rule table, then the glue, the parser
    and the interpreter (all from MIR)"""

    def __init__(self, ex, lang="en"):
        super().__init__(ex)
        models.install_phrases(ex)
        self.lang = lang
        names = rule_function_names()
        rules = []
        for fname, toks in rule_table()[lang]:
            if fname not in names:
                raise Unsupported("rule %s has no entry in RULE_FUNCTIONS" % fname)
            fn = find_fn(names[fname])
            rules.append((fname, fn, [pattern_token(t) for t in toks]))
        merged, order = {}, []
        for fname, fn, pat in rules:
            if fname not in merged:
                merged[fname] = (fn, [])
                order.append(fname)
            merged[fname][1].append(VecV(pat))
        self.rules = VecV([EnumV("RuleType", "Internal", [StrV(f), FnPtrV(merged[f][0].name), VecV(merged[f][1])]) for f in order])
        self.cfields = struct_fields("src/config.rs", "SmartCalcConfig")
        self.f_rule = find_fn("rule_tokinizer")

    def run_phrase(self, toks):
        """toks: ('n', FloatV) | ('p', FloatV) | ('m', FloatV, CurrencyV) | ('t', word) | ('o', ch).
        yields (kind, path, item or message) with kind in value / error / panic"""
        ex = self.ex
        self.n += 1
        tk = SymV(ex, "tokinizerP%d" % self.n, "tokinizer::Tokinizer")
        infos, pos = [], 0
        for t in toks:
            if t[0] == "n":
                tok = EnumV("TokenType", "Number", [t[1], EnumV("NumberType", "Decimal", [])])
            elif t[0] == "p":
                tok = EnumV("TokenType", "Percent", [t[1]])
            elif t[0] == "m":
                tok = EnumV("TokenType", "Money", [t[1], t[2]])
            elif t[0] == "t":
                tok = EnumV("TokenType", "Text", [StrV(t[1])])
            else:
                tok = EnumV("TokenType", "Operator", [IntV(ord(t[1]), 32, False)])
            infos.append(tinfo(pos, "x", tok))
            pos += 2
        st = {
            (self.sess.path, self.sfields.index("variables")): MapC(),
            (tk.path, self.tfields.index("token_infos")): VecV(infos),
            (tk.path, self.tfields.index("tokens")): VecV([]),
            (tk.path, self.tfields.index("ui_tokens")): OpaqueV("ui_tokens"),
            (tk.path, self.tfields.index("language")): StrV(self.lang),
            (tk.path, self.tfields.index("config")): RefV(self.cfgv),
            (tk.path, self.tfields.index("session")): RefV(self.sess),
            (self.cfgv.path, self.cfields.index("rule")): MapC({self.lang: self.rules}),
        }

        def chain(fs, p):
            if not fs:
                yield p
                return
            for o in ex.run(fs[0], [RefV(tk)], p):
                if o.kind == "panic":
                    yield o
                else:
                    yield from chain(fs[1:], o.path)
        for p1 in chain([self.f_rule, self.f_gen, self.f_clean, self.f_add], Path(stores=st)):
            if isinstance(p1, execmir_Outcome):
                yield "panic", p1.path, p1.msg
                continue
            for o2 in ex.run(self.f_new, [RefV(self.sess), RefV(tk)], p1):
                for o3 in ex.run(self.f_parse, [RefV(o2.value)], o2.path):
                    if o3.kind == "panic":
                        yield "panic", o3.path, o3.msg
                        continue
                    r = o3.value
                    if r.variant == "Err":
                        yield "error", o3.path, r.f[0]
                        continue
                    for o4 in ex.run(self.f_exec, [RefV(self.cfgv), r.f[0], RefV(self.sess)], o3.path):
                        if o4.kind == "panic":
                            yield "panic", o4.path, o4.msg
                            continue
                        v = o4.value
                        a = v.f[0] if isinstance(v, EnumV) and v.variant == "Ok" else None
                        if isinstance(a, EnumV) and a.variant == "Item" and isinstance(a.f[0], ItemV):
                            yield "value", o4.path, a.f[0]
                        else:
                            yield "error", o4.path, None


def item_parts(item):
    """(kind, value term, currency id term or None) of a result item"""
    f0 = item.f[0] if not isinstance(item.f, SymV) else item.f.field(0, "f64")
    cur = None
    if item.kind == "MoneyItem":
        c = item.f[1] if not isinstance(item.f, SymV) else item.f.field(1, "Rc<types::CurrencyInfo>")
        cur = models.deref(c).id
    return item.kind, f0.t, cur


C05_PHRASES = [
    # (label, token template, wanted kind [N = the operand's kind], formula(x, p, b))
    ("X + p%", ["X", "+", "P"], "N", lambda x, p, b: x * (1 + p / 100)),
    ("X - p%", ["X", "-", "P"], "N", lambda x, p, b: x * (1 - p / 100)),
    ("X p% (the sign inside the percentage: 200 -10%)", ["X", "P"], "N", lambda x, p, b: x * (1 + p / 100)),
    ("p% of X", ["P", "of", "X"], "N", lambda x, p, b: x * p / 100),
    ("X of p%", ["X", "of", "P"], "N", lambda x, p, b: x * p / 100),
    ("p% on X", ["P", "on", "X"], "N", lambda x, p, b: x * (1 + p / 100)),
    ("X on p%", ["X", "on", "P"], "N", lambda x, p, b: x * (1 + p / 100)),
    ("p% off X", ["P", "off", "X"], "N", lambda x, p, b: x * (1 - p / 100)),
    ("X off p%", ["X", "off", "P"], "N", lambda x, p, b: x * (1 - p / 100)),
    ("A is what % of B", ["X", "is", "what", "%", "of", "B"], "PercentItem", lambda x, p, b: z3.If(b == 0, 0, 100 * x / b)),
    ("A is p% of what", ["X", "is", "P", "of", "what"], "N", lambda x, p, b: z3.If(p == 0, 0, 100 * x / p)),
]


def words_not_currencies(ex, pr, words):
    """closed world for the connective words of the phrases: they are not currency codes / aliases of config.json
    (checked against the file; otherwise the rule engine could read 'X of ...' as a currency conversion)"""
    import json
    import os
    import common
    cfg = json.load(open(os.path.join(common.REPO, "src/json/config.json")))
    known = {k.lower() for k in cfg.get("currencies", {})} | {k.lower() for k in cfg.get("currency_alias", {})}
    for lang in cfg.get("languages", {}).values():
        known |= {str(k).lower() for k in (lang.get("currency_alias") or {})}
    clash = sorted(set(words) & known)
    if clash:
        raise Unsupported("phrase words that are currency names in config.json: %s" % clash)
    for fld in ("currency", "currency_alias"):
        idx = pr.cfields.index(fld)
        has = z3.Function("config.%d.has" % idx, z3.StringSort(), z3.BoolSort())
        for w in words:
            ex.assumptions.append(z3.Not(has(z3.StringVal(w))))


def check_percent_phrase(job):
    from engine_m import run_deep, Ctx
    import check as _check
    pi, money = job

    def body():
        label, templ, want_kind, formula = C05_PHRASES[pi]
        ctx = Ctx(_check.Part("M", "worker", ""), "quick")
        ex = new_exec("real", feas_ms=3000)
        ex.max_steps = 40000
        pr = PhraseRunner(ex)
        words_not_currencies(ex, pr, sorted({t for t in templ if len(t) > 1 or t.isalpha()} - {"X", "B", "P"}))
        x, p, b = ex.fsym("x"), ex.fsym("p"), ex.fsym("b")
        cur = CurrencyV(z3.Int("cur"))
        ex.inputs["cur"] = cur.id
        ex.domain.append(z3.And(cur.id >= 0, cur.id < 4))
        toks = []
        for t in templ:
            if t == "X":
                toks.append(("m", x, cur) if money else ("n", x))
            elif t == "B":
                toks.append(("m", b, cur) if money else ("n", b))
            elif t == "P":
                toks.append(("p", p))
            elif len(t) == 1 and not t.isalpha():
                toks.append(("o", t))
            else:
                toks.append(("t", t))
        rp = ("m_replay_percent_phrase", [(pi, "u8"), (1 if money else 0, "u8"), (x.t, "f64"), (p.t, "f64"), (b.t, "f64")])
        want = formula(x.t, p.t, b.t)
        kind_want = want_kind if want_kind != "N" else ("MoneyItem" if money else "NumberItem")
        what = "'%s' (%s)" % (label, "money" if money else "number")
        n_ok, seen_value = 0, False
        for kind, path, v in pr.run_phrase(toks):
            ctx.paths += 1
            if kind == "panic":
                ctx.reachable(ex, path, "%s can panic: %s" % (what, v), rp)
            elif kind == "error":
                ctx.reachable(ex, path, "%s does not evaluate" % what, rp)
            else:
                seen_value = True
                k, val, c = item_parts(v)
                if k != kind_want:
                    ctx.reachable(ex, path, "%s evaluates to a %s instead of a %s" % (what, k, kind_want), rp)
                    continue
                if ctx.claim(ex, path, val == want, "%s is not the textbook formula" % what, rp) == "unsat":
                    n_ok += 1
                if k == "MoneyItem":
                    ctx.claim(ex, path, c == cur.id, "%s changes the currency" % what, rp)
        if not seen_value and not ctx.failures:
            ctx.failures.append(("%s: no evaluation path" % what, {}, None))
        return {"failures": ctx.failures, "unknown": ctx.unknown, "paths": ctx.paths, "queries": ctx.part.queries, "solver_s": ctx.part.solver_s, "ok": n_ok}
    try:
        return run_deep(body)
    except Unsupported as e:
        return {"unsupported": "%s: %s" % (C05_PHRASES[pi][0], str(e)[:300])}
    except Exception as e:  # noqa: BLE001
        return {"unsupported": "%s: %s: %s" % (C05_PHRASES[pi][0], type(e).__name__, str(e)[:300])}


@spec("C05", "m_percent_phrases", "every percentage phrase of the property as a token line (numbers and money amounts symbolic) through the REAL rule table of config.json (patterns dumped natively from the loader, regenerated per run), rule_tokinizer / find_match, the glue, the parser and the interpreter (MIR): the phrase evaluates to the textbook formula, in the operand's kind and currency - so each pattern reaches its own rule function with the right field names and no other rule captures the tokens")
def _(ctx):
    import multiprocessing as mp
    from engine_m import mir
    mir()
    rule_table()
    ctx.part.functions += ["tokinizer::rule_tokinizer::rule_tokinizer", "tokinizer::rule_tokinizer::find_match", "types::TokenInfo::eq", "types::TokenType::eq (field matching)",
                           "tokinizer::Tokinizer::token_generator", "tokinizer::Tokinizer::token_cleaner", "tokinizer::Tokinizer::missing_token_adder", "syntax::SyntaxParser::parse", "compiler::Interpreter::execute"]
    jobs = [(pi, money) for pi in range(len(C05_PHRASES)) for money in (False, True)]
    with mp.Pool(min(16, mp.cpu_count())) as pool:
        results = pool.map(check_percent_phrase, jobs, chunksize=1)
    n_ok = 0
    uns = [r["unsupported"] for r in results if "unsupported" in r]
    for r in results:
        if "unsupported" in r:
            continue
        ctx.failures += r["failures"]
        ctx.unknown += r["unknown"]
        ctx.paths += r["paths"]
        ctx.part.queries += r["queries"]
        ctx.part.solver_s += r["solver_s"]
        n_ok += r["ok"]
    ctx.part.sample = {"phrases": [c[0] for c in C05_PHRASES], "rules_in_table": len({f for f, _ in rule_table()["en"]}), "patterns_in_table": len(rule_table()["en"])}
    if uns and not ctx.failures:
        raise Unsupported("; ".join(uns[:3]))
    if not n_ok and not ctx.failures:
        ctx.failures.append(("no phrase was decided", {}, None))



# ============================================================================ wiring of the rule table: which rule takes which phrase
WIRING = {
    # property -> [(label, token line, expected rule function, {field name: index of the line token bound to it})]
    # line tokens: N number, P percent, M money, D date, T time, DT date-time, U duration, Z time zone, Q unit quantity, words / operators literally
    "C06": [("M to code", ["M", "to", "eur"], "convert_money", {"money": 0, "currency": 2}),
            ("M code", ["M", "eur"], "convert_money", {"money": 0, "currency": 1}),
            ("M TO code (keyword case)", ["M", "TO", "eur"], "convert_money", {"money": 0, "currency": 2})],
    "C09": [("D to D", ["D", "to", "D"], "to_duration", {"source": 0, "target": 2}),
            ("D at N", ["D", "at", "N"], "at_date", {"source": 0, "time": 2})],
    "C10": [("N hours", ["N", "hours"], "duration_parse", {"duration": 0, "type": 1}),
            ("N Hours (keyword case)", ["N", "Hours"], "duration_parse", {"duration": 0, "type": 1}),
            ("U AS hours (keyword case)", ["U", "AS", "hours"], "as_duration", {"source": 0, "type": 2}),
            ("U U", ["U", "U"], "combine_durations", {"1": 0, "2": 1}),
            ("U U U", ["U", "U", "U"], "combine_durations", {"1": 0, "2": 1, "3": 2}),
            ("U as hours", ["U", "as", "hours"], "as_duration", {"source": 0, "type": 2}),
            ("U in days", ["U", "in", "days"], "as_duration", {"source": 0, "type": 2})],
    "C11": [("T Z", ["T", "Z"], "time_with_timezone", {"time": 0, "timezone": 1}),
            ("T to Z", ["T", "to", "Z"], "convert_timezone", {"time": 0, "timezone": 2}),
            ("T In Z (keyword case)", ["T", "In", "Z"], "convert_timezone", {"time": 0, "timezone": 2}),
            ("DT in Z", ["DT", "in", "Z"], "convert_timezone", {"time": 0, "timezone": 2}),
            ("T to T", ["T", "to", "T"], "to_duration", {"source": 0, "target": 2}),
            ("T as hours", ["T", "as", "hours"], "as_duration", {"source": 0, "type": 2})],
    "C12": [("Q to unit", ["Q", "to", "km"], "dynamic_type_convert", {"source": 0, "type": 2}),
            ("Q in unit", ["Q", "in", "km"], "dynamic_type_convert", {"source": 0, "type": 2})],
    "C13": [("N to hex", ["N", "to", "hex"], "number_type_convert", {"number": 0, "type": 2}),
            ("N binary", ["N", "binary"], "number_type_convert", {"number": 0, "type": 1}),
            ("N TO HEX (keyword case)", ["N", "TO", "HEX"], "number_type_convert", {"number": 0, "type": 2}),
            ("N as octal", ["N", "as", "octal"], "number_type_convert", {"number": 0, "type": 2})],
    "C14": [("N to date", ["N", "to", "date"], "from_unixtime", {"number": 0}),
            ("N date", ["N", "date"], "from_unixtime", {"number": 0}),
            ("N To Date (keyword case)", ["N", "TO", "Date"], "from_unixtime", {"number": 0}),
            ("N to Z", ["N", "to", "Z"], "from_unixtime", {"number": 0, "timezone": 2}),
            ("D as unix", ["D", "as", "unix"], "to_unixtime", {"data": 0, "type": 2}),
            ("DT to unixtime", ["DT", "to", "unixtime"], "to_unixtime", {"data": 0, "type": 2}),
            ("T unix", ["T", "unix"], "to_unixtime", {"data": 0, "type": 1})],
}


WIRING_KINDS = ["N", "P", "M", "D", "T", "DT", "U", "Z", "Q"]
WIRING_WORDS = ["to", "as", "in", "at", "eur", "hours", "days", "km", "hex", "binary", "octal", "date", "unix", "unixtime", "TO", "HEX", "Hours", "Date", "AS", "In"]
# kind of the single token a rule leaves behind (index into WIRING_KINDS; 255 = not fixed), used by the native witness
WIRING_RESULT_KIND = {"convert_money": 2, "to_duration": 6, "at_date": 5, "duration_parse": 6, "combine_durations": 6, "time_with_timezone": 4,
                      "dynamic_type_convert": 8, "number_type_convert": 0, "from_unixtime": 5, "to_unixtime": 0}


def wiring_code(c):
    if c in WIRING_KINDS:
        return WIRING_KINDS.index(c)
    if c in WIRING_WORDS:
        return 16 + WIRING_WORDS.index(c)
    raise Unsupported("phrase token %r has no code for the native witness" % c)


def wiring_token(code, i):
    mk = lambda variant, fields: EnumV("TokenType", variant, fields)
    op = lambda n_: OpaqueV("%s%d" % (n_, i))
    if code == "N":
        return mk("Number", [FloatV(z3.Real("n%d" % i), z3.BoolVal(False)), EnumV("NumberType", "Decimal", [])])
    if code == "P":
        return mk("Percent", [FloatV(z3.Real("p%d" % i), z3.BoolVal(False))])
    if code == "M":
        return mk("Money", [FloatV(z3.Real("m%d" % i), z3.BoolVal(False)), CurrencyV(z3.Int("cur%d" % i))])
    if code == "D":
        return mk("Date", [op("date"), op("offset")])
    if code == "T":
        return mk("Time", [op("time"), op("offset")])
    if code == "DT":
        return mk("DateTime", [op("datetime"), op("offset")])
    if code == "U":
        return mk("Duration", [op("duration")])
    if code == "Z":
        return mk("Timezone", [StrV("UTC"), IntV(0, 32, True)])
    if code == "Q":
        return mk("DynamicType", [FloatV(z3.Real("q%d" % i), z3.BoolVal(False)), op("unit")])
    if len(code) == 1 and not code.isalpha():
        return mk("Operator", [IntV(ord(code), 32, False)])
    return mk("Text", [StrV(code)])


def check_wiring(job):
    from engine_m import run_deep
    prop, wi = job
    label, line, want_fn, want_fields = WIRING[prop][wi]

    def body():
        ex = new_exec("real", feas_ms=3000)
        ex.max_steps = 40000
        pr = PhraseRunner(ex)
        names = rule_function_names()
        marker = EnumV("TokenType", "Number", [FloatV(z3.Real("rule_result"), z3.BoolVal(False)), EnumV("NumberType", "Decimal", [])])

        def h_rule(ex_, name, args, path, depth, caller):
            yield execmir_Outcome("return", path.event(("rule", name.split("::")[-1], models.deref(args[2]))), EnumV("Result", "Ok", [marker]))
        ex.handlers.insert(0, (_re.compile(r"^(\w+::)*(%s)$" % "|".join(sorted(set(names.values())))), h_rule))
        toks = [wiring_token(c, i) for i, c in enumerate(line)]
        infos = [tinfo(2 * i, "x", t) for i, t in enumerate(toks)]
        tk = SymV(ex, "tokinizerW", "tokinizer::Tokinizer")
        st = {
            (pr.sess.path, pr.sfields.index("variables")): MapC(),
            (tk.path, pr.tfields.index("token_infos")): VecV(infos),
            (tk.path, pr.tfields.index("tokens")): VecV([]),
            (tk.path, pr.tfields.index("ui_tokens")): OpaqueV("ui_tokens"),
            (tk.path, pr.tfields.index("language")): StrV("en"),
            (tk.path, pr.tfields.index("config")): RefV(pr.cfgv),
            (tk.path, pr.tfields.index("session")): RefV(pr.sess),
            (pr.cfgv.path, pr.cfields.index("rule")): MapC({"en": pr.rules}),
        }
        fails, n = [], 0
        for o in ex.run(pr.f_rule, [RefV(tk)], Path(stores=st)):
            n += 1
            if o.kind == "panic":
                if ex.feasible(o.path):
                    fails.append("'%s': rule_tokinizer can panic: %s" % (label, o.msg))
                continue
            calls = [e for e in o.path.events if e[0] == "rule"]
            if not calls:
                fails.append("'%s': no rule takes the phrase (expected %s)" % (label, want_fn))
                continue
            fn_called, fields = calls[0][1], calls[0][2]
            if fn_called != names.get(want_fn, want_fn):
                fails.append("'%s' is taken by the rule function %s instead of %s" % (label, fn_called, want_fn))
                continue
            bound = fields.d if isinstance(fields, MapC) else None
            if bound is None:
                raise Unsupported("fields of the rule call: %r" % (fields,))
            got = {}
            for k, v in bound.items():
                ti = models.deref(v)
                got[k] = next((i for i, inf in enumerate(infos) if inf is ti), None)
            extra = {k for k in got if k not in want_fields}
            if {k: got.get(k) for k in want_fields} != want_fields or not extra <= {"conversion", "group"}:
                fails.append("'%s': %s is called with the fields %s instead of %s (field name -> position in the phrase)" % (label, want_fn, got, want_fields))
                continue
            if len(calls) > 1:
                fails.append("'%s': after %s a further rule (%s) rewrites the result" % (label, want_fn, calls[1][1]))
        return {"fails": fails, "paths": n}
    try:
        return run_deep(body)
    except Unsupported as e:
        return {"unsupported": "'%s': %s" % (label, str(e)[:300])}
    except Exception as e:  # noqa: BLE001
        return {"unsupported": "'%s': %s: %s" % (label, type(e).__name__, str(e)[:300])}


def wiring_spec(ctx, prop):
    import multiprocessing as mp
    from engine_m import mir
    mir()
    rule_table()
    jobs = [(prop, i) for i in range(len(WIRING[prop]))]
    with mp.Pool(min(16, mp.cpu_count())) as pool:
        results = pool.map(check_wiring, jobs, chunksize=1)
    ctx.part.functions += ["tokinizer::rule_tokinizer::rule_tokinizer", "tokinizer::rule_tokinizer::find_match", "types::TokenInfo::eq", "types::TokenType::field_compare"]
    uns = [r["unsupported"] for r in results if "unsupported" in r]
    for (pr_, wi), r in zip(jobs, results):
        if "unsupported" in r:
            continue
        ctx.paths += r["paths"]
        ctx.part.queries += max(1, r["paths"])
        for f in r["fails"]:
            line, want_fn = WIRING[prop][wi][1], WIRING[prop][wi][2]
            ctx.failures.append((f, {"phrase": line}, ("m_replay_wiring", [[len(line)]] + [[wiring_code(c)] for c in line] + [[WIRING_RESULT_KIND.get(want_fn, 255)]])))
    ctx.part.sample = {"phrases": [w[0] for w in WIRING[prop]], "patterns_in_table": len(rule_table()["en"])}
    if uns and not ctx.failures:
        raise Unsupported("; ".join(uns[:3]))


PROP_CODES = ["C06", "C09", "C10", "C11", "C12", "C13", "C14"]

for _p in PROP_CODES:
    def _mk(p_):
        @spec(p_, "m_rule_wiring", "the phrases of this property as token lines (kinds only: the rule functions are stubbed by events) through rule_tokinizer / find_match with config.json's own rule table (dumped natively from the loader on every run): each phrase is taken by exactly its rule function, with the fields bound by name to the right tokens, and no other rule captures it first or rewrites it afterwards")
        def _(ctx):
            wiring_spec(ctx, p_)
    _mk(_p)



# ============================================================================ C06: a changed rate takes effect for exactly that currency
@spec("C06", "m_update_currency", "SmartCalc::update_currency(name, rate) (MIR; the name a symbolic string, the rate table and the currency / alias tables symbolic): returns true exactly when the name is a configured currency code or alias (case-insensitively), and then the rate table differs from the old one at exactly that currency, where it holds the new rate; otherwise the table is untouched. Together with m_convert_money (decided for an arbitrary rate table) a changed rate takes effect for exactly that currency in every later conversion")
def _(ctx):
    ex = new_exec("real")
    models.install_map_updates(ex)
    cfields = struct_fields("src/config.rs", "SmartCalcConfig")
    cfgv = SymV(ex, "config", "config::SmartCalcConfig")
    calc = StructV("SmartCalc", [cfgv])
    name = z3.String("currency_name")
    ex.inputs["currency_name"] = name
    r = ex.fsym("new_rate")
    fn = [f for n, f in ex.fns.items() if _re.search(r"smartcalc::<impl at src/smartcalc\.rs[^>]*>::update_currency$", n)]
    if len(fn) != 1:
        raise Unsupported("update_currency not found")
    ctx.part.functions += ["smartcalc::SmartCalc::update_currency", "tokinizer::tools::read_currency"]
    outs = list(ex.run(fn[0], [RefV(calc), StrV(name), r], Path()))
    ctx.paths += len(outs)
    low = z3.Function("str.lower", z3.StringSort(), z3.StringSort())(name)
    fld = lambda nm: cfgv.field(cfields.index(nm), "BTreeMap<alloc::string::String, Rc<types::CurrencyInfo>>")
    has_a, val_a = models.get_map(ex, fld("currency_alias")).lookup(StrV(low))
    has_c, val_c = models.get_map(ex, fld("currency")).lookup(StrV(low))
    found = z3.Or(has_a, has_c)
    which = z3.If(has_a, val_a.id, val_c.id)
    rates = models.get_map(ex, cfgv.field(cfields.index("currency_rate"), "BTreeMap<Rc<types::CurrencyInfo>, f64>"))
    n_true = n_false = 0
    rp = ("k_replay_update_currency", [(z3.If(has_a, 1, z3.If(has_c, 0, 2)), "u8"), (r.t, "f64")])
    for o in outs:
        if o.kind == "panic":
            ctx.reachable(ex, o.path, "update_currency can panic: " + o.msg, rp)
            continue
        ret = o.value if z3.is_expr(o.value) else z3.BoolVal(bool(o.value))
        ov = models.map_overrides(o.path, rates)
        # any other store into the configuration is a change of the calculator beyond the rate table
        other = [k for k in o.path.stores if k[0].startswith(cfgv.path) and k[0] != rates.path]
        if other:
            ctx.failures.append(("update_currency writes into the configuration outside the rate table: %s" % other[:3], {}, None))
            continue
        if ex.feasible(o.path, ret):
            n_true += 1
            ctx.claim(ex, o.path.add(ret), found, "update_currency reports success for a name that is neither a currency code nor an alias", rp)
            if len(ov) != 1:
                ctx.failures.append(("update_currency reports success with %d changes of the rate table" % len(ov), {}, None))
                continue
            key, val = ov[0]
            ctx.claim(ex, o.path.add(ret), z3.And(key == which, val.t == r.t), "update_currency does not store the new rate under the currency the name denotes (alias first, then code)", rp)
        if ex.feasible(o.path, z3.Not(ret)):
            n_false += 1
            ctx.claim(ex, o.path.add(z3.Not(ret)), z3.Not(found), "update_currency fails for a configured currency name", rp)
            if ov:
                ctx.failures.append(("update_currency reports failure but changes the rate table", {}, None))
    if not n_true or not n_false:
        ctx.failures.append(("update_currency: success and failure paths expected (%d, %d)" % (n_true, n_false), {}, None))



# ============================================================================ C08 / C02 / C13: the number tokeniser's kernel on written literals
NOTATIONS = {"k": 10 ** 3, "K": 10 ** 3, "M": 10 ** 6, "G": 10 ** 9, "T": 10 ** 12, "P": 10 ** 15, "Z": 10 ** 18, "Y": 10 ** 21}


def number_literal_setup(ts, ds):
    import re as _re4
    ex = new_exec("real")
    models.install_number_tokeniser(ex)

    def h_add(ex_, name, args, path, depth, caller):
        yield execmir_Outcome("return", path.event(("add_token_location", [models.deref(a) for a in args])), z3.Bool("token_added"))
    ex.handlers.insert(0, (_re4.compile(r"^(tokinizer::)?Tokinizer::<'_>::add_token_location$|^Tokinizer::add_token_location$"), h_add))
    ex.handlers.insert(0, (_re4.compile(r"^(tokinizer::)?Tokinizer::<'_>::add_uitoken_from_match$|^Tokinizer::add_uitoken_from_match$"), models.h_opaque))
    cfields = struct_fields("src/config.rs", "SmartCalcConfig")
    cfgv = SymV(ex, "config", "config::SmartCalcConfig")
    tk = SymV(ex, "tokinizer", "tokinizer::Tokinizer")
    st = {(cfgv.path, cfields.index("thousand_separator")): StrV(ts), (cfgv.path, cfields.index("decimal_seperator")): StrV(ds)}
    return ex, cfgv, tk, Path(stores=st)


def written_literal(sign, groups, frac, ts, ds, tag):
    """the characters of a literal written in the convention (ts, ds): sign, digit groups joined by ts, ds + fraction"""
    chars, digits = [], []
    if sign:
        chars.append(("c", sign))
    k = 0
    for gi, g in enumerate(groups):
        if gi:
            chars += [("c", ch) for ch in ts]
        for _ in range(g):
            d = z3.Int("%s_i%d" % (tag, k))
            k += 1
            digits.append(d)
            chars.append(("d", d))
    fr = []
    if frac:
        chars += [("c", ch) for ch in ds]
        for j in range(frac):
            d = z3.Int("%s_f%d" % (tag, j))
            fr.append(d)
            chars.append(("d", d))
    return chars, digits, fr


@spec("C08", "m_number_literal", "number_regex_parser (MIR; one regex match as input, its DECIMAL group a literal WRITTEN in the configured convention: optional sign, 1..3 digit groups joined by the thousands separator or one run of 19 / 20 digits, optional decimal separator + 1..3 fraction digits, all digits symbolic; str::replace and f64 parsing modelled on the written text): under both separator conventions the regex admits ('.' decimal with ',' groups and ',' decimal with '.' groups) the token is the intended number, so rewriting a literal into the other convention under that configuration denotes the same value; a magnitude suffix k M G T P Z Y multiplies by the power of 1000, any other trailing letters by 1")
def _(ctx):
    number_literal_spec(ctx)


@spec("C02", "m_number_literal", "same kernel registered for C02's clause on the magnitude suffixes k, M, G, T, P, Z, Y")
def _(ctx):
    number_literal_spec(ctx)


LITERAL_PARSERS = {
    # parser function -> (regex group with the written number, token variant, event that carries the token, index of the token argument)
    "number_regex_parser": ("DECIMAL", "Number", "add_token_location", 3),
    "percent_regex_parser": ("NUMBER", "Percent", "add_token_from_match", 2),
    "money_regex_parser": ("PRICE", "Money", "add_token_location", 3),
}


def run_literal(parser, ts, ds, chars, radix_group=None, radix=10):
    """the parser on one regex match whose number group is the written text `chars`; returns (ex, outs, captures)"""
    import re as _re4
    ex = new_exec("real")
    models.install_number_tokeniser(ex)
    for c in chars:
        if c[0] == "d" and not z3.is_int_value(c[1]):
            ex.domain.append(z3.And(c[1] >= 0, c[1] < radix))
    group = LITERAL_PARSERS[parser][0]

    def h_add(ex_, name, args, path, depth, caller):
        yield execmir_Outcome("return", path.event((name.split("::")[-1], [models.deref(a) for a in args])), z3.Bool("token_added"))
    ex.handlers.insert(0, (_re4.compile(r"^(tokinizer::)?Tokinizer::(<'_>::)?(add_token_location|add_token_from_match)$"), h_add))
    ex.handlers.insert(0, (_re4.compile(r"^(tokinizer::)?Tokinizer::(<'_>::)?add_uitoken_from_match$"), models.h_opaque))
    cfields = struct_fields("src/config.rs", "SmartCalcConfig")
    cfgv = SymV(ex, "config", "config::SmartCalcConfig")
    tk = SymV(ex, "tokinizer", "tokinizer::Tokinizer")
    st = {(cfgv.path, cfields.index("thousand_separator")): StrV(ts), (cfgv.path, cfields.index("decimal_seperator")): StrV(ds)}
    orig = models.h_regex_captures_iter

    def h_iter(ex_, name, args, path, depth, caller):
        for o in orig(ex_, name, args, path, depth, caller):
            cap = ex_._captures
            if radix_group:
                cap.preset = {radix_group: DecStrV(chars)}
                for g_ in ("BINARY", "HEX", "OCTAL"):
                    h_ = cap.group(g_)[0]
                    ex_.assumptions.append(h_ if g_ == radix_group else z3.Not(h_))
            else:
                cap.preset = {group: DecStrV(chars)}
                if parser == "number_regex_parser":
                    for g_ in ("BINARY", "HEX", "OCTAL"):
                        ex_.assumptions.append(z3.Not(cap.group(g_)[0]))
                ex_.assumptions.append(cap.group(group)[0])
            yield o
    ex.handlers.insert(0, (_re.compile(r"^regex::Regex::captures_iter$"), h_iter))
    outs = list(ex.run(find_fn(parser), [RefV(cfgv), RefV(tk), RefV(VecV([RegexV("literal")]))], Path(stores=st)))
    return ex, outs, ex._captures


def literal_token(o, parser):
    _g, variant, evname, idx = LITERAL_PARSERS[parser]
    evs = [e for e in o.path.events if e[0] == evname]
    if len(evs) != 1:
        return len(evs), None
    tok = evs[0][1][idx]
    tok = tok.f[0] if isinstance(tok, EnumV) and tok.variant == "Some" else None
    return 1, tok if isinstance(tok, EnumV) and tok.variant == variant else ("wrong", tok)


def literal_job(job):
    """worker: one (parser, convention, written shape)"""
    from engine_m import Ctx
    import check as _check
    parser, ts, ds, sign, groups, frac = job
    ctx = Ctx(_check.Part("M", "worker", ""), "quick")
    n_ok = 0
    try:
        chars, digits, fr = written_literal(sign, groups, frac, ts, ds, "lit")
        ex, outs, cap = run_literal(parser, ts, ds, chars)
        for d in digits + fr:
            ex.domain.append(z3.And(d >= 0, d <= 9))
        ctx.paths += len(outs)
        intended = z3.IntVal(0)
        for d in digits:
            intended = intended * 10 + d
        intended = z3.ToReal(intended)
        for j_, d in enumerate(fr):
            intended = intended + z3.ToReal(d) / (10 ** (j_ + 1))
        if sign == "-":
            intended = -intended
        factor, note = z3.IntVal(1), z3.IntVal(0)
        if parser != "percent_regex_parser":
            hn, tn = cap.group("NOTATION")
            for ni, (k_, f_) in enumerate(NOTATIONS.items()):
                factor = z3.If(z3.And(hn, tn == z3.StringVal(k_)), z3.IntVal(f_), factor)
                note = z3.If(z3.And(hn, tn == z3.StringVal(k_)), z3.IntVal(ni + 1), note)
            note = z3.If(z3.And(hn, note == 0), z3.IntVal(9), note)
        label = "%s%s%s under (thousands %r, decimal %r)" % (sign, ts.join("d" * g for g in groups), (ds + "d" * frac) if frac else "", ts, ds)
        gs = list(groups) + [0] * (3 - len(groups))
        conv = {(",", "."): 0, (".", ","): 1, ("", "."): 2, ("", ","): 3}[(ts, ds)]
        rp = ("m_replay_number_literal", [(conv, "u8"), ({"": 0, "-": 1, "+": 2}[sign], "u8"), (len(groups), "u8")] + [(g, "u8") for g in gs] + [(frac, "u8")]
              + [(d, "u8") for d in digits] + [(d, "u8") for d in fr] + [(note, "u8"), (list(LITERAL_PARSERS).index(parser), "u8")])
        seen_token = False
        for o in outs:
            if o.kind == "panic":
                ctx.reachable(ex, o.path, "%s can panic on the literal %s: %s" % (parser, label, o.msg), rp)
                continue
            n_ev, tok = literal_token(o, parser)
            if n_ev == 0 and parser == "money_regex_parser":
                continue      # unknown currency name: the match is skipped (decided by the currency tables, not by the number)
            if n_ev != 1 or not isinstance(tok, EnumV):
                ctx.reachable(ex, o.path, "the literal %s (%s) does not produce exactly one %s token" % (label, parser, LITERAL_PARSERS[parser][1]), rp)
                continue
            seen_token = True
            if parser == "money_regex_parser":
                # the alias pass that runs next rewrites ANY token whose recorded text contains an alias word (euro, dollar, ...):
                # a money token must be recorded under the written amount only, or 'N euro' loses its amount
                ev = [e for e in o.path.events if e[0] == LITERAL_PARSERS[parser][2]][0]
                txt = ev[1][4] if len(ev[1]) > 4 else None
                if not (isinstance(txt, DecStrV) and all(c[0] == "d" or c[1] in ",.+-" for c in txt.chars)):
                    ctx.reachable(ex, o.path, "the money token of the literal %s is recorded under a text that is not the written amount (the alias pass rewrites tokens by their text)" % label, rp)
                    continue
            if ctx.claim(ex, o.path, tok.f[0].t == intended * z3.ToReal(factor), "the literal %s (%s) does not denote the number written (times the power of 1000 of its suffix)" % (label, parser), rp) == "unsat":
                n_ok += 1
        if not seen_token and not ctx.failures:
            ctx.failures.append(("the literal %s: %s produced no token" % (label, parser), {}, None))
    except Unsupported as e:
        return {"unsupported": str(e)[:300]}
    except Exception as e:  # noqa: BLE001
        return {"unsupported": "%s: %s" % (type(e).__name__, str(e)[:300])}
    return {"failures": ctx.failures, "unknown": ctx.unknown, "paths": ctx.paths, "queries": ctx.part.queries, "solver_s": ctx.part.solver_s, "ok": n_ok}


def number_literal_spec(ctx, parsers=("number_regex_parser",), wide=False):
    import itertools
    import multiprocessing as mp
    from engine_m import mir as _mir
    _mir()
    jobs = []
    for parser in parsers:
        ctx.part.functions.append("tokinizer::regex_tokinizer::" + parser)
        shapes = list(itertools.product(("", "-", "+"), ((1,), (3,), (1, 3), (2, 3, 3)), (0, 1, 3)))
        if wide:
            shapes = list(itertools.product(("", "-", "+"), ((1,), (2,), (3,), (1, 3), (2, 3), (3, 3), (1, 3, 3), (2, 3, 3), (3, 3, 3)), (0, 1, 2, 3)))
        if parser != "number_regex_parser" and not wide:
            shapes = [sh for sh in shapes if sh[1] in ((1,), (1, 3), (2, 3, 3)) and sh[0] in ("", "-")]
        if parser == "number_regex_parser":
            # one long run of digits (beyond every integer type): still the number written
            shapes += [("", (20,), 0), ("-", (19,), 0), ("", (19,), 1)]
        for (ts, ds) in ((",", "."), (".", ","), ("", "."), ("", ",")):
            jobs += [(parser, ts, ds) + sh for sh in shapes if ts or len(sh[1]) == 1]
    with mp.Pool(min(16, mp.cpu_count())) as pool:
        results = pool.map(literal_job, jobs, chunksize=2)
    n_ok = 0
    uns = [r["unsupported"] for r in results if "unsupported" in r]
    for r in results:
        if "unsupported" in r:
            continue
        ctx.failures += r["failures"]
        ctx.unknown += r["unknown"]
        ctx.paths += r["paths"]
        ctx.part.queries += r["queries"]
        ctx.part.solver_s += r["solver_s"]
        n_ok += r["ok"]
    ctx.part.sample = {"written_shapes": len(jobs), "conventions": ["',' groups '.' decimal", "'.' groups ',' decimal", "no grouping '.' decimal", "no grouping ',' decimal"]}
    if "number_regex_parser" in parsers:
        # translator validation: the encoding at the concrete literal -12.345,67 (',' decimal), suffix k
        text = "-12.345,67"
        chars = [("d", z3.IntVal(int(c))) if c.isdigit() else ("c", c) for c in text]
        ex, outs, cap = run_literal("number_regex_parser", ".", ",", chars)
        hn, tn = cap.group("NOTATION")
        ctx.probe("number_literal", ex, outs, lambda o: literal_token(o, "number_regex_parser")[1].f[0].t, [(hn, True), (tn, z3.StringVal("k"))])
    if uns and not ctx.failures:
        raise Unsupported("; ".join(uns[:3]))
    if not n_ok and not ctx.failures:
        ctx.failures.append(("number literal kernel: nothing decided", {}, None))


@spec("C08", "m_percent_money_literals", "the same reading kernel in percent_regex_parser (NUMBER group) and money_regex_parser (PRICE group with suffix; the currency name resolved through the symbolic currency tables): a literal written in the configured convention denotes the intended amount under both conventions")
def _(ctx):
    number_literal_spec(ctx, ("percent_regex_parser", "money_regex_parser"))


def literal_totality(ctx):
    """no panic of the three literal parsers on ANY text their regexes admit (digit groups joined by ',' or '.' in any
    mixture, not necessarily the configured convention), and of the radix branch on up to 17 digits"""
    import itertools
    n = 0
    for parser in LITERAL_PARSERS:
        ctx.part.functions.append("tokinizer::regex_tokinizer::" + parser)
        for (ts, ds) in ((",", "."), (".", ",")):
            for seps in [()] + [c for k in (1, 2, 3) for c in itertools.product(",.", repeat=k)]:
                chars, digits = [], []
                for gi in range(len(seps) + 1):
                    if gi:
                        chars.append(("c", seps[gi - 1]))
                    d = z3.Int("t_%d" % gi)
                    digits.append(d)
                    chars.append(("d", d))
                ex, outs, cap = run_literal(parser, ts, ds, chars)
                for d in digits:
                    ex.domain.append(z3.And(d >= 0, d <= 9))
                ctx.paths += len(outs)
                written = "d" + "".join(sp + "d" for sp in seps)
                rp = ("m_replay_literal_text", [(list(LITERAL_PARSERS).index(parser), "u8"), (0 if ts == "," else 1, "u8"), (len(seps), "u8")] + [(0 if sp == "," else 1, "u8") for sp in seps] + [(d, "u8") for d in digits])
                for o in outs:
                    ctx.part.queries += 1
                    n += 1
                    if o.kind == "panic":
                        ctx.reachable(ex, o.path, "%s panics on the text %s (admitted by its regex) under (thousands %r, decimal %r): %s" % (parser, written, ts, ds, o.msg), rp)
    # radix literals: 0x / 0o / 0b followed by up to 17 / 23 / 65 digits
    ctx.part.functions.append("tokinizer::regex_tokinizer::number_regex_parser (radix branches)")
    for grp, radix, lens in (("HEX", 16, (1, 8, 15, 16, 17)), ("OCTAL", 8, (1, 21, 22)), ("BINARY", 2, (1, 63, 64))):
        for ln in lens:
            digits = [z3.Int("r_%d" % i) for i in range(ln)]
            chars = [("d", d) for d in digits]
            ex, outs, cap = run_literal("number_regex_parser", ",", ".", chars, radix_group=grp, radix=radix)
            for d in digits:
                ex.domain.append(z3.And(d >= 0, d < radix))
            ctx.paths += len(outs)
            rp = ("m_replay_radix_literal", [(radix, "u8"), (ln, "u8")] + [(d, "u8") for d in digits])
            val = z3.IntVal(0)
            for d in digits:
                val = val * radix + d
            for o in outs:
                ctx.part.queries += 1
                n += 1
                if o.kind == "panic":
                    ctx.reachable(ex, o.path, "number_regex_parser panics on a base-%d literal of %d digits: %s" % (radix, ln, o.msg), rp)
                    continue
                n_ev, tok = literal_token(o, "number_regex_parser")
                if n_ev == 1 and isinstance(tok, EnumV):
                    ctx.claim(ex, o.path, tok.f[0].t == z3.ToReal(val), "a base-%d literal of %d digits does not denote the integer written" % (radix, ln), rp)
                    # every literal the reader accepts prints back: NumberItem::print on the token just read (same path
                    # condition, so exactly the accepted values) hands the integer written to the {:#X} / {:#o} / {:#b} formatter
                    if not getattr(ex, "_print_ready", False):
                        ex.handlers.insert(0, (_re.compile(r"^core::fmt::rt::Argument::<'_>::new_\w+::<.*>$"), models.h_event_call))
                        ex.handlers.insert(0, (_re.compile(r"^format_number$|^formatter::format_number$"), models.h_event_call))
                        ex.handlers.insert(0, (_re.compile(r"^Arguments::<'_>::new(_const)?::<.*>$|^alloc::fmt::format$|^must_use::<.*>$|^core::fmt::rt::Argument::<'_>::none$|^<(alloc::string::)?String as ToString>::to_string$"), models.h_opaque))
                        ex._print_ready = True
                    pfn = models.item_impl(ex, "NumberItem", "print")
                    me = ItemV("NumberItem", [tok.f[0], tok.f[1]])
                    base_events = len(o.path.events)
                    for po in ex.run(pfn, [RefV(me), RefV(SymV(ex, "pconfig", "config::SmartCalcConfig")), RefV(SymV(ex, "psession", "session::Session"))], o.path):
                        ctx.paths += 1
                        if po.kind == "panic":
                            ctx.reachable(ex, po.path, "printing an accepted base-%d literal can panic: %s" % (radix, po.msg), rp)
                            continue
                        evs = [e for e in po.path.events[base_events:] if e[0].startswith("new_")]
                        if len(evs) != 1 or not isinstance(evs[0][1][0], IntV):
                            ctx.failures.append(("an accepted base-%d literal is not printed through one integer formatter (%s)" % (radix, [e[0] for e in evs]), {}, rp))
                            continue
                        ctx.part.queries += 1
                        ctx.claim(ex, po.path, evs[0][1][0].t == val, "a base-%d literal of %d digits that the reader accepts does not print back as the integer written (the printed literal reads back as another number)" % (radix, ln), rp)
    if not n:
        ctx.failures.append(("literal totality: nothing explored", {}, None))


@spec("C01", "m_literal_parsers_total", "number / percent / money tokenisers (MIR; one regex match as input) on EVERY text their number group can match - up to four digit runs joined by ',' or '.' in any mixture, under both separator conventions - and on base-16 / 8 / 2 literals of up to 17 / 22 / 64 digits: no panic (an unparsable text is skipped), and a radix literal denotes the integer written")
def _(ctx):
    literal_totality(ctx)


@spec("C13", "m_radix_literals", "the radix branches of number_regex_parser registered for C13: 0x / 0o / 0b literals denote the integer written in base 16 / 8 / 2, up to the largest the calculator accepts; no panic on longer ones")
def _(ctx):
    literal_totality(ctx)



# ============================================================================ C08: the computation never reads the separator settings
@spec("C08", "m_separators_not_read", "every rule function of config.json's rule table (under its pattern preconditions) and DataItem::calculate of every item kind against every item kind and operator (MIR, all paths): the two separator settings of the configuration are never read - the symbolic configuration object never materialises them - so the computed value cannot depend on them (dynamic_type_convert re-enters the reader and is decided by engine D under both conventions instead)")
def _(ctx):
    cfields = struct_fields("src/config.rs", "SmartCalcConfig")
    sep_idx = {cfields.index("decimal_seperator"), cfields.index("thousand_separator")}

    def reads_separators(ex):
        hit = []
        for k in ex.inputs:
            m = _re.match(r"^config\.(\d+)(\b|$)", k)
            if m and int(m.group(1)) in sep_idx:
                hit.append(k)
        return hit
    names = rule_function_names()
    from engine_m import mir as _mir
    cfg = _mir()["config"]
    rule_names = sorted({f for l in cfg["languages"].values() for f in l["rules"]})
    n = 0
    skipped = []
    for fname in rule_names:
        if fname == "dynamic_type_convert":
            skipped.append(fname)
            continue
        try:
            ex, fields, toks, args, cfgv, tkv = setup_rule(fname, "real")
            fields.keys_order = sorted(fields.closed)
            outs, _ = run_fn(ex, names.get(fname, fname), args)
        except Unsupported as e:
            if "not found in the MIR dump" in str(e):
                outs, _ = run_fn(ex, fname, args)
            else:
                raise
        ctx.paths += len(outs)
        ctx.part.queries += 1
        ctx.part.functions.append("rule " + fname)
        n += 1
        hit = reads_separators(ex)
        if hit:
            ctx.failures.append(("the rule function %s reads the separator settings (%s): the computed value can depend on how numbers are written" % (fname, hit[:2]), {}, None))
    fresh = [0]

    def h_any_int(ex_, name, args, path, depth, caller):
        # calendar fields of a date: any value (only the configuration reads matter here)
        fresh[0] += 1
        t = z3.Int("calendar%d" % fresh[0])
        yield execmir_Outcome("return", path, IntV(t, 32, "year" in name))

    def h_any_date(ex_, name, args, path, depth, caller):
        fresh[0] += 1
        yield execmir_Outcome("return", path, DateV(z3.Int("date%d" % fresh[0])))
    for kind in models.ITEM_KINDS:
        for op in OPS:
            ex = new_exec("real")
            ex.handlers.insert(0, (_re.compile(r"^<(chrono::)?NaiveDate as Datelike>::(year|month|day)$"), h_any_int))
            ex.handlers.insert(0, (_re.compile(r"^(chrono::)?NaiveDate::from_ymd$"), h_any_date))
            cfgv, item, other, me = calc_setup(ex, kind, list(models.ITEM_KINDS))
            try:
                outs = run_calc(ex, kind, item, cfgv, other, op)
            except Unsupported as e:
                if kind == "DynamicTypeItem":
                    skipped.append("DynamicTypeItem::calculate %s (%s)" % (op, str(e)[:60]))
                    continue
                raise
            ctx.paths += len(outs)
            ctx.part.queries += 1
            n += 1
            hit = reads_separators(ex)
            if hit:
                ctx.failures.append(("%s::calculate (%s) reads the separator settings (%s)" % (kind, op, hit[:2]), {}, None))
        ctx.part.functions.append("compiler::%s::calculate" % models.ITEM_MODULE[kind])
    ctx.part.sample = {"decided": n, "left_to_engine_D": skipped}
    if not n:
        ctx.failures.append(("nothing was executed", {}, None))



# ============================================================================ C01 / C09: '<date> at <hour or time>'
@spec("C01", "m_at_date", "at_date (MIR -> SMT; fields: a date and a number or a time, as its pattern binds them): no panic for ANY number (an hour outside 0..23 must be declined), and the result is the date-time 'that date at that hour / that time' in the date's zone")
def _(ctx):
    ex, fields, toks, args, cfgv, tkv = setup_rule("at_date", "real")
    outs, _ = run_fn(ex, "date_rules::at_date", args)
    ctx.part.functions += ["date_rules::at_date", "tokinizer::tools::get_number_or_time"]
    ctx.paths += len(outs)
    src, tm = toks["source"], toks["time"]
    d, dz = tz_fields(src, "Date")
    _tv0, tz_t = tz_fields(tm, "Time")
    ex.assumptions.append(z3.And(dz >= -12 * 60, dz <= 14 * 60, tz_t >= -12 * 60, tz_t <= 14 * 60))
    n_ok = 0
    x = fval(tm, "Number").t
    rp = ("m_replay_at_date", [(tag_is(ex, tm, "Number"), "bool"), (x, "f64"), (dz, "i32"), (tz_t, "i32")])
    for o in outs:
        if o.kind == "panic":
            ctx.reachable(ex, o.path, "at_date can panic: " + o.msg, rp)
            continue
        if is_err(o):
            # declining is right only for a number that is no hour of the day
            ctx.claim(ex, o.path, z3.And(tag_is(ex, tm, "Number"), z3.Or(x < 0, x >= 24)), "at_date declines a time or an hour 0..23", rp)
            continue
        variant, f = ok_payload(o)
        if variant != "DateTime":
            ctx.failures.append(("at_date returns a %s" % variant, {}, None))
            continue
        n_ok += 1
        got = f[0]
        if ex.feasible(o.path, tag_is(ex, tm, "Number")):
            hour = z3.ToInt(x)
            ctx.claim(ex, o.path.add(z3.And(tag_is(ex, tm, "Number"), x >= 0)), z3.And(hour < 24, got.total() == d.days * 86400 + hour * 3600),
                      "'<date> at N' is not that date at N o'clock (0 <= N < 24)", rp)
        if ex.feasible(o.path, tag_is(ex, tm, "Time")):
            tv, _tz = tz_fields(tm, "Time")
            ctx.claim(ex, o.path.add(tag_is(ex, tm, "Time")), got.total() == d.days * 86400 + tv.secs, "'<date> at <time>' is not that date at that time of day", rp)
    if not n_ok:
        ctx.failures.append(("at_date has no Ok path", {}, None))



def _reuse(prop, name):
    """the body of an already registered spec (the same check speaks about two properties)"""
    from engine_m import SPECS
    for sp in SPECS:
        if sp.prop == prop and sp.name == name:
            return sp.fn
    raise Unsupported("spec %s/%s not registered" % (prop, name))


@spec("C14", "m_at_date", "at_date registered for C14 as well ('<date> at <time> as unix'): the date-time is that date at the time's own clock reading, whatever zones the two operands carry (offsets within -12 h..+14 h)")
def _(ctx):
    _reuse("C01", "m_at_date")(ctx)


@spec("C09", "m_at_date", "at_date registered for C09 as well")
def _(ctx):
    _reuse("C01", "m_at_date")(ctx)


@spec("C14", "m_parse_timezone_gmt", "parse_timezone registered for C14 as well: 'N to GMT+-h:mm' is shown in the requested zone only if the zone's offset is sign * (60 h + mm) minutes")
def _(ctx):
    _reuse("C11", "m_parse_timezone_gmt")(ctx)


@spec("C13", "m_radix_print_fp_margin", "NumberItem::print of Binary / Octal / Hexadecimal numbers with every float operation of the code carrying a relative rounding error <= 2^-53 (sound over-approximation of double arithmetic): the integer handed to the formatter is N for every 2^31 <= N <= 2^53 - so no rounding helper may push an exactly representable integer to its neighbour")
def _(ctx):
    number_print_spec(ctx, ["Binary", "Octal", "Hexadecimal"], 2 ** 31, 2 ** 53, "the %s print of N (with floating-point rounding of the code's own arithmetic) does not show N", relerr=True)



@spec("C04", "m_session_keeps_variables", "one session, lines evaluated one after the other (the straight-line programs of C03, here those of <= 3 lines that contain a line failing in the parser or in the interpreter, through the real variable machinery from MIR): a line that fails - also a failing re-assignment of a bound name - leaves every variable of the session as it was, later lines see the kept values")
def _(ctx):
    sts = c03_statements()
    failing = {i for i, st in enumerate(sts) if st[2] in ("fail", "evalfail")}
    c03_spec(ctx, 3, keep=lambda prog: any(i in failing for i in prog))



# ============================================================================ C04: evaluation writes nothing into the calculator
def struct_field_types(src_rel, struct):
    """[(name, type text)] of a struct, in declaration order, parsed from the source"""
    import os
    import common
    text = open(os.path.join(common.REPO, src_rel), errors="replace").read()
    m = _re.search(r"struct\s+%s\s*(?:<[^>]*>)?\s*\{(.*?)\n\}" % struct, text, _re.S)
    if not m:
        raise Unsupported("struct %s not found in %s" % (struct, src_rel))
    out = []
    for line in m.group(1).split("\n"):
        fm = _re.match(r"\s*(?:pub(?:\([a-z]+\))?\s+)?(\w+)\s*:\s*(.+?),?\s*$", line)
        if fm and not line.strip().startswith("//"):
            out.append((fm.group(1), fm.group(2).strip()))
    return out


def unit_object(tag, index):
    """a unit description (config::DynamicType) as the loader builds it: fields by declared type, the index concrete"""
    vals = []
    for name, ty in struct_field_types("src/config.rs", "DynamicType"):
        t = ty.replace(" ", "")
        if name == "index":
            vals.append(IntV(index, 64, False))
        elif t in ("String", "alloc::string::String"):
            vals.append(StrV(z3.String("%s.%s" % (tag, name))))
        elif t.startswith("Vec<"):
            vals.append(VecV([]))
        elif t.startswith("Option<"):
            vals.append(EnumV("Option", "None", []))
        elif t.startswith("Cell<Option<") or t.startswith("core::cell::Cell<Option<"):
            vals.append(EnumV("Option", "None", []))       # a cell is its content plus recorded stores
        elif t.startswith("Cell<") or t.startswith("RefCell<"):
            vals.append(OpaqueV("cell " + name))
        else:
            vals.append(OpaqueV(name))
    return StructV("DynamicType", vals)


@spec("C04", "m_unit_conversion_writes_nothing", "DynamicTypeItem::calculate_unit over a chain of three unit descriptions owned by the configuration (MIR; the program evaluation basic_execute is an uninterpreted stub), both directions, every symbolic amount: no store is made into the unit descriptions or any other object of the configuration - converting a quantity leaves the calculator as it was, so a later conversion cannot depend on an earlier one")
def _(ctx):
    n = 0
    for (a, b) in ((1, 3), (3, 1), (1, 2)):
        ex = new_exec("real")
        cnt = [0]

        def h_basic(ex_, name, args, path, depth, caller):
            cnt[0] += 1
            yield execmir_Outcome("return", path.event(("basic_execute", [models.deref(x) for x in args])),
                                  EnumV("Result", "Ok", [FloatV(z3.Real("converted%d" % cnt[0]), z3.BoolVal(False))]))

        def h_loc(ex_, name, args, path, depth, caller):
            yield execmir_Outcome("return", path, StrV(z3.String("code%d" % cnt[0])))
        ex.handlers.insert(0, (_re.compile(r"^(smartcalc::)?SmartCalc::basic_execute::<.*>$"), h_basic))
        ex.handlers.insert(0, (_re.compile(r"(^|::)localize_code$"), h_loc))
        cfgv = SymV(ex, "config", "config::SmartCalcConfig")
        units = {i: unit_object("unit%d" % i, i) for i in (1, 2, 3)}
        x = ex.fsym("x")
        fn = find_fn("calculate_unit")
        ctx.part.functions.append("compiler::dynamic_type::DynamicTypeItem::calculate_unit")
        owned = {u.path for u in units.values()}
        for o in ex.run(fn, [RefV(cfgv), x, units[a], units[b], RefV(MapC(dict(units)))], Path()):
            ctx.paths += 1
            ctx.part.queries += 1
            n += 1
            if o.kind == "panic":
                ctx.reachable(ex, o.path, "calculate_unit can panic: " + o.msg)
                continue
            touched = sorted({str(k) for k in o.path.stores if k[0] in owned or str(k[0]).startswith(cfgv.path)})
            if touched and ex.feasible(o.path):
                ctx.failures.append(("converting a quantity writes into the calculator's own unit descriptions (%s): later evaluations depend on earlier ones" % touched[:2], {}, ("k_replay_unit_history", [])))
    if not n:
        ctx.failures.append(("calculate_unit: nothing executed", {}, None))



def unit_chain_spec(ctx):
    """calculate_unit applies the declared programs in the declared order, each to the previous result"""
    dfields = [n_ for n_, _t in struct_field_types("src/config.rs", "DynamicType")]
    n = 0
    size = 4
    for a in range(1, size + 1):
        for b in range(1, size + 1):
            ex = new_exec("real")
            cnt = [0]

            def h_basic(ex_, name, args, path, depth, caller):
                cnt[0] += 1
                yield execmir_Outcome("return", path.event(("basic_execute", models.deref(args[0]))),
                                      EnumV("Result", "Ok", [FloatV(z3.Real("converted%d" % cnt[0]), z3.BoolVal(False))]))

            def h_loc(ex_, name, args, path, depth, caller):
                code, number = models.deref(args[1]), models.deref(args[2])
                yield execmir_Outcome("return", path.event(("program", code, number)), StrV(z3.String("text%d" % cnt[0])))
            ex.handlers.insert(0, (_re.compile(r"^(smartcalc::)?SmartCalc::basic_execute::<.*>$"), h_basic))
            ex.handlers.insert(0, (_re.compile(r"(^|::)localize_code$"), h_loc))
            cfgv = SymV(ex, "config", "config::SmartCalcConfig")
            units = {i: unit_object("unit%d" % i, i) for i in range(1, size + 1)}
            x = ex.fsym("x")
            fn = find_fn("calculate_unit")
            rp = ("k_replay_unit_chain", [(a, "u8"), (b, "u8")])
            rp_raw = ("k_replay_unit_chain", [[a], [b]])
            step = 1 if a < b else -1
            want_codes = [units[i].f[dfields.index("upgrade_code" if a < b else "downgrade_code")] for i in range(a, b, step)]
            for o in ex.run(fn, [RefV(cfgv), x, units[a], units[b], RefV(MapC(dict(units)))], Path()):
                ctx.paths += 1
                ctx.part.queries += 1
                n += 1
                if o.kind == "panic":
                    ctx.reachable(ex, o.path, "calculate_unit can panic: " + o.msg, rp)
                    continue
                if not ex.feasible(o.path):
                    continue
                progs = [e for e in o.path.events if e[0] == "program"]
                val = o.value
                if not (isinstance(val, EnumV) and val.variant == "Some"):
                    ctx.failures.append(("calculate_unit declines the conversion from index %d to %d of a complete chain" % (a, b), {}, rp_raw))
                    continue
                got = val.f[0]
                ok = len(progs) == len(want_codes)
                prev = x
                for k, e in enumerate(progs if ok else []):
                    code, number = e[1], e[2]
                    same_code = isinstance(code, StrV) and not code.is_concrete() and code.term().eq(want_codes[k].term())
                    same_in = isinstance(number, FloatV) and number.t.eq(prev.t)
                    if not (same_code and same_in):
                        ok = False
                        break
                    prev = FloatV(z3.Real("converted%d" % (k + 1)))
                if ok:
                    ok = isinstance(got, FloatV) and got.t.eq(prev.t)
                if not ok:
                    ctx.failures.append(("converting from index %d to index %d does not apply the declared %s programs of the units in between, in chain order, each to the previous result (%d programs run)" % (a, b, "upgrade" if a < b else "downgrade", len(progs)), {}, rp_raw))
    ctx.part.functions.append("compiler::dynamic_type::DynamicTypeItem::calculate_unit")
    if not n:
        ctx.failures.append(("calculate_unit: nothing executed", {}, None))


@spec("C12", "m_unit_program_text", "DynamicTypeItem::localize_code (MIR; the amount symbolic, string replacement observed): the text put in place of {value} in a conversion program is the rendering of the amount itself - of the double, or of an integer equal to it - for every finite amount, also beyond the 64-bit integers; and the program text is otherwise only rewritten from '.' to the configured decimal separator")
def _(ctx):
    ex = new_exec("real")
    cnt = [0]

    class NumTextV(StrV):
        def __init__(self, kind, term):
            cnt[0] += 1
            StrV.__init__(self, z3.String("numtext%d" % cnt[0]))
            self.kind, self.num = kind, term

    def h_num_to_string(ex_, name, args, path, depth, caller):
        v = models.deref(args[0])
        if isinstance(v, FloatV):
            yield execmir_Outcome("return", path, NumTextV("f64", v.t))
        elif isinstance(v, IntV):
            yield execmir_Outcome("return", path, NumTextV("int", v.t))
        else:
            raise Unsupported("to_string of %r" % (v,))

    def h_replace(ex_, name, args, path, depth, caller):
        src, pat, to = models.deref(args[0]), models.deref(args[1]), models.deref(args[2])
        cnt[0] += 1
        yield execmir_Outcome("return", path.event(("replace", src, pat, to)), StrV(z3.String("replaced%d" % cnt[0])))
    ex.handlers.insert(0, (_re.compile(r"^<(f64|i64|u64|i32|u32|i128|u128|isize|usize) as ToString>::to_string$"), h_num_to_string))
    ex.handlers.insert(0, (_re.compile(r"^(alloc|core)::str::<impl str>::replace::<.*>$"), h_replace))
    cfgv = SymV(ex, "config", "config::SmartCalcConfig")
    cfields = struct_fields("src/config.rs", "SmartCalcConfig")
    code = StrV(z3.String("code"))
    x = ex.fsym("amount")
    ex.assumptions.append(z3.And(x.t >= -(10 ** 30), x.t <= 10 ** 30))
    fn = [f for nm, f in ex.fns.items() if _re.search(r"(^|::)localize_code$", nm)]
    if len(fn) != 1:
        raise Unsupported("localize_code not found (the conversion programs are localised elsewhere)")
    ctx.part.functions.append("compiler::dynamic_type::DynamicTypeItem::localize_code")
    rp = ("m_replay_unit_amount", [(x.t, "f64")])
    n = 0
    for o in ex.run(fn[0], [RefV(cfgv), RefV(code), x], Path()):
        ctx.paths += 1
        if o.kind == "panic":
            ctx.reachable(ex, o.path, "localize_code can panic: " + o.msg, rp)
            continue
        if not ex.feasible(o.path):
            continue
        n += 1
        reps = [e for e in o.path.events if e[0] == "replace"]
        vals = [e for e in reps if isinstance(e[2], StrV) and e[2].is_concrete() and e[2].t == "{value}"]
        if len(vals) != 1 or not isinstance(vals[0][3], NumTextV):
            ctx.reachable(ex, o.path, "the conversion program is evaluated without the amount's own rendering in place of {value}", rp)
            continue
        t = vals[0][3]
        ctx.part.queries += 1
        # an integer rendering is allowed to differ by what the double's own rounding can hide (relative 1e-9 is far above
        # that and far below any saturation or truncation): the witness of a failure is then a clearly different number
        num = t.num if t.kind == "f64" else z3.ToReal(t.num)
        ax = z3.If(x.t >= 0, x.t, -x.t)
        tol = ax * z3.Q(1, 10 ** 9)
        ctx.claim(ex, o.path, z3.And(num - x.t <= tol, x.t - num <= tol), "the number written in place of {value} in a conversion program is not the amount being converted", rp)
    if not n:
        ctx.failures.append(("localize_code: nothing decided", {}, None))


def token_location_spec(ctx):
    """Tokinizer::add_token_location with k existing tokens at symbolic places"""
    n = 0
    for k in (0, 1, 2, 3):
        ex = new_exec("real")
        tfields = struct_fields("src/tokinizer/mod.rs", "Tokinizer")
        tk = SymV(ex, "tokinizerL", "tokinizer::Tokinizer")
        existing, spans = [], []
        for i in range(k):
            s_, e_ = z3.Int("s%d" % i), z3.Int("e%d" % i)
            ex.domain.append(z3.And(s_ >= 0, s_ < e_, e_ <= 1000))
            ex.inputs["s%d" % i], ex.inputs["e%d" % i] = s_, e_
            spans.append((s_, e_))
            existing.append(StructV("TokenInfo", [IntV(s_, 64, False), IntV(e_, 64, False), EnumV("Option", "None", []), StrV(""), EnumV("TokenInfoStatus", "Active", [])]))
        for i in range(k):
            for j in range(i):
                ex.domain.append(z3.Or(spans[i][1] <= spans[j][0], spans[j][1] <= spans[i][0]))      # the tokens already there do not overlap
        start, end = z3.Int("start"), z3.Int("end")
        ex.domain.append(z3.And(start >= 0, start < end, end <= 1000))
        ex.inputs["start"], ex.inputs["end"] = start, end
        fn = [f for nm, f in ex.fns.items() if _re.search(r"tokinizer::<impl at src/tokinizer/mod\.rs[^>]*>::add_token_location$", nm)]
        if len(fn) != 1:
            raise Unsupported("add_token_location not found")
        tok = EnumV("Option", "Some", [EnumV("TokenType", "Operator", [IntV(ord("-"), 32, False)])])
        st = {(tk.path, tfields.index("token_infos")): VecV(existing)}
        rp = ("m_replay_token_location", [(k, "u8")] + [(x, "u16") for sp in spans for x in sp] + [(start, "u16"), (end, "u16")])
        partial = z3.Or([z3.Or(z3.And(s_ <= start, start < e_), z3.And(s_ < end, end <= e_)) for s_, e_ in spans]) if spans else z3.BoolVal(False)
        disjoint = z3.And([z3.Or(end <= s_, e_ <= start) for s_, e_ in spans]) if spans else z3.BoolVal(True)
        for o in ex.run(fn[0], [RefV(tk), IntV(start, 64, False), IntV(end, 64, False), tok, StrV("-")], Path(stores=st)):
            ctx.paths += 1
            if o.kind == "panic":
                ctx.reachable(ex, o.path, "add_token_location can panic: " + o.msg, rp)
                continue
            n += 1
            ctx.part.queries += 2
            infos = o.path.stores[(tk.path, tfields.index("token_infos"))].items
            if not z3.is_bool(o.value):
                raise Unsupported("add_token_location result %r" % (o.value,))
            added = len(infos) - k
            if added not in (0, 1):
                ctx.failures.append(("add_token_location changes the token list by %d entries" % added, {}, None))
                continue
            took = z3.BoolVal(added == 1)
            ctx.claim(ex, o.path, o.value == took, "add_token_location's answer does not say whether the token was recorded", rp)
            ctx.claim(ex, o.path, z3.Implies(partial, z3.Not(took)), "a token whose first or last character lies inside a token already recognised is recorded (two tokens claim the same characters)", rp)
            ctx.claim(ex, o.path, z3.Implies(disjoint, took), "a token on characters nobody claimed is refused", rp)
            if added == 1:
                t = infos[-1]
                while isinstance(t, RefV):
                    t = t.v
                ok = isinstance(t, StructV) and isinstance(t.f[0], IntV) and isinstance(t.f[1], IntV)
                if not ok:
                    raise Unsupported("recorded token %r" % (t,))
                ctx.claim(ex, o.path, z3.And(t.f[0].t == start, t.f[1].t == end), "the recorded token does not carry the span it was given", rp)
    ctx.part.functions.append("tokinizer::Tokinizer::add_token_location")
    if not n:
        ctx.failures.append(("add_token_location: nothing executed", {}, None))


@spec("C13", "m_token_location", "Tokinizer::add_token_location (MIR; up to three non-overlapping tokens already recognised at symbolic places, the new span symbolic within 0..1000): a span whose first or last character lies inside a recognised token is refused, a span on free characters is recorded with exactly its bounds, and the answer says which - so the decimal pattern cannot swallow the sign glued to a 0x / 0o / 0b literal ('0x20-0x10'), and based literals take part in arithmetic like any other number")
def _(ctx):
    token_location_spec(ctx)


@spec("C02", "m_token_location", "add_token_location registered for C02 as well: the value does not depend on spacing because a later pattern cannot claim characters of an earlier token")
def _(ctx):
    token_location_spec(ctx)


@spec("C18", "m_text_field_case", "TokenType::field_compare for a {TEXT:name:EXPECTED} field against a text token (MIR; both texts three symbolic letters of either case, to_lowercase modelled on the letter codes): the field matches exactly when the two texts are equal ignoring case - whatever the case of the EXPECTED text in the registered pattern - and a field without an expected text matches every text")
def _(ctx):
    ex = new_exec("real")

    class AsciiStrV(StrV):
        def __init__(self, codes):
            t = z3.Concat(*[z3.StrFromCode(c) for c in codes]) if len(codes) > 1 else z3.StrFromCode(codes[0])
            StrV.__init__(self, t)
            self.codes = list(codes)

    def lower(c):
        return z3.If(z3.And(c >= 65, c <= 90), c + 32, c)

    def h_lower(ex_, name, args, path, depth, caller):
        v = models.deref(args[0])
        if not isinstance(v, AsciiStrV):
            return NotImplemented
        return iter([execmir_Outcome("return", path, AsciiStrV([lower(c) for c in v.codes]))])

    def h_eq(ex_, name, args, path, depth, caller):
        a, b = models.deref(args[0]), models.deref(args[1])
        if not (isinstance(a, AsciiStrV) and isinstance(b, AsciiStrV)):
            return NotImplemented
        r = z3.And([x == y for x, y in zip(a.codes, b.codes)]) if len(a.codes) == len(b.codes) else z3.BoolVal(False)
        return iter([execmir_Outcome("return", path, z3.Not(r) if name.endswith("::ne") else r)])
    ex.handlers.insert(0, (_re.compile(r"(^|::)(<impl str>::)?to_lowercase$"), h_lower))
    ex.handlers.insert(0, (_re.compile(r"PartialEq.*>::(eq|ne)$"), h_eq))
    ex.handlers.insert(0, (_re.compile(r"^core::option::Option::<.*>::map_or::<.*>$"), models.h_option_map_or))
    letters = [ord(c) for c in "qxzjQXZJ"]
    def word(tag):
        cs = []
        for i in range(3):
            c = z3.Int("%s%d" % (tag, i))
            ex.domain.append(z3.Or([c == l for l in letters]))
            ex.inputs["%s%d" % (tag, i)] = c
            cs.append(c)
        return cs
    e, t = word("e"), word("t")
    fn = [f for nm, f in ex.fns.items() if _re.search(r"types::<impl at src/types\.rs[^>]*>::field_compare$", nm) and "TokenType" in (f.args[0][1] if f.args else "")]
    if len(fn) != 1:
        raise Unsupported("TokenType::field_compare not found (%d candidates)" % len(fn))
    ctx.part.functions.append("types::TokenType::field_compare")
    tok = EnumV("TokenType", "Text", [AsciiStrV(t)])
    same = z3.And([lower(a) == lower(b) for a, b in zip(e, t)])
    rp = ("k_replay_text_field", [(c, "u8") for c in e + t])
    n = 0
    for expected, want in ((EnumV("Option", "Some", [AsciiStrV(e)]), same), (EnumV("Option", "None", []), z3.BoolVal(True))):
        field = EnumV("FieldType", "Text", [StrV("coin"), expected])
        for o in ex.run(fn[0], [RefV(tok), RefV(field)], Path()):
            ctx.paths += 1
            if o.kind == "panic":
                ctx.reachable(ex, o.path, "field_compare can panic: " + o.msg, rp)
                continue
            n += 1
            ctx.part.queries += 1
            got = o.value if z3.is_expr(o.value) else z3.BoolVal(bool(o.value))
            ctx.claim(ex, o.path, got == want, "a {TEXT:name:EXPECTED} field does not match exactly the texts equal to EXPECTED ignoring case", rp)
    if not n:
        ctx.failures.append(("field_compare: nothing executed", {}, None))


@spec("C18", "m_unit_chain_order", "DynamicTypeItem::calculate_unit over a user-defined family of four units (MIR; programs are opaque texts, the program evaluation is an uninterpreted function), every ordered pair of source and target index: the programs run are the upgrade programs of source, source+1 .. target-1 resp. the downgrade programs of source, source-1 .. target+1 - in that order, each applied to the previous result, the first to the amount - and the result is the last value: a family converts along its declared chain also when its steps do not commute")
def _(ctx):
    unit_chain_spec(ctx)


@spec("C12", "m_unit_chain_order", "calculate_unit's walk registered for C12 as well: transitivity (A to B to C equals A to C) follows from the walk composing the same programs in the same order")
def _(ctx):
    unit_chain_spec(ctx)



# ============================================================================ operands held by variables (the Variable arm of the field getters)
VARIABLE_GETTERS = [
    # (getter, item kind, takes config, what a variable holding that item must be read as)
    ("get_number", "NumberItem", False, lambda p: [("f", p.field(0, "f64").t)]),
    ("get_percent", "PercentItem", False, lambda p: [("f", p.field(0, "f64").t)]),
    ("get_duration", "DurationItem", False, lambda p: [("dur", p.field(0, "chrono::TimeDelta").secs)]),
    ("get_time", "TimeItem", False, lambda p: [("dt", p.field(0, "chrono::NaiveDateTime").total()), ("off", p.field(1, "types::TimeOffset").field(1, "i32").t)]),
    ("get_date", "DateItem", False, lambda p: [("date", p.field(0, "chrono::NaiveDate").days), ("off", p.field(1, "types::TimeOffset").field(1, "i32").t)]),
    ("get_date_time", "DateTimeItem", False, lambda p: [("dt", p.field(0, "chrono::NaiveDateTime").total()), ("off", p.field(1, "types::TimeOffset").field(1, "i32").t)]),
    ("get_money", "MoneyItem", True, lambda p: [("f", p.field(0, "f64").t), ("cur", p.field(1, "Rc<types::CurrencyInfo>").id)]),
]


def variable_operands(ctx):
    n_ok = 0
    for getter, kind, takes_cfg, want_of in VARIABLE_GETTERS:
        ex = new_exec("real")
        fields = models.FieldsV(ex)
        held = SymV(ex, "held", "payload")
        var = StructV("VariableInfo", [VecV([]), EnumV("SmartCalcAstType", "Item", [ItemV(kind, held)])])
        fields.tok["f"] = tinfo(0, "v", EnumV("TokenType", "Variable", [var]))
        ex.assumptions.append(fields.has_key("f"))
        fields.closed = {"f"}
        cfgv = SymV(ex, "config", "config::SmartCalcConfig")
        fn = find_fn("tools::" + getter)
        ctx.part.functions.append("tokinizer::tools::" + getter)
        args = ([RefV(cfgv)] if takes_cfg else []) + [StrV("f"), RefV(fields)]
        want = want_of(held)
        for o in ex.run(fn, args, Path()):
            ctx.paths += 1
            if o.kind == "panic":
                ctx.reachable(ex, o.path, "%s can panic on a variable holding a %s: %s" % (getter, kind, o.msg))
                continue
            v = o.value
            if not (isinstance(v, EnumV) and v.enum == "Option" and v.variant == "Some"):
                ctx.reachable(ex, o.path, "%s does not read a variable that holds a %s" % (getter, kind))
                continue
            got = models.deref(v.f[0])
            parts = got.f if isinstance(got, (TupleV, StructV)) else [got]
            if isinstance(parts, dict):
                parts = [parts[i] for i in sorted(parts)]
            terms = []
            for (k, _w), g in zip(want, parts):
                g = models.deref(g)
                if k == "f":
                    terms.append(g.t)
                elif k == "dur":
                    terms.append(g.secs)
                elif k == "dt":
                    terms.append(g.total())
                elif k == "date":
                    terms.append(g.days)
                elif k == "off":
                    terms.append((g.field(1, "i32") if isinstance(g, SymV) else g.f[1]).t)
                elif k == "cur":
                    terms.append(g.id)
            if len(terms) != len(want):
                raise Unsupported("%s returned %r" % (getter, got))
            rp = ("m_replay_variable_operand", [(VARIABLE_GETTERS.index((getter, kind, takes_cfg, want_of)), "u8")])
            if ctx.claim(ex, o.path, z3.And([t == w for t, (_k, w) in zip(terms, want)]), "%s reads a variable holding a %s differently from the %s it holds (value, zone / currency)" % (getter, kind, kind), rp) == "unsat":
                n_ok += 1
    if not n_ok and not ctx.failures:
        ctx.failures.append(("no getter decided", {}, None))


@spec("C14", "m_variable_operands", "the field getters of the rule functions (get_number, get_percent, get_duration, get_time, get_date, get_date_time, get_money; MIR): a field bound to a VARIABLE that holds an item is read as exactly the value, zone / currency of that item - so 'a = N to ZONE' followed by 'a as unix' converts the instant that was stored, and every rule function sees through variables what it sees in literals")
def _(ctx):
    variable_operands(ctx)


@spec("C03", "m_variable_operands", "same check registered for C03: a binding holds the value (number, percentage, money, duration, time, date, date-time) that later lines read back through the field getters")
def _(ctx):
    variable_operands(ctx)



# ============================================================================ C18: a user-defined unit is recognised in a line (dynamic_type_tokinizer)
@spec("C18", "m_unit_recognition", "dynamic_type_tokinizer (MIR) with a user-defined family of two units whose parse patterns are '{NUMBER:value} foo' and '{NUMBER:value} bar': the line  x foo  becomes the quantity (x, unit foo) - for a number literal and equally for a VARIABLE that holds the number x - and a line without a unit word is left alone; the unit descriptions are not written")
def _(ctx):
    n = 0
    for held_by_variable in (False, True):
        for word, idx in (("foo", 1), ("bar", 2), ("baz", None)):
            ex = new_exec("real", feas_ms=2000)
            ex.max_steps = 4000
            lr = LineRunner(ex)
            tfields, cfields = lr.tfields, struct_fields("src/config.rs", "SmartCalcConfig")
            dnames = [n_ for n_, _t in struct_field_types("src/config.rs", "DynamicType")]
            units = {}
            for i, w in ((1, "foo"), (2, "bar")):
                u = unit_object("unit%d" % i, i)
                u.f[dnames.index("parse")] = VecV([VecV([field_token("NUMBER", "value"), tinfo(0, w, EnumV("TokenType", "Text", [StrV(w)]))])])
                u.f[dnames.index("group_name")] = StrV("fam")
                units[i] = u
            x = ex.fsym("x")
            num = EnumV("TokenType", "Number", [x, EnumV("NumberType", "Decimal", [])])
            if held_by_variable:
                var = StructV("VariableInfo", [VecV([]), EnumV("SmartCalcAstType", "Item", [ItemV("NumberItem", {0: x, 1: EnumV("NumberType", "Decimal", [])})])])
                first = tinfo(0, "v", EnumV("TokenType", "Variable", [var]))
            else:
                first = tinfo(0, "1", num)
            line = [first, tinfo(2, word, EnumV("TokenType", "Text", [StrV(word)]))]
            tk = SymV(ex, "tokinizerU", "tokinizer::Tokinizer")
            st = {
                (tk.path, tfields.index("token_infos")): VecV(line),
                (tk.path, tfields.index("tokens")): VecV([]),
                (tk.path, tfields.index("ui_tokens")): OpaqueV("ui_tokens"),
                (tk.path, tfields.index("language")): StrV("en"),
                (tk.path, tfields.index("config")): RefV(lr.cfgv),
                (tk.path, tfields.index("session")): RefV(lr.sess),
                (lr.cfgv.path, cfields.index("types")): MapC({"fam": MapC(dict(units))}),
            }
            what = "%s %s" % ("a variable holding x," if held_by_variable else "the number x,", word)
            rp = ("k_replay_unit_recognition", [(1 if held_by_variable else 0, "u8")])
            rpr = ("k_replay_unit_recognition", [[1 if held_by_variable else 0]])
            for o in ex.run(find_fn("dynamic_type_tokinizer"), [RefV(tk)], Path(stores=st)):
                ctx.paths += 1
                ctx.part.queries += 1
                n += 1
                if o.kind == "panic":
                    ctx.reachable(ex, o.path, "dynamic_type_tokinizer can panic on (%s): %s" % (what, o.msg), rp)
                    continue
                infos = o.path.stores[(tk.path, tfields.index("token_infos"))].items
                status = lambda t: (o.path.stores.get((t.path, 4), t.f[4])).variant
                active = [t for t in infos if status(t) == "Active"]
                written = sorted({str(k) for k in o.path.stores if k[0] in {u.path for u in units.values()}})
                if written:
                    ctx.failures.append(("recognising a unit writes into the calculator's unit descriptions %s" % written[:2], {}, rpr))
                    continue
                if idx is None:
                    if len(active) != 2 or active[0] is not line[0]:
                        ctx.failures.append(("a line without a unit word (%s) is rewritten" % what, {}, rpr))
                    continue
                tt = models.deref(active[0].f[2].f[0]) if len(active) == 1 else None
                ok = isinstance(tt, EnumV) and tt.variant == "DynamicType" and models.deref(tt.f[1]) is units[idx]
                if not ok:
                    ctx.failures.append(("the line (%s) is not recognised as a quantity of the user-defined unit %s (active tokens: %d)" % (what, word, len(active)), {}, rpr))
                    continue
                ctx.claim(ex, o.path, tt.f[0].t == x.t, "the quantity recognised from (%s) does not carry the amount x" % what, rp)
    ctx.part.functions.append("tokinizer::dynamic_type_tokinizer::dynamic_type_tokinizer")
    if not n:
        ctx.failures.append(("nothing executed", {}, None))



@spec("C08", "m_literals_wide", "the reading kernels of all three literal tokenisers on every written shape of sign x {1,2,3 | 1,3 | 2,3 | 3,3 | 1,3,3 | 2,3,3 | 3,3,3 digits} x {0..3 fraction digits} under the four separator conventions", tiers=("thorough",))
def _(ctx):
    number_literal_spec(ctx, ("number_regex_parser", "percent_regex_parser", "money_regex_parser"), wide=True)



@spec("C01", "m_time_literal", "the clock-time tokeniser's kernel registered for C01 as well: no panic on any match of the configured time patterns under any configured zone offset (-12 h .. +14 h)")
def _(ctx):
    _reuse("C11", "m_time_literal")(ctx)



@spec("C01", "m_programs_total", "every straight-line program of <= 2 lines over C03's statement templates (assignments, self-referential re-assignments, uses, failing lines) through the real variable machinery and interpreter (MIR, RefCell borrows of the variable slots tracked): no line panics - in particular re-assigning a variable in terms of itself - and every line gets its value")
def _(ctx):
    c03_spec(ctx, 2)



# ============================================================================ C11: the shown clock time
@spec("C11", "m_time_print", "TimeItem::print (MIR; chrono's strftime formatter and format! are observed, not executed): the hour, minute and second that reach the text are those of the wall time (instant + zone offset) modulo 24 hours - in 0..23 / 0..59 / 0..59 for every instant and every offset within -12 h..+14 h - followed by the zone's name")
def _(ctx):
    import re as _re5
    ex = new_exec("real")
    models.install_fmt(ex)
    shown = []

    def h_dt_format(ex_, name, args, path, depth, caller):
        z = models.deref(args[0])
        fmt = models.deref(args[1])
        if not (isinstance(fmt, StrV) and fmt.is_concrete() and fmt.t == "%H:%M:%S"):
            raise Unsupported("strftime format %r" % (fmt,))
        local = (z.utc.total() + z.off) % 86400
        yield execmir_Outcome("return", path.event(("clock", [local / 3600, (local / 60) % 60, local % 60])), StrV(z3.String("CLOCK_TEXT")))

    def h_fmt_ints(ex_, name, args, path, depth, caller):
        a = models.deref(args[0])
        ints = [x.v.t for x in getattr(a, "args", []) if isinstance(x, FmtArgV) and isinstance(x.v, IntV)]
        strs = [x.v for x in getattr(a, "args", []) if isinstance(x, FmtArgV) and isinstance(x.v, StrV)]
        p2 = path.event(("clock", ints)) if ints else path
        p2 = p2.event(("text_args", strs))
        yield execmir_Outcome("return", p2, StrV(z3.String("PRINTED")))
    ex.handlers.insert(0, (_re5.compile(r"^DateTime::<.*>::format::<.*>$|^DateTime::<.*>::format$"), h_dt_format))
    ex.handlers.insert(0, (_re5.compile(r"^<DelayedFormat<.*> as ToString>::to_string$"), models.h_identity0))
    ex.handlers.insert(0, (_re5.compile(r"^alloc::fmt::format$"), h_fmt_ints))
    me = SymV(ex, "self", "payload")
    cfgv = SymV(ex, "config", "config::SmartCalcConfig")
    sess = SymV(ex, "session", "session::Session")
    fn = models.item_impl(ex, "TimeItem", "print")
    ctx.part.functions.append("compiler::time::print")
    t = me.field(0, "chrono::NaiveDateTime")
    zone = me.field(1, "types::TimeOffset")
    off = zone.field(1, "i32").t
    name = zone.field(0, "alloc::string::String")
    ex.assumptions.append(z3.And(off >= -12 * 60, off <= 14 * 60))
    local = (t.total() + off * 60) % 86400
    want = [local / 3600, (local / 60) % 60, local % 60]
    rp = ("m_replay_time_print", [(t.secs, "u32"), (off, "i32")])
    n = 0
    for o in ex.run(fn, [RefV(ItemV("TimeItem", me)), RefV(cfgv), RefV(sess)], Path()):
        ctx.paths += 1
        if o.kind == "panic":
            ctx.reachable(ex, o.path, "TimeItem::print can panic: " + o.msg, rp)
            continue
        clocks = [e[1] for e in o.path.events if e[0] == "clock"]
        if len(clocks) != 1 or len(clocks[0]) != 3:
            ctx.reachable(ex, o.path, "TimeItem::print does not put exactly one hour:minute:second triple into the text", rp)
            continue
        n += 1
        got = clocks[0]
        ctx.claim(ex, o.path, z3.And([g == w for g, w in zip(got, want)] + [got[0] >= 0, got[0] < 24, got[1] >= 0, got[1] < 60, got[2] >= 0, got[2] < 60]),
                  "the shown time is not the wall time (instant + zone offset) modulo 24 hours", rp)
        texts = [x for e in o.path.events if e[0] == "text_args" for x in e[1]]
        if not any(isinstance(x, StrV) and not x.is_concrete() and x.term().eq(name.term()) for x in texts):
            ctx.failures.append(("TimeItem::print does not show the zone's name", {}, None))
    if not n and not ctx.failures:
        ctx.failures.append(("TimeItem::print: nothing decided", {}, None))



# ============================================================================ C09: the printed date is the calendar date
@spec("C09", "m_date_print", "DateItem::print (MIR; month names, padding and the format strings are observed, not executed): every day / month / year that reaches the text is read from a date whose day number is the item's own calendar date, for every date and every zone offset within -12 h..+14 h - the configured zone never moves a date to its neighbour")
def _(ctx):
    import re as _re6
    ex = new_exec("real")
    cnt = [0]

    class DateTzV:
        def __init__(self, days, off):
            self.days, self.off = days, off

    def h_from_utc_date(ex_, name, args, path, depth, caller):
        tz, d = models.deref(args[0]), models.deref(args[1])
        yield execmir_Outcome("return", path, DateTzV(d.days, tz.secs if isinstance(tz, models.OffsetV) else z3.IntVal(0)))

    def h_datelike(ex_, name, args, path, depth, caller):
        d = models.deref(args[0])
        days = d.days if hasattr(d, "days") else None
        if days is None and isinstance(d, models.ZonedV):
            days = (d.utc.total() + d.off) / 86400        # floor: the local date of a zoned date-time
        if days is None:
            raise Unsupported("Datelike on %r" % (d,))
        cnt[0] += 1
        part = name.split("::")[-1]
        t = z3.Int("%s%d" % (part, cnt[0]))
        yield execmir_Outcome("return", path.event(("datelike", part, days)), IntV(t, 32, part == "year"))

    def h_date_naive(ex_, name, args, path, depth, caller):
        z = models.deref(args[0])
        yield execmir_Outcome("return", path, DateV((z.utc.total() + z.off) / 86400))

    def h_and_time(ex_, name, args, path, depth, caller):
        d, t = models.deref(args[0]), models.deref(args[1])
        yield execmir_Outcome("return", path, DateTimeV(d.days, t.secs if hasattr(t, "secs") else z3.IntVal(0)))

    def h_text(ex_, name, args, path, depth, caller):
        cnt[0] += 1
        yield execmir_Outcome("return", path, StrV(z3.String("text%d" % cnt[0])))

    def h_month_info(ex_, name, args, path, depth, caller):
        cnt[0] += 1
        yield execmir_Outcome("return", path, EnumV("Option", "Some", [SymV(ex_, "month_info%d" % cnt[0], "constants::MonthInfo")]))
    add = lambda rx, fn_: ex.handlers.insert(0, (_re6.compile(rx), fn_))
    add(r"^<FixedOffset as TimeZone>::from_utc_date$", h_from_utc_date)
    add(r"^<(Date<.*>|NaiveDate|(chrono::)?NaiveDate|DateTime<.*>) as Datelike>::(year|month|day)$", h_datelike)
    add(r"^DateTime::<.*>::date_naive$", h_date_naive)
    add(r"^(chrono::)?NaiveDate::and_time$", h_and_time)
    add(r"^DateTime::<Utc>::date$", models.h_identity0)
    add(r"^(alloc|core)::str::<impl str>::replace::<.*>$|^<(u32|i32|i64|u8) as ToString>::to_string$|^(formatter::)?left_padding$|^(formatter::)?uppercase_first_letter$|^<Date<.*> as ToString>::to_string$|^<(chrono::)?NaiveDate as ToString>::to_string$", h_text)
    add(r"^(formatter::)?get_month_info$", h_month_info)
    me = SymV(ex, "self", "payload")
    cfgv = SymV(ex, "config", "config::SmartCalcConfig")
    sess = SymV(ex, "session", "session::Session")
    fn = models.item_impl(ex, "DateItem", "print")
    ctx.part.functions.append("compiler::date::print")
    d = me.field(0, "chrono::NaiveDate")
    off = me.field(1, "types::TimeOffset").field(1, "i32").t
    ex.assumptions.append(z3.And(off >= -12 * 60, off <= 14 * 60))
    rp = ("m_replay_date_print", [(off, "i32")])
    n = 0
    for o in ex.run(fn, [RefV(ItemV("DateItem", me)), RefV(cfgv), RefV(sess)], Path()):
        ctx.paths += 1
        if o.kind == "panic":
            ctx.reachable(ex, o.path, "DateItem::print can panic: " + o.msg, rp)
            continue
        evs = [e for e in o.path.events if e[0] == "datelike"]
        if not evs:
            continue           # no format table for the language: prints "" / chrono's own text
        # the year comparison with "now" reads the year of the current instant: not a reading of the item's date
        own = [e for e in evs if not (z3.is_expr(e[2]) and "now" in e[2].sexpr())]
        n += 1
        for e in own:
            ctx.claim(ex, o.path, e[2] == d.days, "the %s shown by DateItem::print is read from a date other than the item's calendar date" % e[1], rp)
    if not n and not ctx.failures:
        ctx.failures.append(("DateItem::print: no path reads the date", {}, None))



# ============================================================================ C14 / C09: the printed date-time is the zoned instant
def datetime_print_spec(ctx):
    import re as _re7
    ex = new_exec("real")
    cnt = [0]

    def local_of(d):
        """(local day number, local second of the day) of a value read by Datelike / Timelike"""
        if isinstance(d, models.ZonedV):
            tot = d.utc.total() + d.off
            return tot / 86400, tot % 86400
        if isinstance(d, DateTimeV):
            return d.days, d.secs
        if hasattr(d, "days"):
            return d.days, None
        raise Unsupported("calendar reading on %r" % (d,))

    def h_datelike(ex_, name, args, path, depth, caller):
        days, _s = local_of(models.deref(args[0]))
        cnt[0] += 1
        part = name.split("::")[-1]
        t = z3.Int("%s%d" % (part, cnt[0]))
        yield execmir_Outcome("return", path.event(("datelike", part, days)), IntV(t, 32, part == "year"))

    def h_timelike(ex_, name, args, path, depth, caller):
        _d, secs = local_of(models.deref(args[0]))
        if secs is None:
            raise Unsupported("Timelike on a date")
        part = name.split("::")[-1]
        val = {"hour": secs / 3600, "minute": (secs / 60) % 60, "second": secs % 60}[part]
        yield execmir_Outcome("return", path.event(("timelike", part, val)), IntV(val, 32, False))

    def h_text(ex_, name, args, path, depth, caller):
        cnt[0] += 1
        yield execmir_Outcome("return", path, StrV(z3.String("text%d" % cnt[0])))

    def h_month_info(ex_, name, args, path, depth, caller):
        cnt[0] += 1
        yield execmir_Outcome("return", path, EnumV("Option", "Some", [SymV(ex_, "month_info%d" % cnt[0], "constants::MonthInfo")]))

    def h_date_naive(ex_, name, args, path, depth, caller):
        z = models.deref(args[0])
        days, _s = local_of(z)
        yield execmir_Outcome("return", path, DateV(days))
    add = lambda rx, fn_: ex.handlers.insert(0, (_re7.compile(rx), fn_))
    add(r"^<(Date<.*>|NaiveDate|(chrono::)?NaiveDate|(chrono::)?NaiveDateTime|DateTime<.*>) as Datelike>::(year|month|day)$", h_datelike)
    add(r"^<((chrono::)?NaiveDateTime|DateTime<.*>|(chrono::)?NaiveTime) as Timelike>::(hour|minute|second)$", h_timelike)
    add(r"^DateTime::<.*>::date_naive$", h_date_naive)
    add(r"^DateTime::<Utc>::date$", models.h_identity0)
    add(r"^(alloc|core)::str::<impl str>::replace::<.*>$|^<(u32|i32|i64|u8) as ToString>::to_string$|^(formatter::)?left_padding$|^(formatter::)?uppercase_first_letter$|^<DateTime<.*> as ToString>::to_string$|^<(chrono::)?NaiveDateTime as ToString>::to_string$|^alloc::fmt::format$", h_text)
    add(r"^(formatter::)?get_month_info$", h_month_info)
    add(r"^Arguments::<'_>::new(_const)?::<.*>$|^must_use::<.*>$|^core::fmt::rt::Argument::<'_>::\w+(::<.*>)?$", models.h_opaque)
    me = SymV(ex, "self", "payload")
    cfgv = SymV(ex, "config", "config::SmartCalcConfig")
    sess = SymV(ex, "session", "session::Session")
    fn = models.item_impl(ex, "DateTimeItem", "print")
    ctx.part.functions.append("compiler::date_time::print")
    t = me.field(0, "chrono::NaiveDateTime")
    off = me.field(1, "types::TimeOffset").field(1, "i32").t
    ex.assumptions.append(z3.And(off >= -12 * 60, off <= 14 * 60))
    tot = t.total() + off * 60
    ldays, lsecs = tot / 86400, tot % 86400
    want = {"hour": lsecs / 3600, "minute": (lsecs / 60) % 60, "second": lsecs % 60}
    rp = ("m_replay_datetime_print", [(t.secs, "u32"), (off, "i32")])
    n = 0
    for o in ex.run(fn, [RefV(ItemV("DateTimeItem", me)), RefV(cfgv), RefV(sess)], Path()):
        ctx.paths += 1
        if o.kind == "panic":
            ctx.reachable(ex, o.path, "DateTimeItem::print can panic: " + o.msg, rp)
            continue
        evs = [e for e in o.path.events if e[0] in ("datelike", "timelike")]
        if not evs:
            continue           # no format table for the language
        own = [e for e in evs if not (z3.is_expr(e[2]) and "now" in e[2].sexpr())]
        n += 1
        for e in own:
            ctx.part.queries += 1
            if e[0] == "datelike":
                ctx.claim(ex, o.path, e[2] == ldays, "the %s read by DateTimeItem::print (shown, or compared with the running year to choose the layout) is not that of the instant moved into the item's zone" % e[1], rp)
            else:
                ctx.claim(ex, o.path, e[2] == want[e[1]], "the %s shown by DateTimeItem::print is not that of the instant moved into the item's zone" % e[1], rp)
    if not n and not ctx.failures:
        ctx.failures.append(("DateTimeItem::print: no path reads the instant", {}, None))


@spec("C14", "m_datetime_print", "DateTimeItem::print (MIR; month names, padding, format strings and format! are observed, not executed): every year / month / day / hour / minute / second that print reads - the ones shown and the year it compares with the running year to choose between the layout with and without a year - is that of the instant moved into the item's zone, for every instant and every zone offset within -12 h..+14 h")
def _(ctx):
    datetime_print_spec(ctx)


@spec("C09", "m_datetime_print", "DateTimeItem::print registered for C09 as well ('<date> at <time>' and date-time results are printed by it)")
def _(ctx):
    datetime_print_spec(ctx)



# ============================================================================ the configuration setters store what they are given (C07 / C08)
def setters_spec(ctx):
    cfields = struct_fields("src/config.rs", "SmartCalcConfig")
    nc = [n_ for n_, _t in struct_field_types("src/config.rs", "NumberConfig")]
    mc = [n_ for n_, _t in struct_field_types("src/config.rs", "MoneyConfig")]
    cases = [
        ("set_decimal_seperator", [("decimal_seperator", None, "str")]),
        ("set_thousand_separator", [("thousand_separator", None, "str")]),
        ("set_number_configuration", [("number_config", nc.index("decimal_digits"), "u8"), ("number_config", nc.index("remove_fract_if_zero"), "bool"), ("number_config", nc.index("use_fract_rounding"), "bool")]),
        ("set_percentage_configuration", [("percentage_config", nc.index("decimal_digits"), "u8"), ("percentage_config", nc.index("remove_fract_if_zero"), "bool"), ("percentage_config", nc.index("use_fract_rounding"), "bool")]),
        ("set_money_configuration", [("money_config", mc.index("remove_fract_if_zero"), "bool"), ("money_config", mc.index("use_fract_rounding"), "bool")]),
    ]
    n = 0
    for si, (setter, targets) in enumerate(cases):
        ex = new_exec("real")
        models.install_field_writes(ex)
        cfgv = SymV(ex, "config", "config::SmartCalcConfig")
        calc = StructV("SmartCalc", [cfgv])
        fn = [f for nm, f in ex.fns.items() if _re.search(r"smartcalc::<impl at src/smartcalc\.rs[^>]*>::%s$" % setter, nm)]
        if len(fn) != 1:
            raise Unsupported("%s not found" % setter)
        ctx.part.functions.append("smartcalc::SmartCalc::" + setter)
        args, vals = [], []
        for i, (_f, _i, ty) in enumerate(targets):
            if ty == "str":
                t = z3.String("arg%d" % i)
                args.append(StrV(t))
            elif ty == "u8":
                t = z3.Int("arg%d" % i)
                ex.domain.append(z3.And(t >= 0, t <= 255))
                args.append(IntV(t, 8, False))
            else:
                t = z3.Bool("arg%d" % i)
                args.append(t)
            ex.inputs["arg%d" % i] = t
            vals.append(t)
        rp = ("k_replay_setters", [(si, "u8")])
        for o in ex.run(fn[0], [RefV(calc)] + args, Path()):
            ctx.paths += 1
            n += 1
            if o.kind == "panic":
                ctx.reachable(ex, o.path, "%s can panic: %s" % (setter, o.msg), rp)
                continue
            for (fld, sub, ty), want in zip(targets, vals):
                if sub is None:
                    got = o.path.stores.get((cfgv.path, cfields.index(fld)))
                else:
                    owner = cfgv.field(cfields.index(fld), "config::" + ("MoneyConfig" if fld == "money_config" else "NumberConfig"))
                    got = o.path.stores.get((owner.path, sub))
                if got is None:
                    ctx.reachable(ex, o.path, "%s leaves %s as it was for some argument (the setting is not stored)" % (setter, fld), rp)
                    continue
                gt = got.term() if isinstance(got, StrV) else (got.t if isinstance(got, IntV) else got)
                ctx.claim(ex, o.path, gt == want, "%s does not store its argument in %s" % (setter, fld), rp)
    if not n:
        ctx.failures.append(("no setter executed", {}, None))


@spec("C07", "m_format_setters", "set_decimal_seperator, set_thousand_separator, set_number_configuration, set_percentage_configuration, set_money_configuration (MIR, arguments symbolic): each stores exactly its arguments in the configuration fields the printers read, for every argument and whatever the current settings are - the setters can be called in any order")
def _(ctx):
    setters_spec(ctx)


@spec("C08", "m_format_setters", "the separator setters registered for C08 as well: a configuration is reachable by calling the two setters in either order")
def _(ctx):
    setters_spec(ctx)


@spec("C04", "m_set_language", "Session::set_language (MIR): stores the language and writes nothing else - the variables of a re-used session survive a change of language")
def _(ctx):
    ex = new_exec("real")
    models.install_field_writes(ex)
    sfields = struct_fields("src/session.rs", "Session")
    me = SymV(ex, "session", "session::Session")
    lang = z3.String("language")
    fn = [f for nm, f in ex.fns.items() if _re.search(r"session::<impl at src/session\.rs[^>]*>::set_language$", nm)]
    if len(fn) != 1:
        raise Unsupported("set_language not found")
    ctx.part.functions.append("session::Session::set_language")
    n = 0
    for o in ex.run(fn[0], [RefV(me), StrV(lang)], Path()):
        ctx.paths += 1
        ctx.part.queries += 1
        n += 1
        if o.kind == "panic":
            ctx.reachable(ex, o.path, "set_language can panic: " + o.msg, ("k_replay_set_language", []))
            continue
        written = {k[1] for k in o.path.stores if k[0] == me.path}
        others = sorted(sfields[i] for i in written if isinstance(i, int) and sfields[i] != "language")
        touched = [e for e in o.path.events if e[0] == "store" and str(e[1]).startswith(me.path) and e[1] != me.path]
        if others or touched:
            ctx.failures.append(("set_language writes more than the language: %s" % (others or [str(e[1]) for e in touched][:3]), {}, ("k_replay_set_language", [])))
            continue
        got = o.path.stores.get((me.path, sfields.index("language")))
        if not (isinstance(got, StrV) and got.term().eq(lang)):
            ctx.failures.append(("set_language does not store the language it is given", {}, ("k_replay_set_language", [])))
    if not n:
        ctx.failures.append(("set_language: nothing executed", {}, None))


@spec("C14", "m_small_date", "small_date registered for C14 as well: '<date> as unix' is counted from the calendar date that was written (years 1..9999, no two-digit year expansion)")
def _(ctx):
    _reuse("C09", "m_small_date")(ctx)



@spec("C06", "m_money_literals", "the money literal kernel registered for C06 (money_regex_parser on a PRICE group written in the configured convention with a magnitude suffix k K M G T P Z Y as a symbolic text, the currency resolved through the symbolic tables): the amount is the number written times the power of 1000 of its suffix, in the named currency")
def _(ctx):
    number_literal_spec(ctx, ("money_regex_parser",))



# ============================================================================ the literal patterns of config.json admit the written shapes (regex language inclusion)
def _unescape_z3(sv):
    import re as _r
    return _r.sub(r"\\u\{([0-9a-fA-F]+)\}", lambda m: chr(int(m.group(1), 16)), sv)


def literal_patterns_spec(ctx, kinds):
    """for every separator convention the literal regexes admit: every literal of the written shape the kernels are decided
    for is matched AS A WHOLE by one of config.json's patterns of its kind (z3 regular-expression inclusion)"""
    import json as _json
    import os as _os
    import struct as _struct
    import common
    import regexsmt as R
    parse = _json.load(open(_os.path.join(common.REPO, "src/json/config.json")))["parse"]
    ctx.part.functions.append("config.json parse.{%s}" % ",".join(kinds))
    letters = z3.Union(z3.Range("a", "z"), z3.Range("A", "Z"))
    suffix = z3.Union(*[z3.Re(c) for c in "kKMGTPZY"])
    factor = {"k": 1e3, "K": 1e3, "M": 1e6, "G": 1e9, "T": 1e12, "P": 1e15, "Z": 1e18, "Y": 1e21}
    n = 0

    def value_of(text, ts, ds):
        t = text.replace(ts, "") if ts else text
        t = t.replace(ds, ".")
        return float(t)

    def check(kind_code, conv, shape, lang, what, expected_of):
        nonlocal n
        n += 1
        ctx.part.queries += 1
        w = R.included(shape, lang)
        if w is None:
            return
        w = _unescape_z3(w)
        try:
            exp = expected_of(w)
        except Exception:  # noqa: BLE001
            exp = 0.0
        raw = w.encode("utf-8")
        rp = ("m_replay_literal_string", [[kind_code], [conv], [len(raw)]] + [[b] for b in raw] + [list(_struct.pack("<d", exp))])
        ctx.failures.append(("%s: the literal %r is not matched as a whole by any pattern of config.json" % (what, w), {"literal": w}, rp))

    for conv, (ts, ds) in enumerate(((",", "."), (".", ","))):
        W = R.written(ts, ds)
        strip = lambda t: t.lstrip("+")
        if "number" in kinds:
            lang = R.union(parse["number"])
            check(0, conv, W, lang, "number literal (thousands %r, decimal %r)" % (ts, ds), lambda w: value_of(w, ts, ds))
            check(0, conv, z3.Concat(W, suffix), lang, "number literal with a magnitude suffix (thousands %r, decimal %r)" % (ts, ds), lambda w: value_of(w[:-1], ts, ds) * factor[w[-1]])
        if "percent" in kinds:
            lang = R.union(parse["percent"])
            check(1, conv, z3.Concat(W, z3.Re("%")), lang, "percent literal N%% (thousands %r, decimal %r)" % (ts, ds), lambda w: value_of(w[:-1], ts, ds))
            check(1, conv, z3.Concat(z3.Re("%"), W), lang, "percent literal %%N (thousands %r, decimal %r)" % (ts, ds), lambda w: value_of(w[1:], ts, ds))
        if "money" in kinds:
            lang = R.union(parse["money"])
            Wm = R.written(ts, ds, signed=False)
            check(2, conv, z3.Concat(z3.Re("$"), Wm, z3.Option(suffix)), lang, "money literal $N[suffix] (thousands %r, decimal %r)" % (ts, ds),
                  lambda w: value_of(w[1:].rstrip("kKMGTPZY"), ts, ds) * (factor[w[-1]] if w[-1] in factor else 1.0))
            for code in ("usd", "EUR", "try"):
                check(2, conv, z3.Concat(Wm, z3.Loop(z3.Re(" "), 0, 2), z3.Re(code)), lang, "money literal N %s (thousands %r, decimal %r)" % (code, ts, ds),
                      lambda w, code=code: value_of(w[:-len(code)].strip(), ts, ds))
                check(2, conv, z3.Concat(Wm, suffix, z3.Loop(z3.Re(" "), 1, 2), z3.Re(code)), lang, "money literal N<suffix> %s (thousands %r, decimal %r)" % (code, ts, ds),
                      lambda w, code=code: value_of(w[:-len(code)].strip()[:-1], ts, ds) * factor[w[:-len(code)].strip()[-1]])
    if "number" in kinds:
        lang = R.union(parse["number"])
        hexd = z3.Union(z3.Range("1", "9"), z3.Range("a", "f"), z3.Range("A", "F"))
        check(4, 0, z3.Concat(z3.Re("0"), z3.Union(z3.Re("x"), z3.Re("X")), z3.Loop(hexd, 1, 15)), lang, "hexadecimal literal", lambda w: float(int(w[2:], 16)))
        check(4, 0, z3.Concat(z3.Re("0"), z3.Union(z3.Re("o"), z3.Re("O")), z3.Loop(z3.Range("1", "7"), 1, 20)), lang, "octal literal", lambda w: float(int(w[2:], 8)))
        check(4, 0, z3.Concat(z3.Re("0"), z3.Union(z3.Re("b"), z3.Re("B")), z3.Re("1"), z3.Loop(z3.Range("0", "1"), 0, 61)), lang, "binary literal", lambda w: float(int(w[2:], 2)))
    if "time" in kinds:
        lang = R.union(parse["time"])
        hh = z3.Union(z3.Concat(z3.Option(z3.Range("0", "1")), z3.Range("0", "9")), z3.Concat(z3.Re("2"), z3.Range("0", "3")))
        mm = z3.Concat(z3.Range("0", "5"), z3.Range("0", "9"))
        check(3, 0, z3.Concat(hh, z3.Re(":"), mm), lang, "clock time hh:mm", lambda w: 0.0)
        check(3, 0, z3.Concat(hh, z3.Re(":"), mm, z3.Re(":"), mm), lang, "clock time hh:mm:ss", lambda w: 0.0)
        h12 = z3.Union(z3.Range("1", "9"), z3.Concat(z3.Re("1"), z3.Range("0", "2")))
        mer = z3.Concat(z3.Union(z3.Re("a"), z3.Re("A"), z3.Re("p"), z3.Re("P")), z3.Union(z3.Re("m"), z3.Re("M")))
        check(3, 0, z3.Concat(h12, z3.Option(z3.Re(" ")), mer), lang, "clock time h am/pm", lambda w: 0.0)
        check(3, 0, z3.Concat(h12, z3.Re(":"), mm, z3.Option(z3.Re(" ")), mer), lang, "clock time h:mm am/pm", lambda w: 0.0)
    if not n:
        ctx.failures.append(("literal patterns: nothing checked", {}, None))


@spec("C08", "r_literal_patterns", "config.json's number / percent / money patterns translated to z3 regular expressions: under both separator conventions every literal of the written shapes the reading kernels are decided for - [sign] 1..3 digits, up to three groups of three joined by the thousands separator (or one run of up to 12 digits), an optional fraction of 1..3 digits behind the decimal separator; N% and %N; $N with suffix, N code, N<suffix> code; 0x / 0o / 0b literals - is matched AS A WHOLE by one of the patterns (language inclusion decided by the solver for all digits; a literal that is not, is replayed natively)")
def _(ctx):
    literal_patterns_spec(ctx, ("number", "percent", "money"))


@spec("C05", "r_literal_patterns", "the percent patterns registered for C05: both spellings N% and %N of every written shape are matched as a whole")
def _(ctx):
    literal_patterns_spec(ctx, ("percent",))


@spec("C06", "r_literal_patterns", "the money patterns registered for C06: symbol before the amount, code after it, with and without a magnitude suffix")
def _(ctx):
    literal_patterns_spec(ctx, ("money",))


@spec("C13", "r_literal_patterns", "the number patterns registered for C13: 0x / 0o / 0b literals of every length the reader accepts are matched as a whole")
def _(ctx):
    literal_patterns_spec(ctx, ("number",))


@spec("C02", "r_literal_patterns", "the number patterns registered for C02: decimal literals with and without a magnitude suffix")
def _(ctx):
    literal_patterns_spec(ctx, ("number",))


@spec("C11", "r_literal_patterns", "the time patterns registered for C11: hh:mm, hh:mm:ss, h am/pm, h:mm am/pm are matched as a whole")
def _(ctx):
    literal_patterns_spec(ctx, ("time",))



# ============================================================================ no earlier pattern claims a part of a based / decimal literal (regex languages)
HEX_MONEY_KNOWN = ("xaf", "xcd", "aed", "bbd", "cad", "cdf")     # the recorded known finding C13-hex-literal-read-as-money


def _ci(word):
    return z3.Concat(*[z3.Union(z3.Re(c.lower()), z3.Re(c.upper())) if c.lower() != c.upper() else z3.Re(c) for c in word]) if len(word) > 1 else z3.Re(word)


def based_literals_spec(ctx, only_known):
    import json as _json
    import os as _os
    import struct as _struct
    import common
    import regexsmt as R
    cfg = _json.load(open(_os.path.join(common.REPO, "src/json/config.json")))
    parse = cfg["parse"]
    names = sorted({k.lower() for k in cfg["currencies"]} | {k.lower() for k in cfg["currency_alias"]})
    names = [n_ for n_ in names if n_.isascii() and n_.isalpha() and len(n_) >= 2]
    ctx.part.functions.append("config.json parse.number / parse.money, currencies, currency_alias")
    anyc = z3.Union(z3.Range(" ", "~"))
    sigma = z3.Star(anyc)
    digit = z3.Range("0", "9")
    letter = z3.Union(z3.Range("a", "z"), z3.Range("A", "Z"))
    hexd = z3.Union(digit, z3.Range("a", "f"), z3.Range("A", "F"))
    shapes = {
        "HEX": (z3.Concat(z3.Re("0"), z3.Union(z3.Re("x"), z3.Re("X")), z3.Loop(hexd, 1, 12)), lambda w: float(int(w[2:], 16)), 4),
        "OCTAL": (z3.Concat(z3.Re("0"), z3.Union(z3.Re("o"), z3.Re("O")), z3.Loop(z3.Range("0", "7"), 1, 16)), lambda w: float(int(w[2:], 8)), 4),
        "BINARY": (z3.Concat(z3.Re("0"), z3.Union(z3.Re("b"), z3.Re("B")), z3.Loop(z3.Range("0", "1"), 1, 40)), lambda w: float(int(w[2:], 2)), 4),
        "DECIMAL": (z3.Concat(z3.Loop(digit, 1, 12), z3.Option(z3.Concat(z3.Re("."), z3.Loop(digit, 1, 3))), z3.Option(z3.Union(*[z3.Re(c) for c in "kKMGTPZY"]))),
                    lambda w: float(w.rstrip("kKMGTPZY")) * {"k": 1e3, "K": 1e3, "M": 1e6, "G": 1e9, "T": 1e12, "P": 1e15, "Z": 1e18, "Y": 1e21}.get(w[-1], 1.0), 0),
    }
    n = 0

    def witness(shape, lang):
        nonlocal n
        n += 1
        ctx.part.queries += 1
        s_ = z3.String("literal")
        sol = z3.Solver()
        sol.set("timeout", 60000)
        sol.add(z3.InRe(s_, shape), z3.InRe(s_, lang))
        r = sol.check()
        if r == z3.unsat:
            return None
        if r != z3.sat:
            raise Unsupported("regex intersection query undecided")
        v = sol.model().eval(s_, model_completion=True)
        return _unescape_z3(v.as_string())

    def report(kind_code, w, val, what):
        raw = w.encode("utf-8")
        rp = ("m_replay_literal_string", [[kind_code], [0], [len(raw)]] + [[b] for b in raw] + [list(_struct.pack("<d", val))])
        ctx.failures.append((what % w, {"literal": w}, rp))
    # the money patterns with a currency WORD: a match is a money token only when the word is a configured code or alias;
    # the word is the maximal run of letters (greedy {2,}), i.e. followed by a non-letter or the end
    price = z3.Concat(z3.Plus(digit), z3.Star(z3.Union(digit, z3.Re("."), z3.Re(","))))
    boundary = z3.Union(z3.Re(""), z3.Concat(z3.Union(digit, z3.Re("."), z3.Re(","), z3.Re(" ")), sigma))
    def money_word(ns):
        return z3.Concat(sigma, price, z3.Star(z3.Re(" ")), z3.Union(*[_ci(x) for x in ns]) if len(ns) > 1 else _ci(ns[0]), boundary)
    known = [x for x in HEX_MONEY_KNOWN if x in names]
    others = [x for x in names if x not in HEX_MONEY_KNOWN]
    if only_known:
        hit = 0
        for nm in known:
            w = witness(shapes["HEX"][0], money_word([nm]))
            if w is not None:
                hit += 1
                report(4, w, shapes["HEX"][1](w), "the hexadecimal literal %r is claimed by the money pattern '<amount><currency word>' (its digits spell a configured currency code): read as money, not as the integer written")
        if not n:
            ctx.failures.append(("based literals: nothing checked", {}, None))
        return
    for key, (shape, val, kind_code) in shapes.items():
        w = witness(shape, money_word(others))
        if w is not None:
            report(kind_code, w, val(w), "the " + key.lower() + " literal %r is claimed by the money pattern '<amount><currency word>': read as money, not as the number written")
    # patterns of the number table that run before the literal's own pattern must not match inside it
    order = []
    for pat in parse["number"]:
        m_ = _re.search(r"\(\?P<(HEX|OCTAL|BINARY|DECIMAL)>", pat)
        if not m_:
            raise Unsupported("number pattern without a known group: %r" % pat)
        order.append((m_.group(1), pat))
    for i, (key, _pat) in enumerate(order):
        shape, val, kind_code = shapes[key]
        for (ekey, epat) in order[:i]:
            w = witness(shape, z3.Concat(sigma, R.to_z3(epat), sigma))
            if w is not None:
                report(kind_code, w, val(w), "the " + key.lower() + " literal %r contains a match of the " + ekey.lower() + " pattern, which config.json lists earlier: the earlier pattern claims its characters first")
    if not n:
        ctx.failures.append(("based literals: nothing checked", {}, None))


@spec("C13", "r_based_literals_not_claimed", "config.json's number and money patterns as z3 regular expressions, with the configured currency codes and aliases: no 0x / 0o / 0b / decimal literal (up to 12 / 16 / 40 / 12 digits) contains a match of a number pattern listed earlier in the table, and none is claimed by the money pattern '<amount><currency word>' for any configured currency word - except the six words of the recorded known finding (intersection emptiness decided by the solver; a witness literal is replayed natively)")
def _(ctx):
    based_literals_spec(ctx, False)


@spec("C13", "r_hex_literal_read_as_money", "the same intersection for the currency words xaf, xcd (after the leading 0) and aed, bbd, cad, cdf (after a run of decimal digits): hexadecimal literals such as 0xAF, 0xCD, 0x1AED must denote their integer (known finding: read as money)", finding="C13-hex-literal-read-as-money")
def _(ctx):
    based_literals_spec(ctx, True)



# ============================================================================ C09: every month name of a line becomes a Month token
@spec("C09", "m_month_parser", "month_parser (MIR; the month table of the language holds one pattern, the regex engine reports two matches of it in the line - the engine itself is a stub that returns them in order): every match is handed to add_token_from_match as Month(number of that month), in order - a line may name a month more than once ('1 january 2021 to 11 january 2021')")
def _(ctx):
    ex = new_exec("real")
    cfields = struct_fields("src/config.rs", "SmartCalcConfig")
    tfields = struct_fields("src/tokinizer/mod.rs", "Tokinizer")
    cfgv = SymV(ex, "config", "config::SmartCalcConfig")
    tk = SymV(ex, "tokinizerM", "tokinizer::Tokinizer")
    month_no = z3.Int("month_no")
    ex.domain.append(z3.And(month_no >= 1, month_no <= 12))
    ex.inputs["month_no"] = month_no
    info = StructV("MonthInfo", [StrV("jan"), StrV("january"), IntV(month_no, 8, False)])
    rx = RegexV("month-pattern")
    matches = [StructV("Match", [IntV(i, 64, False)]) for i in (1, 2)]

    def h_iter(ex_, name, args, path, depth, caller):
        yield execmir_Outcome("return", path.event(("search", "captures_iter")), IterV([StructV("Captures", [m]) for m in matches], 0, False, True))

    def h_get(ex_, name, args, path, depth, caller):
        c = models.deref(args[0])
        yield execmir_Outcome("return", path, EnumV("Option", "Some", [c.f[0]]))

    def h_find(ex_, name, args, path, depth, caller):
        yield execmir_Outcome("return", path.event(("search", "find")), EnumV("Option", "Some", [matches[0]]))

    def h_add(ex_, name, args, path, depth, caller):
        m, tok = models.deref(args[1]), models.deref(args[2])
        yield execmir_Outcome("return", path.event(("add_token", m, tok)), z3.Bool("added%d" % len(path.events)))
    add = lambda rx_, fn_: ex.handlers.insert(0, (_re.compile(rx_), fn_))
    add(r"^(regex::)?Regex::captures_iter$", h_iter)
    add(r"^(regex::)?Regex::find$", h_find)
    add(r"^(regex::)?Captures::<'_>::get$", h_get)
    add(r"^(tokinizer::)?Tokinizer::(<'_>::)?add_token_from_match$", h_add)
    add(r"^(tokinizer::)?Tokinizer::(<'_>::)?add_uitoken_from_match$", models.h_opaque)
    add(r"^BTreeMap::<(alloc::string::)?String, Vec<\((regex::)?Regex, (constants::)?MonthInfo\)>>::get::<.*>$", models.h_mapc_get)
    add(r"^<regex::CaptureMatches<.*> as Iterator>::next$|^<CaptureMatches<.*> as Iterator>::next$", models.h_iter_next)
    add(r"^<regex::CaptureMatches<.*> as IntoIterator>::into_iter$|^<CaptureMatches<.*> as IntoIterator>::into_iter$", models.h_identity_keep)
    st = {
        (cfgv.path, cfields.index("month_regex")): MapC({"en": VecV([TupleV([rx, info])])}),
        (tk.path, tfields.index("language")): StrV("en"),
    }
    fn = find_fn("month_parser")
    ctx.part.functions.append("tokinizer::regex_tokinizer::month_parser")
    n = 0
    rp = ("m_replay_month_twice", [])
    for o in ex.run(fn, [RefV(cfgv), RefV(tk), RefV(StrV(z3.String("line")))], Path(stores=st)):
        ctx.paths += 1
        if o.kind == "panic":
            ctx.reachable(ex, o.path, "month_parser can panic: " + o.msg, rp)
            continue
        if not ex.feasible(o.path):
            continue
        n += 1
        ctx.part.queries += 1
        adds = [e for e in o.path.events if e[0] == "add_token"]
        ok = len(adds) == len(matches)
        for e, m in zip(adds, matches):
            got_m = e[1].f[0] if isinstance(e[1], EnumV) and e[1].variant == "Some" else None
            tok = e[2].f[0] if isinstance(e[2], EnumV) and e[2].variant == "Some" else None
            if got_m is not m or not (isinstance(tok, EnumV) and tok.variant == "Month"):
                ok = False
                break
            ctx.claim(ex, o.path, tok.f[0].t == month_no, "a month name is not recorded as the number of its month", rp)
        if not ok:
            ctx.failures.append(("month_parser does not record every match of a month name in the line as a Month token (%d of %d recorded)" % (len(adds), len(matches)), {}, rp))
    if not n:
        ctx.failures.append(("month_parser: nothing executed", {}, None))
