"""Per-property check orchestration: runs the engines' parts, replays counterexamples natively,
applies the known-findings file, writes the evidence file, prints VIOLATION / KNOWN-FINDING lines."""
import hashlib
import json
import os
import time
import traceback

import common
from common import (EXIT_INCONCLUSIVE, EXIT_OK, EXIT_VIOLATION, REPLAYS, load_known, log, out, write_evidence)


class Part:
    """One decided obligation (a K harness, an M query group, a D query group)."""

    def __init__(self, engine, name, about=""):
        self.engine = engine
        self.name = name
        self.about = about
        self.status = "inconclusive"     # pass | fail | inconclusive | unexplored
        self.reason = ""
        self.finding = None              # key of the known finding this part is expected to hit
        self.finding_hit = False
        self.queries = 0                 # solver queries discharged
        self.solver_s = 0.0
        self.states = 0                  # SAT variables (K) / paths (M)
        self.transitions = 0             # clauses (K)
        self.sample = None               # a written-out case
        self.cex = None                  # decoded counterexample
        self.replay = None               # native replay record
        self.functions = []
        self.bounds = ""
        self.wall = 0.0

    def to_json(self):
        d = {"engine": self.engine, "name": self.name, "status": self.status, "about": self.about,
             "bounds": self.bounds, "queries": self.queries, "solver_s": round(self.solver_s, 2),
             "wall_s": round(self.wall, 1)}
        if self.reason:
            d["reason"] = self.reason[:400]
        if self.states:
            d["sat_variables"] = self.states
            d["sat_clauses"] = self.transitions
        if self.functions:
            d["functions"] = self.functions
        if self.finding:
            d["known_finding"] = self.finding
            d["known_finding_hit"] = self.finding_hit
        if self.cex is not None:
            d["counterexample"] = self.cex
        if self.replay is not None:
            d["replay"] = self.replay
        if self.sample is not None:
            d["sample"] = self.sample
        return d


def save_replay(prop, part_name, payload):
    os.makedirs(REPLAYS, exist_ok=True)
    h = hashlib.sha1(json.dumps(payload, sort_keys=True).encode()).hexdigest()[:10]
    path = os.path.join(REPLAYS, "%s-%s-%s.json" % (prop, part_name, h))
    with open(path, "w") as fh:
        json.dump(payload, fh, indent=1)
        fh.write("\n")
    return path


def finish(prop, tier, level, parts, assumptions, t0, extra_cov=None, trusted=None):
    """Verdict + evidence. Returns the exit code."""
    known = load_known()
    known_keys = {f["key"]: f for f in known.get("findings", []) if f.get("property") == prop}
    violations = []
    inconclusive = []
    unexplored = []
    known_lines = []
    for p in parts:
        if p.status == "fail":
            if p.finding and p.finding in known_keys and p.finding_hit:
                known_lines.append("KNOWN-FINDING: property=%s %s" % (prop, known_keys[p.finding]["what"]))
                continue
            violations.append(p)
        elif p.status == "inconclusive":
            inconclusive.append(p)
        elif p.status == "unexplored":
            unexplored.append(p)
        elif p.status == "pass" and p.finding and p.finding in known_keys:
            log("note: known finding %s did not manifest in %s (repaired or masked)" % (p.finding, p.name))
    for l in sorted(set(known_lines)):
        out(l)
    n_replayed = sum(1 for p in parts if p.replay)
    for p in violations:
        payload = {"property": prop, "part": p.name, "engine": p.engine, "about": p.about, "counterexample": p.cex,
                   "replay": p.replay, "reason": p.reason, "repo_head": common.repo_head()}
        path = save_replay(prop, p.name, payload)
        out("VIOLATION property=%s replay=%s" % (prop, path))
        log("  %s: %s" % (p.name, p.reason[:300]))
    explored = [p for p in parts if p.status in ("pass", "fail")]
    states = sum(p.states for p in parts)
    transitions = sum(p.transitions for p in parts)
    samples = []
    for p in parts:
        s = {"part": p.name, "engine": p.engine, "status": p.status, "bounds": p.bounds}
        if p.sample is not None:
            s["case"] = p.sample
        if p.cex is not None:
            s["counterexample"] = p.cex
        samples.append(s)
    cov = {
        "samples": samples[:60],
        "parts": [p.to_json() for p in parts],
        "functions_encoded": sorted({f for p in parts for f in p.functions}),
        "solver_queries_discharged": sum(p.queries for p in parts),
        "solver_time_s": round(sum(p.solver_s for p in parts), 2),
        "parts_total": len(parts),
        "parts_passed": sum(1 for p in parts if p.status == "pass"),
        "parts_failed": len(violations),
        "parts_known_finding": len(known_lines),
        "parts_inconclusive": [p.name + ": " + p.reason[:160] for p in inconclusive],
        "parts_unexplored": [p.name + ": " + p.reason[:160] for p in unexplored],
        "exhaustive": False,
        "explanation": "Every part is a solver verdict over all inputs within its stated bounds (bounded model checking of the compiled code, or SMT queries over an encoding regenerated from /repo's source); nothing outside the bounds is claimed.",
    }
    if level == "model_checking":
        cov["states"] = max(states, 1)
        cov["transitions"] = max(transitions, 1)
        cov["traces_validated_against_impl"] = n_replayed
    elif level == "translation_validation":
        cov.setdefault("programs", max(len({f for p in parts for f in p.functions}), 1))
        cov.setdefault("disagreements_checked", 0)
    if trusted:
        cov["trusted_base"] = trusted
    if extra_cov:
        cov.update(extra_cov)
    wall = time.time() - t0
    write_evidence(prop, tier, level, cov, assumptions, wall, len(violations))
    for p in inconclusive:
        log("INCONCLUSIVE %s/%s: %s" % (prop, p.name, p.reason[:300]))
    for p in unexplored:
        log("UNEXPLORED %s/%s: %s" % (prop, p.name, p.reason[:300]))
    log("%s %s: %d parts, %d passed, %d violations, %d known, %d inconclusive, %d unexplored, %.0fs" % (
        prop, tier, len(parts), cov["parts_passed"], len(violations), len(known_lines), len(inconclusive), len(unexplored), wall))
    if violations:
        return EXIT_VIOLATION
    if inconclusive or not explored:
        return EXIT_INCONCLUSIVE
    return EXIT_OK


# ------------------------------------------------------------------ engine K -> parts
def run_k(prop, tier, harnesses, replay_findings=False):
    """Build once, run all harnesses in parallel, replay failures natively. Returns (parts, info)."""
    import kani
    parts = []
    info = {"codegen_s": 0.0, "inject": None}
    if not harnesses:
        return parts, info
    kr = kani.KaniRun(harnesses, tag=prop.lower())
    rb = None
    try:
        try:
            kr.prepare()
            kr.codegen()
        except Exception as ex:  # build failure: no verdict for any harness
            for h in harnesses:
                p = Part("K", h.name, h.about)
                p.status, p.reason = "inconclusive", "build failed: %s" % str(ex)[-600:]
                parts.append(p)
            return parts, info
        info["codegen_s"] = round(kr.t_codegen, 1)
        info["inject"] = kr.inject_report
        results = kani.run_all(kr)
        for r in results:
            h = r.harness
            p = Part("K", h.name, h.about)
            p.bounds = "unwind %d%s; timeout %ds" % (h.unwind, (" + unwindset " + r.unwindset) if r.unwindset else "", h.timeout)
            p.functions = [h.body]
            p.queries = r.solver_calls
            p.solver_s = r.t_solver
            p.states, p.transitions = r.variables, r.clauses
            p.wall = r.wall
            p.reason = r.reason
            p.sample = {"harness": h.name, "body": h.body, "args": h.args, "covers_satisfied": sorted(k for k, v in r.covers.items() if v),
                        "properties_checked": r.n_props, "stubs": list(h.stubs)}
            if h.expect.startswith("finding:"):
                p.finding = h.expect.split(":", 1)[1]
            if r.status == "pass":
                p.status = "pass"
            elif r.status == "inconclusive":
                p.status = "unexplored" if (r.reason.startswith("timeout") or "out of memory" in r.reason) else "inconclusive"
            else:
                p.status = "fail"
                p.cex = {"failed_checks": r.failed[:6], "kani_any_values": (r.replay or {}).get("values")}
                if p.finding and h.finding_match and all(any(m in (f["function"] + " " + f["description"] + " " + f["file"]) for m in h.finding_match) for f in r.failed):
                    p.finding_hit = True
                need_replay = (not p.finding_hit) or replay_findings
                if need_replay and r.replay and r.replay.get("values") is not None:
                    if rb is None:
                        rb = kani.ReplayBuild(harnesses)
                        rb.prepare()
                    rec = [rb.replay(h.name, r.replay["values"], release=False), rb.replay(h.name, r.replay["values"], release=True)]
                    p.replay = rec
                    ok = any(x.get("reproduced") for x in rec)
                    if not ok and not p.finding_hit:
                        if h.replay_now and any(not x.get("assume_failed") for x in rec):
                            p.status = "inconclusive"
                            p.reason = "counterexample depends on the stubbed clock and did not reproduce with the real clock: " + p.reason
                        else:
                            p.status = "inconclusive"
                            p.reason = "counterexample did not reproduce natively (encoding or stub problem): " + p.reason
                elif not p.finding_hit:
                    p.status = "inconclusive"
                    p.reason = "no concrete values extracted for: " + p.reason
            parts.append(p)
    finally:
        kr.cleanup()
        if rb:
            rb.cleanup()
    return parts, info


K_ASSUMPTIONS = [
    "engine K: Kani 0.68 / CBMC 6.11 / CaDiCaL decide the compiled MIR of the real functions (dev profile: overflow checks on); CBMC flags: memory-safety and float-overflow instrumentation off, Rust's own arithmetic-overflow / bounds / unwrap panics stay checked",
    "engine K: alloc::collections::BTreeMap is replaced in the scratch copy by an order-preserving sorted-Vec map (kani/verif_map.rs) assumed observationally equivalent for the API subset smartcalc uses; counterexamples are replayed against the real BTreeMap before being reported",
    "engine K: unwinding assertions are on; a harness whose loop bounds are too small is reported inconclusive, never as a pass; every harness must satisfy its own kani::cover! witnesses (vacuity guard)",
    "stage A (regex tokenisers, load_from_json) is outside every engine-K claim: harnesses drive stages B-F directly with symbolic tokens / items",
]
