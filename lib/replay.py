"""./verify replay <path>: re-run a stored counterexample natively (dev and release) against /repo's working tree."""
import json
import sys

import common
from common import log, out


def main(argv):
    if not argv:
        log("usage: ./verify replay <replays/….json>")
        return 2
    payload = json.load(open(argv[0]))
    import kani
    import specs_k
    jobs = []
    cex = payload.get("counterexample")
    if payload.get("engine") == "K" and isinstance(cex, dict) and cex.get("kani_any_values") is not None:
        jobs.append((payload["part"], cex["kani_any_values"]))
    for r in payload.get("replay") or []:
        if isinstance(r, dict) and r.get("harness") and "values" in r:
            jobs.append((r["harness"], r["values"]))
        elif isinstance(r, dict) and r.get("harness") == "d_dump_units":
            jobs.append(("d_dump_units", []))
    if not jobs:
        log("no replayable input recorded in %s" % argv[0])
        return 2
    rb = kani.ReplayBuild(specs_k.ALL)
    reproduced = False
    try:
        rb.prepare()
        for harness, values in jobs:
            for rel in (False, True):
                rec = rb.replay(harness, values, release=rel)
                out("replay %s [%s]: %s%s" % (harness, "release" if rel else "dev", "REPRODUCED" if rec.get("reproduced") else "did not reproduce",
                                              (" - " + rec["panic"]) if rec.get("panic") else ""))
                reproduced = reproduced or bool(rec.get("reproduced"))
    finally:
        rb.cleanup()
    if reproduced:
        out("VIOLATION property=%s replay=%s" % (payload.get("property"), argv[0]))
        return 1
    return 0
