"""MANIFEST.setup_cmd: warm the caches that every check shares (dependency artefacts only;
smartcalc itself is rebuilt from /repo's working tree by every check)."""
import os
import sys
import time

import common
from common import log


def main():
    t0 = time.time()
    import kani
    import specs_k
    ok = True
    # 1. Kani: compile the registry dependencies into .cache/kani-target (one trivial harness)
    hs = [h for h in specs_k.ALL if h.name == "selftest_pass"]
    kr = kani.KaniRun(hs, tag="setup")
    try:
        kr.prepare()
        kr.codegen()
        r = kr.run_one(hs[0])
        log("setup: kani codegen %.0fs, selftest %s" % (kr.t_codegen, r.status))
        ok = ok and r.status == "pass"
    except Exception as ex:  # noqa: BLE001
        log("setup: kani warm-up failed: %s" % ex)
        ok = False
    finally:
        kr.cleanup()
    # 2. native replay target (dev + release test builds of the dependencies)
    rb = kani.ReplayBuild(hs)
    try:
        rb.prepare()
        for rel in (False, True):
            exe, err = rb._build(rel)
            log("setup: replay build (%s) %s" % ("release" if rel else "dev", "ok" if exe else "FAILED " + err[-300:]))
            ok = ok and bool(exe)
    finally:
        rb.cleanup()
    # 3. solvers present
    for tool in (["z3", "--version"], ["cvc5", "--version"], ["cbmc", "--version"]):
        rc, o, e, _ = common.run(tool, timeout=30)
        log("setup: %s -> %s" % (tool[0], (o or e or "").splitlines()[0] if rc == 0 else "MISSING"))
        ok = ok and rc == 0
    log("setup done in %.0fs" % (time.time() - t0))
    return 0 if ok else 1
