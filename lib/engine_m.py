"""Engine M: rule functions and DataItem kernels, translated from the nightly MIR dump of /repo's
working tree into SMT (z3, cross-checked with cvc5), decided per execution path.

Registers props.M_FUNCS[prop] = fn(tier, only) -> (parts, assumptions, extra_coverage)."""
import json
import os
import re
import struct
import subprocess
import time
from fractions import Fraction

import z3

import common
from check import Part
from common import log
from mirsmt import execmir, load, models
from mirsmt.execmir import Exec, Path, SymV
from mirsmt.mirparse import Unsupported
from mirsmt.values import *  # noqa: F401,F403

_MIR = {}


def mir():
    if not _MIR:
        t0 = time.time()
        keep = os.environ.get("VERIF_MIR_CACHE")  # development aid only: reuse a dump
        fns, consts, enums, wall = load.load(mir_path=keep if keep and os.path.exists(keep) else None)
        _MIR.update(fns=fns, consts=consts, enums=enums, wall=wall)
        _MIR["config"] = json.load(open(os.path.join(common.REPO, "src/json/config.json")))
        log("  [M] MIR dump %.0fs, %d functions" % (wall, len(fns)))
    return _MIR


# ------------------------------------------------------------------ rule-pattern preconditions (from config.json)
KIND_OF_FIELD = {"NUMBER": "Number", "PERCENT": "Percent", "MONEY": "Money", "TEXT": "Text", "GROUP": "Text", "DURATION": "Duration",
                 "TIME": "Time", "DATE": "Date", "DATE_TIME": "DateTime", "TIMEZONE": "Timezone", "MONTH": "Month",
                 "DYNAMIC_TYPE": "DynamicType"}


def rule_fields(fname):
    """{field name: set of TokenType variants} and the list of field-name sets (one per pattern),
    over all languages, read from config.json (the documented precondition of a rule function)."""
    cfg = mir()["config"]
    kinds, shapes = {}, []
    sources = []
    for lang, l in cfg["languages"].items():
        r = l["rules"].get(fname)
        if r:
            sources.append(r["rules"])
    if fname == "small_date":
        # its patterns are installed by SmartCalc::default() through set_date_rule (src/smartcalc.rs)
        text = open(os.path.join(common.REPO, "src/smartcalc.rs"), errors="replace").read()
        for m in re.finditer(r"set_date_rule\(\"\w+\", vec!\[(.*?)\]\)", text, re.S):
            sources.append(re.findall(r"\"([^\"]*\{[^\"]*)\"", m.group(1)))
    for pats in sources:
        for pat in pats:
            names = set()
            for m in re.finditer(r"\{([A-Z_]+):([^:}]+)(?::[^}]+)?\}", pat):
                ft, name = m.group(1), m.group(2)
                exp = cfg["type_group"].get(ft, [ft])
                for e in exp:
                    if e not in KIND_OF_FIELD:
                        raise Unsupported("field type %s in pattern %r" % (e, pat))
                    kinds.setdefault(name, set()).add(KIND_OF_FIELD[e])
                names.add(name)
            shapes.append(frozenset(names))
    return kinds, sorted(set(shapes), key=sorted)


# ------------------------------------------------------------------ solver helpers
class Q:
    """query bookkeeping for one part"""

    def __init__(self, part):
        self.part = part

    def check(self, ex, path, neg_claim, timeout_ms=60000):
        t0 = time.time()
        r = z3.unknown
        # z3's arithmetic is sensitive to its random seed on div/mod-heavy queries: retry an 'unknown' with other
        # seeds / a preprocessing tactic before giving up (an unknown is never read as a pass)
        for attempt, (seed, tactic, tmo) in enumerate(((0, None, min(timeout_ms, 20000)), (7, "simplify", timeout_ms), (23, None, timeout_ms))):
            s = z3.Then("simplify", "solve-eqs", "smt").solver() if tactic else z3.Solver()
            s.set("timeout", tmo)
            try:
                s.set("random_seed", seed)
            except z3.Z3Exception:
                pass
            for c in ex.domain + ex.assumptions + list(path.pc):
                s.add(c)
            s.add(neg_claim)
            r = s.check()
            if r != z3.unknown:
                break
        self.part.queries += 1
        self.part.solver_s += time.time() - t0
        self.last = s
        if CROSS["on"] and r != z3.unknown and CROSS["done"] < CROSS["max"]:
            cross_check(s, r, self.part)
        if r == z3.sat:
            return "sat", s.model()
        if r == z3.unsat:
            return "unsat", None
        return "unknown", None


CROSS = {"on": False, "done": 0, "max": 60, "agree": 0, "disagree": [], "other": 0}


def cross_check(solver, verdict, part):
    """diff z3 against cvc5 on the same SMT-LIB text (thorough tier, a sample of the queries)"""
    CROSS["done"] += 1
    try:
        text = "(set-logic ALL)\n" + solver.to_smt2()
        rc, o, e, _ = common.run(["cvc5", "--lang", "smt2", "--tlimit=20000"], input_text=text, timeout=40)
        ans = (o or "").strip().splitlines()[-1] if (o or "").strip() else ""
    except Exception:  # noqa: BLE001
        ans = ""
    z = "sat" if verdict == z3.sat else "unsat"
    if ans in ("sat", "unsat"):
        if ans == z:
            CROSS["agree"] += 1
        else:
            CROSS["disagree"].append("%s: z3 %s, cvc5 %s" % (part.name, z, ans))
    else:
        CROSS["other"] += 1


def model_inputs(ex, model):
    out = {}
    for name, t in ex.inputs.items():
        try:
            v = model.eval(t, model_completion=False)
        except z3.Z3Exception:
            continue
        if v.eq(t):
            continue
        out[name] = val_py(v)
    return out


def val_py(v):
    if z3.is_int_value(v):
        return v.as_long()
    if z3.is_rational_value(v):
        return str(Fraction(v.numerator_as_long(), v.denominator_as_long()))
    if z3.is_true(v):
        return True
    if z3.is_false(v):
        return False
    if z3.is_fp_value(v):
        if v.isNaN():
            return "NaN"
        if v.isInf():
            return "-inf" if v.isNegative() else "+inf"
        return float(v.as_string()) if False else fp_to_float(v)
    if z3.is_string_value(v):
        return v.as_string()
    if z3.is_algebraic_value(v):
        return str(v.approx(12))
    return str(v)


def fp_to_float(v):
    bv = z3.simplify(z3.fpToIEEEBV(v))
    return struct.unpack("<d", struct.pack("<Q", bv.as_long()))[0]


def to_f64(x):
    """model value (Fraction string / float / special) -> python float"""
    if isinstance(x, float):
        return x
    if isinstance(x, int):
        return float(x)
    if x == "NaN":
        return float("nan")
    if x in ("+inf", "-inf"):
        return float(x)
    try:
        return float(Fraction(x))
    except (ValueError, ZeroDivisionError):
        return float(x.rstrip("?"))


def f64_bytes(x):
    return list(struct.pack("<d", x))


def int_bytes(x, n, signed=True):
    return list(int(x).to_bytes(n, "little", signed=signed))


# ------------------------------------------------------------------ running a rule function
def new_exec(mode, feas_ms=None):
    m = mir()
    ex = Exec(m["fns"], m["consts"], m["enums"], mode=mode, timeout_ms=feas_ms or (400 if mode == "fp" else 5000))
    if mode == "real":
        from mirsmt import models as _models
        _models.install_sci(ex)
    return ex


def find_fn(name):
    fns = mir()["fns"]
    if name in fns:
        return fns[name]
    c = [f for n, f in fns.items() if n.endswith("::" + name) or n == name]
    if len(c) != 1:
        raise Unsupported("function %s not found in the MIR dump (%d candidates)" % (name, len(c)))
    return c[0]


def proj_index(fname, type_rx):
    """index and type text of the struct field whose projection annotation matches type_rx in fname's MIR
    (so that specs do not hard-code field positions of SmartCalcConfig / Tokinizer)"""
    fn = find_fn(fname)
    hits = set()
    for sts in fn.blocks.values():
        for st in sts:
            for m in re.finditer(r"\(\*_\d+\)\.(\d+): ([^;]*?)\)(?=[;,) ]|$)", st):
                if re.search(type_rx, m.group(2)):
                    hits.add((int(m.group(1)), m.group(2)))
    if len(hits) != 1:
        raise Unsupported("cannot locate a unique field of type /%s/ in %s (%d hits)" % (type_rx, fname, len(hits)))
    return next(iter(hits))


def tok_variant(ex, fields, key):
    """(SymV of the TokenType of field `key`, tag term)"""
    ti = fields.token(key)
    opt = ti.field(2, "core::cell::RefCell<core::option::Option<types::TokenType>>")
    ex.assumptions.append(opt.tag() == 1)
    tt = opt.payload("Some").field(0, "types::TokenType")
    return tt


def setup_rule(fname, mode, present=None):
    """executor + symbolic arguments for rule function `fname`, constrained by its patterns"""
    ex = new_exec(mode)
    kinds, shapes = rule_fields(fname)
    fields = models.FieldsV(ex)
    cfgv = SymV(ex, "config", "config::SmartCalcConfig")
    tkv = SymV(ex, "tokinizer", "tokinizer::Tokinizer")
    variants = ex.enums["TokenType"]
    toks = {}
    for name, ks in kinds.items():
        tt = tok_variant(ex, fields, name)
        toks[name] = tt
        ex.assumptions.append(z3.Or([tt.tag() == ex.discr("TokenType", k) for k in sorted(ks)]))
    # presence: exactly one of the pattern shapes
    shape_conds = []
    for sh in shapes:
        shape_conds.append(z3.And([fields.has_key(n) if n in sh else z3.Not(fields.has_key(n)) for n in kinds]))
    ex.assumptions.append(z3.Or(shape_conds))
    fields.closed = set(kinds)     # the rule engine binds exactly the fields named in the matched pattern
    ex._roots = [cfgv, tkv]
    return ex, fields, toks, [RefV(cfgv), RefV(tkv), RefV(fields)], cfgv, tkv


def run_fn(ex, fname, args):
    fn = find_fn(fname)
    t0 = time.time()
    outs = list(ex.run(fn, args, Path()))
    return outs, time.time() - t0


def ok_payload(o):
    """Result::Ok(TokenType::X(..)) -> (variant, fields) or None"""
    v = o.value
    if isinstance(v, EnumV) and v.enum == "Result" and v.variant == "Ok":
        t = v.f[0]
        if isinstance(t, EnumV):
            return t.variant, t.f
    return None


def is_err(o):
    v = o.value
    return isinstance(v, EnumV) and v.enum == "Result" and v.variant == "Err"


def tag_is(ex, tt, variant):
    return tt.tag() == ex.discr("TokenType", variant)


def fval(tt, variant, idx=0):
    return tt.payload(variant).field(idx, "f64")


class Spec:
    """a named group of queries over one function"""

    def __init__(self, prop, name, about, fn, tiers=("quick", "thorough"), finding=None):
        self.prop, self.name, self.about, self.fn, self.tiers, self.finding = prop, name, about, fn, tiers, finding


SPECS = []


def run_deep(f, *a):
    """run f on a thread with a large stack (the executor recurses once per basic block of a path)"""
    import sys
    import threading
    res = {}

    def tgt():
        sys.setrecursionlimit(1000000)
        try:
            res["v"] = f(*a)
        except BaseException as e:  # noqa: BLE001
            res["e"] = e
    old = threading.stack_size(1 << 30)
    try:
        t = threading.Thread(target=tgt)
        t.start()
        t.join()
    finally:
        threading.stack_size(old)
    if "e" in res:
        raise res["e"]
    return res.get("v")


def spec(prop, name, about, tiers=("quick", "thorough"), finding=None):
    def deco(f):
        SPECS.append(Spec(prop, name, about, f, tiers, finding))
        return f
    return deco


class Ctx:
    """what a spec function gets: the part to fill and helpers"""

    def __init__(self, part, tier):
        self.part = part
        self.tier = tier
        self.q = Q(part)
        self.failures = []     # (description, model inputs, replay descriptor)
        self.unknown = []
        self.paths = 0
        self.probes = {}       # label -> value of the encoding at a concrete input (translator validation)

    def probe(self, label, ex, outs, getter, bindings):
        """evaluate the encoding at one concrete input: the outcome whose path is satisfiable under the bindings"""
        for o in outs:
            if getattr(o, "kind", "") != "return":
                continue
            s = z3.Solver()
            s.set("timeout", 20000)
            for c in ex.domain + ex.assumptions + list(o.path.pc):
                s.add(c)
            for t, v in bindings:
                if isinstance(v, bool):
                    s.add(t if v else z3.Not(t))
                else:
                    s.add(t == v)
            if s.check() != z3.sat:
                continue
            try:
                term = getter(o)
            except Exception:  # noqa: BLE001
                continue
            if term is None:
                continue
            mv = s.model().eval(term, model_completion=True)
            if z3.is_string_value(mv):
                self.probes[label] = "S:" + mv.as_string()
                return
            val = val_py(mv)
            try:
                self.probes[label] = to_f64(val)
            except Exception:  # noqa: BLE001
                pass
            return

    def encode(self, model, replay):
        if replay is None:
            return None
        harness, terms = replay
        vals = []
        for t, ty in terms:
            if isinstance(t, (int, float, bool)):
                v = t
            else:
                v = val_py(model.eval(t, model_completion=True))
            if ty == "f64":
                vals.append(f64_bytes(to_f64(v)))
            elif ty == "bool":
                vals.append([1 if v else 0])
            else:
                bits, signed = INT_TYPES[ty]
                vals.append(int_bytes(v, bits // 8, signed))
        return harness, vals

    def claim(self, ex, path, claim, what, replay=None, timeout_ms=60000):
        r, model = self.q.check(ex, path, z3.Not(claim), timeout_ms)
        if r == "sat":
            self.failures.append((what, model_inputs(ex, model), self.encode(model, replay)))
        elif r == "unknown":
            self.unknown.append(what)
        return r

    def reachable(self, ex, path, what, replay=None, timeout_ms=60000):
        """a path that must not exist (panic site)"""
        r, model = self.q.check(ex, path, z3.BoolVal(True), timeout_ms)
        if r == "sat":
            self.failures.append((what, model_inputs(ex, model), self.encode(model, replay)))
        elif r == "unknown":
            self.unknown.append(what)
        return r


def run_specs(prop, tier, only):
    parts = []
    rx = re.compile(only) if only else None
    todo = [s for s in SPECS if s.prop == prop and tier in s.tiers and (not rx or rx.search(s.name))]
    if not todo:
        return parts, [], {}
    try:
        mir()
    except Exception as ex:  # noqa: BLE001
        for s in todo:
            p = Part("M", s.name, s.about)
            p.status, p.reason = "inconclusive", "MIR dump failed: %s" % str(ex)[-300:]
            parts.append(p)
        return parts, M_ASSUMPTIONS, {}
    replayer = Replayer()
    all_probes = {}
    CROSS.update(on=(tier == "thorough"), done=0, agree=0, disagree=[], other=0)
    try:
        for s in todo:
            p = Part("M", s.name, s.about)
            p.finding = s.finding
            t0 = time.time()
            ctx = Ctx(p, tier)
            try:
                s.fn(ctx)
                p.states = ctx.paths
                if ctx.failures:
                    finalize_failures(p, ctx, replayer, tier)
                elif ctx.unknown:
                    p.status, p.reason = "inconclusive", "solver returned unknown for: " + "; ".join(ctx.unknown[:3])
                elif p.queries == 0:
                    p.status, p.reason = "inconclusive", "no query was discharged (vacuous spec)"
                else:
                    p.status = "pass"
            except Unsupported as ex:
                p.states = ctx.paths
                if ctx.failures:
                    # a counterexample found before the enumeration stopped stands on its own (native replay decides)
                    finalize_failures(p, ctx, replayer, tier)
                    if p.status != "fail":
                        p.status, p.reason = "inconclusive", "translator refused: %s; before that: %s" % (ex, p.reason[:300])
                else:
                    p.status, p.reason = "inconclusive", "translator refused: %s" % ex
            except z3.Z3Exception as ex:
                p.status, p.reason = "inconclusive", "z3 error: %s" % ex
            p.wall = time.time() - t0
            all_probes.update(ctx.probes)
            log("  [M] %-38s %-12s %6.1fs paths=%d queries=%d %s" % (s.name, p.status, p.wall, ctx.paths, p.queries, p.reason[:120]))
            parts.append(p)
        if CROSS["on"] and CROSS["done"]:
            cp = Part("M", "m_solver_cross_check", "a sample of the z3 queries re-decided by cvc5 1.0 on the same SMT-LIB text")
            cp.queries = CROSS["done"]
            cp.sample = {"agree": CROSS["agree"], "cvc5_unknown_or_unsupported": CROSS["other"], "disagreements": CROSS["disagree"][:5]}
            if CROSS["disagree"]:
                cp.status, cp.reason = "inconclusive", "z3 and cvc5 disagree: %s" % CROSS["disagree"][:3]
            else:
                cp.status = "pass"
            log("  [M] %-38s %-12s        agree=%d other=%d disagree=%d" % (cp.name, cp.status, CROSS["agree"], CROSS["other"], len(CROSS["disagree"])))
            parts.append(cp)
        compared = 0
        if all_probes and not only:
            compared, vp = validate_probes(all_probes, replayer)
            parts.append(vp)
    finally:
        replayer.close()
    return parts, M_ASSUMPTIONS, {"mir_dump_s": round(mir()["wall"], 1), "programs": len({f for p in parts for f in p.functions}) or 1,
                                  "disagreements_checked": compared}


def validate_probes(probes, replayer):
    """translator validation: the encoding evaluated at concrete inputs against the native functions"""
    p = Part("M", "m_translator_validation", "the SMT encoding of each translated function, evaluated at concrete inputs, agrees with the native function on the same inputs (probe list: kani/harness/c10.rs m_probe_all)")
    t0 = time.time()
    rec = replayer.replay("m_probe_all", [], release=False, raw=True)
    native = {}
    for line in (rec.get("output") or "").splitlines():
        m = re.match(r"^PROBE (\S+) (\S.*)$", line.strip())
        if m:
            if m.group(2).startswith("S:"):
                native[m.group(1)] = m.group(2)
                continue
            try:
                native[m.group(1)] = float(m.group(2))
            except ValueError:
                pass
    bad, n = [], 0
    for label, v in sorted(probes.items()):
        if label not in native:
            continue
        n += 1
        w = native[label]
        if isinstance(v, str) or isinstance(w, str):
            if v != w:
                bad.append((label, v, w))
            continue
        if not (abs(v - w) <= 1e-9 * max(1.0, abs(w))):
            bad.append((label, v, w))
    p.queries = n
    p.wall = time.time() - t0
    p.sample = {"compared": {k: probes[k] for k in sorted(probes) if k in native}}
    if not native:
        p.status, p.reason = "inconclusive", "native probe run produced no output: %s" % str({k: v for k, v in rec.items() if k != "output"})[:300]
    elif bad:
        p.status, p.reason = "inconclusive", "encoding and native function disagree (translator or model defect): %s" % bad[:4]
    elif n == 0:
        p.status, p.reason = "inconclusive", "no probe could be compared"
    else:
        p.status = "pass"
    log("  [M] %-38s %-12s %6.1fs probes compared=%d %s" % (p.name, p.status, p.wall, n, p.reason[:120]))
    return n, p


def finalize_failures(p, ctx, replayer, tier="quick"):
    """native replay decides whether a satisfiable negated claim is reported"""
    p.cex = [{"claim": w, "inputs": inp} for (w, inp, _) in ctx.failures[:4]]
    p.reason = "; ".join(w for w, _, _ in ctx.failures[:3])
    if p.finding and tier != "thorough":
        p.status, p.finding_hit = "fail", True
        return
    recs, reproduced = [], False
    # replay up to four failures, different claims first
    chosen, seen_claims = [], set()
    for f in ctx.failures:
        if f[2] is not None and f[0] not in seen_claims:
            seen_claims.add(f[0])
            chosen.append(f)
    chosen += [f for f in ctx.failures if f[2] is not None and f not in chosen]
    for what, inp, rp in chosen[:4]:
        if reproduced and len(recs) >= 2:
            break
        harness, values = rp
        tmo = 30 if "does not terminate" in what else 120     # a native run that does not return is the witness of a hang
        rec = [replayer.replay(harness, values, release=False, timeout=tmo), replayer.replay(harness, values, release=True, timeout=tmo)]
        recs.append({"claim": what, "harness": harness, "values": values, "runs": rec})
        if any(r.get("reproduced") for r in rec):
            reproduced = True
    p.replay = recs or None
    if reproduced:
        p.status = "fail"
        p.finding_hit = bool(p.finding)
    else:
        p.status = "inconclusive"
        p.reason = "solver model did not reproduce natively (or no replay body): " + p.reason


class Replayer:
    """lazy native replay build shared by the specs of one run"""

    def __init__(self):
        self.rb = None

    def replay(self, harness, values, release=False, raw=False, timeout=120):
        import kani
        import specs_k
        if self.rb is None:
            self.rb = kani.ReplayBuild([h for h in specs_k.ALL])
            self.rb.prepare()
        return self.rb.replay(harness, values, release=release, raw=raw, timeout=timeout)

    def close(self):
        if self.rb:
            self.rb.cleanup()


M_ASSUMPTIONS = [
    "engine M: functions are translated from rustc's nightly MIR dump (-Zunpretty=mir, overflow checks on) of /repo's working tree by /verif/lib/mirsmt; any statement or call the translator does not know makes the part inconclusive, never a pass",
    "engine M: integers are mathematical integers with the MIR's explicit overflow assertions (dev-profile semantics); f64 formulas are decided in the real relaxation (each IEEE operation read as the exact real operation, a zero divisor handled exactly as the code's NaN/inf guard handles it); f64 rounding of individual operations is outside the claim",
    "engine M: rule-function inputs are literal tokens of the kinds their config.json patterns can bind (TokenType::Variable operands - a dyn Any downcast - are outside the claim)",
    "engine M: Rc/RefCell/Ref deref, borrow and clone are read as identity; BTreeMap lookups in the configuration are uninterpreted functions of the key; chrono values are modelled as (day number, second of day) / whole seconds, the models being validated against the real chrono by engine K harnesses (C09/C11/C14 chrono_model_*)",
    "engine M: a satisfiable negated claim is reported only after the model reproduces natively through an in-crate replay body with its own oracle (dev and release profiles)",
]


import specs_m  # noqa: E402,F401  (registers SPECS)
import props  # noqa: E402

for _p in sorted({s.prop for s in SPECS}):
    props.M_FUNCS[_p] = (lambda pr: (lambda tier, only: run_specs(pr, tier, only)))(_p)
