"""Engine M: rule functions and DataItem kernels, translated from the nightly MIR dump of /repo's
working tree into SMT (z3, cross-checked with cvc5), decided per execution path.

Registers props.M_FUNCS[prop] = fn(tier, only) -> (parts, assumptions, extra_coverage)."""
import json
import os
import re
import struct
import subprocess
import time
from fractions import Fraction

import z3

import common
from check import Part
from common import log
from mirsmt import execmir, load, models
from mirsmt.execmir import Exec, Path, SymV
from mirsmt.mirparse import Unsupported
from mirsmt.values import *  # noqa: F401,F403

_MIR = {}


def mir():
    if not _MIR:
        t0 = time.time()
        keep = os.environ.get("VERIF_MIR_CACHE")  # development aid only: reuse a dump
        fns, consts, enums, wall = load.load(mir_path=keep if keep and os.path.exists(keep) else None)
        _MIR.update(fns=fns, consts=consts, enums=enums, wall=wall)
        _MIR["config"] = json.load(open(os.path.join(common.REPO, "src/json/config.json")))
        log("  [M] MIR dump %.0fs, %d functions" % (wall, len(fns)))
    return _MIR


# ------------------------------------------------------------------ rule-pattern preconditions (from config.json)
KIND_OF_FIELD = {"NUMBER": "Number", "PERCENT": "Percent", "MONEY": "Money", "TEXT": "Text", "GROUP": "Text", "DURATION": "Duration",
                 "TIME": "Time", "DATE": "Date", "DATE_TIME": "DateTime", "TIMEZONE": "Timezone", "MONTH": "Month",
                 "DYNAMIC_TYPE": "DynamicType"}


def rule_fields(fname):
    """{field name: set of TokenType variants} and the list of field-name sets (one per pattern),
    over all languages, read from config.json (the documented precondition of a rule function)."""
    cfg = mir()["config"]
    kinds, shapes = {}, []
    for lang, l in cfg["languages"].items():
        r = l["rules"].get(fname)
        if not r:
            continue
        for pat in r["rules"]:
            names = set()
            for m in re.finditer(r"\{([A-Z_]+):([^:}]+)(?::[^}]+)?\}", pat):
                ft, name = m.group(1), m.group(2)
                exp = cfg["type_group"].get(ft, [ft])
                for e in exp:
                    if e not in KIND_OF_FIELD:
                        raise Unsupported("field type %s in pattern %r" % (e, pat))
                    kinds.setdefault(name, set()).add(KIND_OF_FIELD[e])
                names.add(name)
            shapes.append(frozenset(names))
    return kinds, sorted(set(shapes), key=sorted)


# ------------------------------------------------------------------ solver helpers
class Q:
    """query bookkeeping for one part"""

    def __init__(self, part):
        self.part = part

    def check(self, ex, path, neg_claim, timeout_ms=60000):
        s = z3.Solver()
        s.set("timeout", timeout_ms)
        for c in ex.domain + ex.assumptions + list(path.pc):
            s.add(c)
        s.add(neg_claim)
        t0 = time.time()
        r = s.check()
        self.part.queries += 1
        self.part.solver_s += time.time() - t0
        self.last = s
        if r == z3.sat:
            return "sat", s.model()
        if r == z3.unsat:
            return "unsat", None
        return "unknown", None


def model_inputs(ex, model):
    out = {}
    for name, t in ex.inputs.items():
        try:
            v = model.eval(t, model_completion=False)
        except z3.Z3Exception:
            continue
        if v.eq(t):
            continue
        out[name] = val_py(v)
    return out


def val_py(v):
    if z3.is_int_value(v):
        return v.as_long()
    if z3.is_rational_value(v):
        return str(Fraction(v.numerator_as_long(), v.denominator_as_long()))
    if z3.is_true(v):
        return True
    if z3.is_false(v):
        return False
    if z3.is_fp_value(v):
        if v.isNaN():
            return "NaN"
        if v.isInf():
            return "-inf" if v.isNegative() else "+inf"
        return float(v.as_string()) if False else fp_to_float(v)
    if z3.is_string_value(v):
        return v.as_string()
    if z3.is_algebraic_value(v):
        return str(v.approx(12))
    return str(v)


def fp_to_float(v):
    bv = z3.simplify(z3.fpToIEEEBV(v))
    return struct.unpack("<d", struct.pack("<Q", bv.as_long()))[0]


def to_f64(x):
    """model value (Fraction string / float / special) -> python float"""
    if isinstance(x, float):
        return x
    if isinstance(x, int):
        return float(x)
    if x == "NaN":
        return float("nan")
    if x in ("+inf", "-inf"):
        return float(x)
    try:
        return float(Fraction(x))
    except (ValueError, ZeroDivisionError):
        return float(x.rstrip("?"))


def f64_bytes(x):
    return list(struct.pack("<d", x))


def int_bytes(x, n, signed=True):
    return list(int(x).to_bytes(n, "little", signed=signed))


# ------------------------------------------------------------------ running a rule function
def new_exec(mode, feas_ms=None):
    m = mir()
    ex = Exec(m["fns"], m["consts"], m["enums"], mode=mode, timeout_ms=feas_ms or (400 if mode == "fp" else 5000))
    return ex


def find_fn(name):
    fns = mir()["fns"]
    if name in fns:
        return fns[name]
    c = [f for n, f in fns.items() if n.endswith("::" + name) or n == name]
    if len(c) != 1:
        raise Unsupported("function %s not found in the MIR dump (%d candidates)" % (name, len(c)))
    return c[0]


def proj_index(fname, type_rx):
    """index and type text of the struct field whose projection annotation matches type_rx in fname's MIR
    (so that specs do not hard-code field positions of SmartCalcConfig / Tokinizer)"""
    fn = find_fn(fname)
    hits = set()
    for sts in fn.blocks.values():
        for st in sts:
            for m in re.finditer(r"\(\*_\d+\)\.(\d+): ([^;]*?)\)(?=[;,) ]|$)", st):
                if re.search(type_rx, m.group(2)):
                    hits.add((int(m.group(1)), m.group(2)))
    if len(hits) != 1:
        raise Unsupported("cannot locate a unique field of type /%s/ in %s (%d hits)" % (type_rx, fname, len(hits)))
    return next(iter(hits))


def tok_variant(ex, fields, key):
    """(SymV of the TokenType of field `key`, tag term)"""
    ti = fields.token(key)
    opt = ti.field(2, "core::cell::RefCell<core::option::Option<types::TokenType>>")
    ex.assumptions.append(opt.tag() == 1)
    tt = opt.payload("Some").field(0, "types::TokenType")
    return tt


def setup_rule(fname, mode, present=None):
    """executor + symbolic arguments for rule function `fname`, constrained by its patterns"""
    ex = new_exec(mode)
    kinds, shapes = rule_fields(fname)
    fields = models.FieldsV(ex)
    cfgv = SymV(ex, "config", "config::SmartCalcConfig")
    tkv = SymV(ex, "tokinizer", "tokinizer::Tokinizer")
    variants = ex.enums["TokenType"]
    toks = {}
    for name, ks in kinds.items():
        tt = tok_variant(ex, fields, name)
        toks[name] = tt
        ex.assumptions.append(z3.Or([tt.tag() == ex.discr("TokenType", k) for k in sorted(ks)]))
    # presence: exactly one of the pattern shapes
    shape_conds = []
    for sh in shapes:
        shape_conds.append(z3.And([fields.has_key(n) if n in sh else z3.Not(fields.has_key(n)) for n in kinds]))
    ex.assumptions.append(z3.Or(shape_conds))
    ex._roots = [cfgv, tkv]
    return ex, fields, toks, [RefV(cfgv), RefV(tkv), RefV(fields)], cfgv, tkv


def run_fn(ex, fname, args):
    fn = find_fn(fname)
    t0 = time.time()
    outs = list(ex.run(fn, args, Path()))
    return outs, time.time() - t0


def ok_payload(o):
    """Result::Ok(TokenType::X(..)) -> (variant, fields) or None"""
    v = o.value
    if isinstance(v, EnumV) and v.enum == "Result" and v.variant == "Ok":
        t = v.f[0]
        if isinstance(t, EnumV):
            return t.variant, t.f
    return None


def is_err(o):
    v = o.value
    return isinstance(v, EnumV) and v.enum == "Result" and v.variant == "Err"


def tag_is(ex, tt, variant):
    return tt.tag() == ex.discr("TokenType", variant)


def fval(tt, variant, idx=0):
    return tt.payload(variant).field(idx, "f64")


class Spec:
    """a named group of queries over one function"""

    def __init__(self, prop, name, about, fn, tiers=("quick", "thorough"), finding=None):
        self.prop, self.name, self.about, self.fn, self.tiers, self.finding = prop, name, about, fn, tiers, finding


SPECS = []


def spec(prop, name, about, tiers=("quick", "thorough"), finding=None):
    def deco(f):
        SPECS.append(Spec(prop, name, about, f, tiers, finding))
        return f
    return deco


class Ctx:
    """what a spec function gets: the part to fill and helpers"""

    def __init__(self, part, tier):
        self.part = part
        self.tier = tier
        self.q = Q(part)
        self.failures = []     # (description, model inputs, replay descriptor)
        self.unknown = []
        self.paths = 0

    def encode(self, model, replay):
        if replay is None:
            return None
        harness, terms = replay
        vals = []
        for t, ty in terms:
            if isinstance(t, (int, float, bool)):
                v = t
            else:
                v = val_py(model.eval(t, model_completion=True))
            if ty == "f64":
                vals.append(f64_bytes(to_f64(v)))
            elif ty == "bool":
                vals.append([1 if v else 0])
            else:
                bits, signed = INT_TYPES[ty]
                vals.append(int_bytes(v, bits // 8, signed))
        return harness, vals

    def claim(self, ex, path, claim, what, replay=None, timeout_ms=60000):
        r, model = self.q.check(ex, path, z3.Not(claim), timeout_ms)
        if r == "sat":
            self.failures.append((what, model_inputs(ex, model), self.encode(model, replay)))
        elif r == "unknown":
            self.unknown.append(what)
        return r

    def reachable(self, ex, path, what, replay=None, timeout_ms=60000):
        """a path that must not exist (panic site)"""
        r, model = self.q.check(ex, path, z3.BoolVal(True), timeout_ms)
        if r == "sat":
            self.failures.append((what, model_inputs(ex, model), self.encode(model, replay)))
        elif r == "unknown":
            self.unknown.append(what)
        return r


def run_specs(prop, tier, only):
    parts = []
    rx = re.compile(only) if only else None
    todo = [s for s in SPECS if s.prop == prop and tier in s.tiers and (not rx or rx.search(s.name))]
    if not todo:
        return parts, [], {}
    try:
        mir()
    except Exception as ex:  # noqa: BLE001
        for s in todo:
            p = Part("M", s.name, s.about)
            p.status, p.reason = "inconclusive", "MIR dump failed: %s" % str(ex)[-300:]
            parts.append(p)
        return parts, M_ASSUMPTIONS, {}
    replayer = Replayer()
    try:
        for s in todo:
            p = Part("M", s.name, s.about)
            p.finding = s.finding
            t0 = time.time()
            ctx = Ctx(p, tier)
            try:
                s.fn(ctx)
                p.states = ctx.paths
                if ctx.failures:
                    finalize_failures(p, ctx, replayer, tier)
                elif ctx.unknown:
                    p.status, p.reason = "inconclusive", "solver returned unknown for: " + "; ".join(ctx.unknown[:3])
                elif p.queries == 0:
                    p.status, p.reason = "inconclusive", "no query was discharged (vacuous spec)"
                else:
                    p.status = "pass"
            except Unsupported as ex:
                p.status, p.reason = "inconclusive", "translator refused: %s" % ex
            except z3.Z3Exception as ex:
                p.status, p.reason = "inconclusive", "z3 error: %s" % ex
            p.wall = time.time() - t0
            log("  [M] %-38s %-12s %6.1fs paths=%d queries=%d %s" % (s.name, p.status, p.wall, ctx.paths, p.queries, p.reason[:120]))
            parts.append(p)
    finally:
        replayer.close()
    return parts, M_ASSUMPTIONS, {"mir_dump_s": round(mir()["wall"], 1), "programs": len({f for p in parts for f in p.functions}) or 1}


def finalize_failures(p, ctx, replayer, tier="quick"):
    """native replay decides whether a satisfiable negated claim is reported"""
    p.cex = [{"claim": w, "inputs": inp} for (w, inp, _) in ctx.failures[:4]]
    p.reason = "; ".join(w for w, _, _ in ctx.failures[:3])
    if p.finding and tier != "thorough":
        p.status, p.finding_hit = "fail", True
        return
    recs, reproduced = [], False
    for what, inp, rp in ctx.failures[:3]:
        if rp is None:
            continue
        harness, values = rp
        rec = [replayer.replay(harness, values, release=False), replayer.replay(harness, values, release=True)]
        recs.append({"claim": what, "harness": harness, "values": values, "runs": rec})
        if any(r.get("reproduced") for r in rec):
            reproduced = True
    p.replay = recs or None
    if reproduced:
        p.status = "fail"
        p.finding_hit = bool(p.finding)
    else:
        p.status = "inconclusive"
        p.reason = "solver model did not reproduce natively (or no replay body): " + p.reason


class Replayer:
    """lazy native replay build shared by the specs of one run"""

    def __init__(self):
        self.rb = None

    def replay(self, harness, values, release=False, raw=False):
        import kani
        import specs_k
        if self.rb is None:
            self.rb = kani.ReplayBuild([h for h in specs_k.ALL])
            self.rb.prepare()
        return self.rb.replay(harness, values, release=release, raw=raw)

    def close(self):
        if self.rb:
            self.rb.cleanup()


M_ASSUMPTIONS = [
    "engine M: functions are translated from rustc's nightly MIR dump (-Zunpretty=mir, overflow checks on) of /repo's working tree by /verif/lib/mirsmt; any statement or call the translator does not know makes the part inconclusive, never a pass",
    "engine M: integers are mathematical integers with the MIR's explicit overflow assertions (dev-profile semantics); f64 formulas are decided in the real relaxation (each IEEE operation read as the exact real operation, a zero divisor handled exactly as the code's NaN/inf guard handles it); f64 rounding of individual operations is outside the claim",
    "engine M: rule-function inputs are literal tokens of the kinds their config.json patterns can bind (TokenType::Variable operands - a dyn Any downcast - are outside the claim)",
    "engine M: Rc/RefCell/Ref deref, borrow and clone are read as identity; BTreeMap lookups in the configuration are uninterpreted functions of the key; chrono values are modelled as (day number, second of day) / whole seconds, the models being validated against the real chrono by engine K harnesses (C09/C11/C14 chrono_model_*)",
    "engine M: a satisfiable negated claim is reported only after the model reproduces natively through an in-crate replay body with its own oracle (dev and release profiles)",
]


import specs_m  # noqa: E402,F401  (registers SPECS)
import props  # noqa: E402

for _p in sorted({s.prop for s in SPECS}):
    props.M_FUNCS[_p] = (lambda pr: (lambda tier, only: run_specs(pr, tier, only)))(_p)
